"""C17 -- every generated test vector is labelled with its true metamodel validity (decidable clauses)."""
import ast

from ..common import Ctx, P_SCHEMA, AnalysisError
from ..genlint import Module, dotted, _targets
from .. import microeval

P_TD = "generator/plugins/testdata/testdata_generator.py"

META = {
    "level": "other",
    "explanation": (
        "Static analysis of testdata_generator.py. (a) validity-flag propagation (taint): every generator function "
        "yields (flag, value) pairs; each place where pairs produced by a callee are destructured is an origin "
        "with a validity component and a value component. For every `yield (V, X)` (and generator expression "
        "handed to `yield from`) the set of origins whose VALUE flows into X (through assignments, "
        "comprehensions, zip, deepcopy, .update/.append) must be contained in the set of origins whose VALIDITY "
        "flows into V (`all(valid for valid, _ in product)` covers the whole product). The one deliberate "
        "relabelling (LSPAny/LSPObject/LSPArray payloads are always valid) is a named exception. (b) base tables: "
        "the constant (flag, value) pairs of generate_for_base / request_variants / response_variants / "
        "notify_variants are constant-folded (E5) and compared with an independent oracle (int32 / uint31 ranges, "
        "non-bool ints; id is an in-range non-bool int or a string; jsonrpc == '2.0' and method present; id "
        "present for requests and responses, absent for notifications); every base type of the schema has at "
        "least one True vector. (c) file names: each of the three `name = f\"<Class>-{valid}-{hash}.json\"` sites "
        "interpolates the class name derived from the message being iterated, the validity component of the pair "
        "whose value component is dumped into `content`, and the hash of that same content (syntactic form; kept while the code has that shape). (d) generate() is folded (E5) on a synthetic model with the vector generators stubbed: every (class, label, content) triple gets its own file, named <Class>-<label>-<hash of that content>.json, so vectors of different classes or labels never share or overwrite a file. (e) the plugin's flattening of structure properties is folded on the inheritance lattice of C06: vectors are generated against the nearest declaration."),
    "trusted_base": ["Python generator / zip / itertools.product semantics"],
    "assumptions": [],
    "not_decided": ["at least one True vector per message class; acceptance of True vectors by the Python converter "
                    "(both need running the plugin)", "validity of structures beyond flag propagation (property-level "
                    "rules are the base tables')"],
}

RELABEL_EXCEPTION = ("generate_for_reference", ("LSPObject", "LSPAny", "LSPArray"))


class Taint:
    """Per-function origin tracking."""

    def __init__(self, mod: Module, fn: ast.FunctionDef, pairgens: set):
        self.m = mod
        self.fn = fn
        self.pairgens = pairgens
        self.shapes: dict[str, str] = {}       # var -> PAIRS | TUPLES | LISTS
        self.valid: dict[str, set] = {}        # var -> origins whose validity it carries
        self.value: dict[str, set] = {}        # var -> origins whose value it carries
        self.tuplevar: dict[str, str] = {}     # loop var holding a tuple of pairs -> origin
        self.origin_desc: dict[str, str] = {}
        self._n = 0
        self._solve()

    def new_origin(self, desc):
        self._n += 1
        k = f"o{self._n}"
        self.origin_desc[k] = desc
        return k

    # ---- shapes
    def shape(self, e):
        if isinstance(e, ast.Name):
            return self.shapes.get(e.id)
        if isinstance(e, ast.Call):
            d = dotted(e.func) or ""
            short = d.split(".")[-1]
            if short in self.pairgens:
                return "PAIRS"
            if short in ("list", "tuple", "iter") and e.args:
                return self.shape(e.args[0])
            if d in ("itertools.product", "product"):
                if e.args and all(self.shape(a) == "PAIRS" for a in e.args):
                    return "TUPLES"
            if d in ("itertools.chain", "chain") and e.args and isinstance(e.args[0], ast.Starred) \
                    and self.shape(e.args[0].value) == "LISTS":
                return "PAIRS"
            if d == "zip" and e.args and isinstance(e.args[0], ast.Starred):
                inner = e.args[0].value
                if isinstance(inner, ast.Call) and dotted(inner.func) == "extend_all" and inner.args:
                    inner = inner.args[0]
                if self.shape(inner) == "LISTS":
                    return "TUPLES"
            return None
        if isinstance(e, ast.Subscript):
            return self.shape(e.value)
        if isinstance(e, ast.IfExp):
            return self.shape(e.body) or self.shape(e.orelse)
        if isinstance(e, ast.ListComp):
            if self.shape(e.elt) == "PAIRS":
                return "LISTS"
        if isinstance(e, ast.List) and e.elts and all(self.shape(x) == "PAIRS" for x in e.elts):
            return "LISTS"
        return None

    # ---- origins of an expression (with comprehension-local bindings)
    def origins(self, e, local_valid=None, local_value=None):
        lv, lx = dict(local_valid or {}), dict(local_value or {})
        vset, xset = set(), set()

        def rec(n, lv, lx):
            if isinstance(n, (ast.ListComp, ast.SetComp, ast.GeneratorExp, ast.DictComp)):
                lv2, lx2 = dict(lv), dict(lx)
                for g in n.generators:
                    self._bind_comp(g, lv2, lx2, lv, lx)
                    for c in g.ifs:
                        rec(c, lv2, lx2)
                    rec_iter_plain(g.iter, lv2, lx2)
                if isinstance(n, ast.DictComp):
                    rec(n.key, lv2, lx2)
                    rec(n.value, lv2, lx2)
                else:
                    rec(n.elt, lv2, lx2)
                return
            if isinstance(n, ast.Name) and isinstance(n.ctx, ast.Load):
                if n.id in lv or n.id in lx:
                    vset.update(lv.get(n.id, ()))
                    xset.update(lx.get(n.id, ()))
                else:
                    vset.update(self.valid.get(n.id, ()))
                    xset.update(self.value.get(n.id, ()))
                return
            for c in ast.iter_child_nodes(n):
                rec(c, lv, lx)

        def rec_iter_plain(it, lv, lx):
            # iterating a plain (non pair-shaped) variable: nothing extra (handled in _bind_comp)
            return
        rec(e, lv, lx)
        return vset, xset

    def _bind_comp(self, g, lv, lx, outer_lv, outer_lx):
        """Bind comprehension targets."""
        it, tgt = g.iter, g.target
        if isinstance(it, ast.Name) and it.id in self.tuplevar:
            k = self.tuplevar[it.id]
            if isinstance(tgt, ast.Tuple) and len(tgt.elts) == 2:
                a, b = tgt.elts
                if isinstance(a, ast.Name):
                    lv[a.id] = {k}
                    lx[a.id] = set()
                if isinstance(b, ast.Name):
                    lx[b.id] = {k}
                    lv[b.id] = set()
                return
        if self.shape(it) == "PAIRS" and isinstance(tgt, ast.Tuple) and len(tgt.elts) == 2:
            # one origin per comprehension clause, however often the fixpoint revisits it
            memo = self.__dict__.setdefault("_comp_origin", {})
            k = memo.get(id(g))
            if k is None:
                k = memo[id(g)] = self.new_origin(f"comprehension over {ast.unparse(it)[:40]}")
            a, b = tgt.elts
            if isinstance(a, ast.Name):
                lv[a.id] = {k}
                lx[a.id] = set()
            if isinstance(b, ast.Name):
                lx[b.id] = {k}
                lv[b.id] = set()
            return
        if isinstance(it, ast.Call) and dotted(it.func) == "zip" and isinstance(tgt, ast.Tuple) \
                and len(tgt.elts) == len(it.args):
            for t, a in zip(tgt.elts, it.args):
                v, x = self.origins(a, outer_lv, outer_lx)
                for nm in _targets(t):
                    lv[nm], lx[nm] = set(v), set(x)
            return
        v, x = self.origins(it, outer_lv, outer_lx)
        for nm in _targets(tgt):
            lv[nm], lx[nm] = set(v), set(x)

    # ---- statement-level solving (flow-insensitive fixpoint)
    def _solve(self):
        loops = [n for n in ast.walk(self.fn) if isinstance(n, ast.For)]
        assigns = [n for n in ast.walk(self.fn) if isinstance(n, (ast.Assign, ast.AugAssign, ast.AnnAssign))]
        # shapes first
        for _ in range(4):
            for a in assigns:
                if isinstance(a, ast.Assign) and len(a.targets) == 1 and isinstance(a.targets[0], ast.Name):
                    s = self.shape(a.value)
                    if s:
                        self.shapes[a.targets[0].id] = s
        # origins created by for loops over pair shapes
        self.loop_origin = {}
        for lp in loops:
            s = self.shape(lp.iter)
            t = lp.target
            if s == "PAIRS" and isinstance(t, ast.Tuple) and len(t.elts) == 2 and all(isinstance(e, ast.Name) for e in t.elts):
                k = self.new_origin(f"for over {ast.unparse(lp.iter)[:50]}")
                self.valid.setdefault(t.elts[0].id, set()).add(k)
                self.value.setdefault(t.elts[1].id, set()).add(k)
                self.loop_origin[lp] = [k]
            elif s == "TUPLES" and isinstance(t, ast.Name):
                k = self.new_origin(f"tuples from {ast.unparse(lp.iter)[:50]}")
                self.tuplevar[t.id] = k
                self.loop_origin[lp] = [k]
            elif s == "TUPLES" and isinstance(t, ast.Tuple) and all(isinstance(e, ast.Tuple) and len(e.elts) == 2 for e in t.elts):
                ks = []
                for i, e in enumerate(t.elts):
                    k = self.new_origin(f"component {i} of {ast.unparse(lp.iter)[:40]}")
                    ks.append(k)
                    if isinstance(e.elts[0], ast.Name):
                        self.valid.setdefault(e.elts[0].id, set()).add(k)
                    if isinstance(e.elts[1], ast.Name):
                        self.value.setdefault(e.elts[1].id, set()).add(k)
                self.loop_origin[lp] = ks
            elif s in ("PAIRS", "TUPLES"):
                raise AnalysisError(f"{P_TD}:{lp.lineno}: loop over generated pairs with an unsupported target shape")
        changed = True
        rounds = 0
        while changed:
            rounds += 1
            if rounds > 50:
                raise AnalysisError(f"{P_TD}: taint fixpoint does not converge in {self.fn.name}")
            changed = False

            def add(name, v, x):
                nonlocal changed
                a = self.valid.setdefault(name, set())
                b = self.value.setdefault(name, set())
                if not v <= a or not x <= b:
                    a |= v
                    b |= x
                    changed = True
            for lp in loops:
                if lp in self.loop_origin:
                    continue
                v, x = self.origins(lp.iter)
                for nm in _targets(lp.target):
                    add(nm, v, x)
            for a in assigns:
                val = a.value
                if val is None:
                    continue
                v, x = self.origins(val)
                tgts = a.targets if isinstance(a, ast.Assign) else [a.target]
                for t in tgts:
                    for nm in _targets(t):
                        add(nm, v, x)
            for n in ast.walk(self.fn):
                if isinstance(n, ast.Call) and isinstance(n.func, ast.Attribute) and \
                        n.func.attr in ("update", "append", "extend", "add", "insert", "setdefault") and \
                        isinstance(n.func.value, ast.Name):
                    v, x = set(), set()
                    for arg in n.args:
                        v2, x2 = self.origins(arg)
                        v |= v2
                        x |= x2
                    add(n.func.value.id, v, x)


def oracle_int(v, lo, hi):
    return isinstance(v, int) and not isinstance(v, bool) and lo <= v <= hi


def valid_id(v):
    return isinstance(v, str) or oracle_int(v, -(2 ** 31), 2 ** 31 - 1)


def run(ctx: Ctx):
    m = Module(P_TD, ctx.src.text(P_TD))
    pairgens = {fn.name for fn in m.all_functions()
                if any(isinstance(n, (ast.Yield, ast.YieldFrom)) for n in microeval._walk_own(fn))}
    ctx.floor("pair-generator functions", len(pairgens), 14)

    # ---------------------------------------------------------------- (a) taint
    n_yields = 0
    for fname in sorted(pairgens):
        fn = m.functions[fname]
        ctx.fn(f"testdata_generator.py:{fname}")
        t = Taint(m, fn, pairgens)
        for n in microeval._walk_own(fn):
            if isinstance(n, ast.Yield):
                n_yields += 1
                val = n.value
                if not (isinstance(val, ast.Tuple) and len(val.elts) == 2):
                    ctx.fail("yield-shape", f"{fname}:yield@{ast.unparse(val)[:30] if val else 'None'}",
                             "a generator function yields something that is not a (flag, value) pair", P_TD, n.lineno)
                    continue
                V, X = val.elts
                vv, _ = t.origins(V)
                _, xx = t.origins(X)
                if isinstance(V, ast.Constant) and V.value is True and xx and _relabel_guarded(m, fn, n):
                    # the one deliberate relabelling (payloads of LSPAny / LSPObject / LSPArray are valid whatever they
                    # contain), written as an explicit loop under the membership guard
                    ctx.ok("relabel-exception-guarded", {"function": fname})
                    continue
                # a value variable used in the flag position / a flag used as value
                _, v_as_x = t.origins(V)
                missing = sorted(xx - vv)
                desc = [t.origin_desc[k] for k in missing]
                ctx.check(not missing, "flag-covers-value", f"{fname}:yield ({ast.unparse(V)[:40]}, {ast.unparse(X)[:40]})",
                          f"the yielded value depends on generated parts whose validity is not part of the flag: {desc}",
                          P_TD, n.lineno,
                          sample={"function": fname, "flag": ast.unparse(V)[:60], "value": ast.unparse(X)[:60],
                                  "value_origins": sorted(t.origin_desc[k] for k in xx),
                                  "flag_origins": sorted(t.origin_desc[k] for k in vv)})
                if isinstance(V, ast.Constant) and V.value is True and xx:
                    ctx.fail("flag-covers-value", f"{fname}:yield constant-True", "constant True flag on a generated value", P_TD, n.lineno)
            elif isinstance(n, ast.YieldFrom):
                n_yields += 1
                src = n.value

                def operand(src, anchor, depth=0):
                    """One stream handed to `yield from`: decided by the rules below; a name stands for each of the
                    streams it is bound to in this function (each decided where it is bound)."""
                    if isinstance(src, ast.Name) and depth < 3:
                        defs = [st for st in ast.walk(fn) if isinstance(st, ast.Assign)
                                and any(isinstance(t_, ast.Name) and t_.id == src.id for t_ in st.targets)]
                        others = [st for st in ast.walk(fn) if isinstance(st, (ast.AugAssign, ast.For))
                                  and any(isinstance(t_, ast.Name) and t_.id == src.id for t_ in ast.walk(st.target))]
                        if len(defs) > 1 and not others and not _pair_stream(m, fn, src, pairgens, 0):
                            return all(operand(st.value, st, depth + 1) for st in defs)
                    if isinstance(src, ast.Call) and (dotted(src.func) or "").split(".")[-1] in pairgens:
                        ctx.ok("flag-covers-value", {"function": fname, "delegates_to": dotted(src.func)})
                        return True
                    if _pair_stream(m, fn, src, pairgens, 0):
                        ctx.ok("flag-covers-value", {"function": fname, "delegates_to": "chain of pair generators"})
                        return True
                    if isinstance(src, ast.Call) and _table_of_pairgens(m, fn, src.func, pairgens):
                        ctx.ok("flag-covers-value", {"function": fname, "delegates_to": "table:" + ast.unparse(src.func)[:40]})
                        return True
                    if isinstance(src, ast.GeneratorExp) and isinstance(src.elt, ast.Tuple) and len(src.elt.elts) == 2:
                        V, X = src.elt.elts
                        lv, lx = {}, {}
                        for g in src.generators:
                            t._bind_comp(g, lv, lx, {}, {})
                        vv, _ = t.origins(V, lv, lx)
                        _, xx = t.origins(X, lv, lx)
                        missing = xx - vv
                        if missing and isinstance(V, ast.Constant) and V.value is True:
                            # named exception: LSPAny / LSPObject / LSPArray payloads are valid whatever they contain;
                            # it must be guarded by exactly that membership test
                            guard_ok = False
                            p = m.parents.get(anchor)
                            while p is not None and p is not fn:
                                if isinstance(p, ast.If) and isinstance(p.test, ast.Compare) and isinstance(p.test.ops[0], ast.In):
                                    coll = p.test.comparators[0]
                                    if isinstance(coll, ast.Name):
                                        # a hoisted module-level constant collection
                                        cname_ = coll.id
                                        for st_ in m.tree.body:
                                            if isinstance(st_, (ast.Assign, ast.AnnAssign)) and getattr(st_, "value", None) is not None:
                                                tg_ = st_.targets if isinstance(st_, ast.Assign) else [st_.target]
                                                if any(isinstance(t_, ast.Name) and t_.id == cname_ for t_ in tg_):
                                                    coll = st_.value
                                        if isinstance(coll, ast.Call) and dotted(coll.func) in ("frozenset", "tuple", "set", "list") \
                                                and len(coll.args) == 1:
                                            coll = coll.args[0]
                                    if isinstance(coll, (ast.List, ast.Tuple, ast.Set)):
                                        names = {e.value for e in coll.elts if isinstance(e, ast.Constant)}
                                        guard_ok = names <= set(RELABEL_EXCEPTION[1])
                                p = m.parents.get(p)
                            ctx.check(guard_ok, "relabel-exception-guarded", f"{fname}:relabel",
                                      "values are relabelled True outside the LSPAny/LSPObject/LSPArray exception", P_TD, anchor.lineno)
                            return True
                        ctx.check(not missing, "flag-covers-value", f"{fname}:yield from ({ast.unparse(V)[:30]}, {ast.unparse(X)[:30]})",
                                  "a generator expression relabels generated values", P_TD, anchor.lineno)
                        return True
                    # a stream that carries nothing a pair generator produced (a constant table of labelled samples): its
                    # labels are the table's own (decided by the base-table rule (b) on the folded output)
                    try:
                        vv0, xx0 = t.origins(src, {}, {})
                    except Exception:
                        vv0, xx0 = {1}, {1}
                    if not vv0 and not xx0 and not any(isinstance(c_, ast.Call) and (dotted(c_.func) or "").split(".")[-1] in pairgens
                                                       for c_ in ast.walk(src)):
                        ctx.ok("flag-covers-value", {"function": fname, "delegates_to": "constant samples"})
                        return True
                    return False
                if operand(src, n):
                    continue
                raise AnalysisError(f"{P_TD}:{n.lineno}: unsupported `yield from` operand in {fname}")
    ctx.floor("yield sites", n_yields, 20)      # obligations (each is checked), not witnesses: table-driven code has fewer

    # ---------------------------------------------------------------- (b) base tables
    it = microeval.Interp(m.tree, name=P_TD)
    schema = ctx.src.json(P_SCHEMA)
    base_types = schema["definitions"]["BaseTypes"]["enum"]

    def fold(fname, *args):
        f = it.globals.get(fname)
        if not isinstance(f, microeval.Closure):
            raise AnalysisError(f"{P_TD}: {fname} not found")
        try:
            r = f(*args)
        except microeval.Raised as e:
            raise AnalysisError(f"{P_TD}: {fname}{args} raises {e.exc_name} when folded")
        if not isinstance(r, list):
            raise AnalysisError(f"{P_TD}: {fname} is not a generator")
        return r
    lo32, hi32 = -(2 ** 31), 2 ** 31 - 1
    for b in base_types:
        pairs = fold("generate_for_base", b)
        ctx.check(any(f is True for f, _ in pairs), "base-has-valid-vector", f"base={b}",
                  f"generate_for_base({b!r}) yields no valid vector: every structure with such a property has only "
                  "invalid (or no) vectors", P_TD)
        for f, v in pairs:
            if b in ("string", "URI", "DocumentUri", "RegExp"):
                want = isinstance(v, str)
            elif b == "integer":
                want = oracle_int(v, lo32, hi32)
            elif b == "uinteger":
                want = oracle_int(v, 0, hi32)
            elif b == "decimal":
                want = isinstance(v, (int, float)) and not isinstance(v, bool)
            elif b == "boolean":
                want = isinstance(v, bool)
            elif b == "null":
                want = v is None
            else:
                raise AnalysisError(f"unknown base type {b}")
            ctx.check(f is want, "base-table-label", f"base={b} value={v!r}",
                      f"generate_for_base({b!r}) labels {v!r} as {f}; the metamodel says {want}", P_TD,
                      sample={"base": b, "value": repr(v), "label": f})
    for f, msg in fold("request_variants", "some/method"):
        want = msg.get("jsonrpc") == "2.0" and msg.get("method") == "some/method" and "id" in msg and valid_id(msg["id"])
        ctx.check(f is want, "envelope-table-label", f"request:{sorted(msg.items(), key=str)!r}"[:120],
                  f"request envelope {msg!r} is labelled {f}; expected {want}", P_TD,
                  sample={"envelope": "request", "message": repr(msg), "label": f})
    for f, msg in fold("response_variants"):
        want = msg.get("jsonrpc") == "2.0" and "id" in msg and valid_id(msg["id"])
        ctx.check(f is want, "envelope-table-label", f"response:{sorted(msg.items(), key=str)!r}"[:120],
                  f"response envelope {msg!r} is labelled {f}; expected {want}", P_TD)
    for f, msg in fold("notify_variants", "some/method"):
        want = msg.get("jsonrpc") == "2.0" and msg.get("method") == "some/method" and "id" not in msg
        ctx.check(f is want, "envelope-table-label", f"notification:{sorted(msg.items(), key=str)!r}"[:120],
                  f"notification envelope {msg!r} is labelled {f}; expected {want}", P_TD)
    for nm, ar in (("request_variants", ("m",)), ("response_variants", ()), ("notify_variants", ("m",))):
        ctx.check(any(f is True for f, _ in fold(nm, *ar)), "base-has-valid-vector", f"envelope={nm}",
                  f"{nm} yields no valid envelope", P_TD)
    # constants
    for cname, want in (("LSP_MAX_INT", hi32), ("LSP_MIN_INT", lo32), ("LSP_MAX_UINT", hi32), ("LSP_MIN_UINT", 0)):
        ctx.check(it.globals.get(cname) == want, "range-constants", cname,
                  f"{cname} folds to {it.globals.get(cname)!r}, expected {want}", P_TD)

    # ---------------------------------------------------------------- (c) file names
    gen = m.functions.get("generate")
    if gen is None:
        raise AnalysisError(f"{P_TD}: generate not found")
    ctx.fn("testdata_generator.py:generate")
    want_name = {"generate_requests": "request_name", "generate_responses": "response_name",
                 "generate_notifications": "notification_name"}
    sites = 0
    for lp in ast.walk(gen):
        if not (isinstance(lp, ast.For) and isinstance(lp.iter, ast.Call) and dotted(lp.iter.func) in want_name):
            continue
        sites += 1
        g = dotted(lp.iter.func)
        t = lp.target
        if not (isinstance(t, ast.Tuple) and len(t.elts) == 2 and all(isinstance(e, ast.Name) for e in t.elts)):
            raise AnalysisError(f"{P_TD}:{lp.lineno}: unexpected loop target over {g}")
        vflag, vval = t.elts[0].id, t.elts[1].id
        msg_arg = dotted(lp.iter.args[0]) if lp.iter.args else None
        content = name = None
        stored = None
        for st in lp.body:
            if isinstance(st, ast.Assign) and isinstance(st.targets[0], ast.Name):
                if isinstance(st.value, ast.Call) and dotted(st.value.func) == "json.dumps":
                    content = (st.targets[0].id, st.value)
                if isinstance(st.value, ast.JoinedStr):
                    name = (st.targets[0].id, st.value)
            if isinstance(st, ast.Assign) and isinstance(st.targets[0], ast.Subscript):
                stored = (dotted(st.targets[0].slice), dotted(st.value))
        if content is None or name is None or stored is None:
            raise AnalysisError(f"{P_TD}:{lp.lineno}: content / name / store statements not found in the loop over {g}")
        ctx.check(bool(content[1].args) and dotted(content[1].args[0]) == vval, "filename-template", f"{g}:content",
                  f"the dumped content is not the value component `{vval}` of the generated pair", P_TD, content[1].lineno)
        fvs = [v for v in name[1].values if isinstance(v, ast.FormattedValue)]
        consts = [v.value for v in name[1].values if isinstance(v, ast.Constant)]
        ok_shape = len(fvs) == 3 and consts == ["-", "-", ".json"]
        ctx.check(ok_shape, "filename-template", f"{g}:shape",
                  "file name is not <Class>-<valid>-<hash>.json", P_TD, name[1].lineno)
        if ok_shape:
            ctx.check(dotted(fvs[0].value) == want_name[g], "filename-template", f"{g}:class",
                      f"class part is `{ast.unparse(fvs[0].value)}`, expected {want_name[g]}", P_TD, name[1].lineno)
            ctx.check(dotted(fvs[1].value) == vflag, "filename-template", f"{g}:label",
                      f"label part is `{ast.unparse(fvs[1].value)}`, not the validity component `{vflag}` of the pair "
                      f"whose value is written", P_TD, name[1].lineno, sample={"site": g, "label": ast.unparse(fvs[1].value)})
            h = fvs[2].value
            ok_h = isinstance(h, ast.Call) and dotted(h.func) == "get_hash_from" and len(h.args) == 1 and dotted(h.args[0]) == content[0]
            ctx.check(ok_h, "filename-template", f"{g}:hash", "hash part is not get_hash_from(<content>)", P_TD, name[1].lineno)
        ctx.check(stored == (name[0], content[0]), "filename-template", f"{g}:store",
                  f"testdata[{stored[0]}] = {stored[1]} does not store the content under the computed name", P_TD, lp.lineno)
    ctx.floor("file-name sites", sites, 3)
    # the class-name variables derive from get_name(<message of the enclosing loop>)
    for outer in ast.walk(gen):
        if isinstance(outer, ast.For) and dotted(outer.iter) in ("spec.requests", "spec.notifications"):
            lv = _targets(outer.target)[0]
            first = None
            for st in outer.body:
                if isinstance(st, ast.Assign) and isinstance(st.value, ast.Call) and dotted(st.value.func) == "get_name":
                    first = (dotted(st.targets[0]), dotted(st.value.args[0]) if st.value.args else None)
            ctx.check(first is not None and first[1] == lv, "filename-template", f"generate:{dotted(outer.iter)}:name-source",
                      f"the class name is not get_name({lv})", P_TD, outer.lineno)
            for inner in ast.walk(outer):
                if isinstance(inner, ast.For) and isinstance(inner.iter, ast.Call) and dotted(inner.iter.func) in want_name:
                    ctx.check(inner.iter.args and dotted(inner.iter.args[0]) == lv, "filename-template",
                              f"generate:{dotted(inner.iter.func)}:message",
                              f"vectors are generated for `{ast.unparse(inner.iter.args[0]) if inner.iter.args else None}`, "
                              f"not for the message `{lv}` whose name labels the file", P_TD, inner.lineno)


def _fold_generate(ctx: Ctx):
    """Semantic form of the file-name clause: generate() is executed in the micro-evaluator on a synthetic model
    (two requests whose responses have identical content, one notification) with the three vector generators
    stubbed to fixed (flag, value) pairs.  The resulting mapping must contain, for every message class and every
    pair, the key `<Class>-<flag>-<sha256(content)>.json` with content json.dumps(value, indent=4,
    ensure_ascii=False) -- in particular vectors of different classes with equal content must all survive."""
    import hashlib
    import json as _json
    from ..microeval import Interp, Record, Raised, ModuleRef, Closure
    m = Module(P_TD, ctx.src.text(P_TD))
    it = Interp(m.tree, name=P_TD)
    gen = it.globals.get("generate")
    if not isinstance(gen, Closure):
        raise AnalysisError(f"{P_TD}: generate not found")
    pairs_req = [(True, {"jsonrpc": "2.0", "id": 1, "method": "M"}), (False, {"jsonrpc": "2.0", "method": "M"})]
    pairs_resp = [(True, {"jsonrpc": "2.0", "id": 1, "result": None}), (False, {"jsonrpc": "2.0"})]
    pairs_not = [(True, {"jsonrpc": "2.0", "method": "N"}), (False, {"jsonrpc": "2.0", "id": 1, "method": "N"})]
    it.globals["generate_requests"] = ("host", lambda req, spec: [(f, dict(v, method=req.fields["method"])) for f, v in pairs_req])
    it.globals["generate_responses"] = ("host", lambda req, spec: list(pairs_resp))
    it.globals["generate_notifications"] = ("host", lambda n, spec: [(f, dict(v, method=n.fields["method"])) for f, v in pairs_not])
    it.globals["get_hash_from"] = ("host", lambda text: hashlib.sha256(text.encode("utf-8")).hexdigest())
    it.globals["RESPONSE_ERROR"] = Record("Structure", {"name": "ResponseError"})
    it.globals.setdefault("json", microeval.json_module())

    def msg(method, type_name):
        return Record("Message", {"method": method, "typeName": type_name, "params": None, "result": None})
    spec = Record("LSPModel", {"structures": [], "requests": [msg("a/one", "OneRequest"), msg("a/two", None)],
                               "notifications": [msg("$/note", "NoteNotification")]})
    logger = Record("Logger", {"info": ("host", lambda *a, **k: None), "debug": ("host", lambda *a, **k: None)})
    try:
        out = gen(spec, logger)
    except Raised as e:
        raise AnalysisError(f"{P_TD}: generate raises {e.exc_name} when folded on the synthetic model")
    if not isinstance(out, dict):
        raise AnalysisError(f"{P_TD}: generate does not fold to a mapping")
    expect = {}
    for cls, pairs in (("OneRequest", [(f, dict(v, method="a/one")) for f, v in pairs_req]), ("OneResponse", pairs_resp),
                       ("ATwoRequest", [(f, dict(v, method="a/two")) for f, v in pairs_req]), ("ATwoResponse", pairs_resp),
                       ("NoteNotification", [(f, dict(v, method="$/note")) for f, v in pairs_not])):
        for f, v in pairs:
            content = _json.dumps(v, indent=4, ensure_ascii=False)
            expect[f"{cls}-{f}-{hashlib.sha256(content.encode('utf-8')).hexdigest()}.json"] = (cls, f, content)
    for name, (cls, f, content) in sorted(expect.items()):
        ctx.check(out.get(name) == content, "vector-file-per-class-and-label", f"class={cls} label={f}",
                  f"on the synthetic model generate() does not produce the vector file {name[:40]}... for {cls} "
                  f"(label {f}) with the dumped content ({'missing' if name not in out else 'different content'}); "
                  f"produced keys for that class: {[k[:30] for k in out if k.startswith(cls + '-')]}", P_TD, None,
                  sample={"class": cls, "label": f, "file": name[:48] + "..."})
    extra = sorted(set(out) - set(expect))
    ctx.check(not extra, "vector-file-per-class-and-label", "no-extra-files",
              f"generate() produces unexpected files {[e[:40] for e in extra[:3]]}", P_TD, None)


def _testdata_flatten(ctx: Ctx):
    from .. import flatten
    from ..genlint import Index
    idx = Index(ctx.src, dirs=("generator/plugins/testdata",))
    spec, structs = flatten.lattice()
    for sname in ("A", "B", "C"):
        exp = flatten.expected(structs, sname)
        got = flatten.fold_plain(idx, flatten.P_TD, spec, structs, sname)
        for k in sorted(set(exp) | set(got)):
            ctx.check(exp.get(k) == got.get(k), "vectors-use-nearest-declaration", f"struct={sname} prop={k}",
                      f"testdata get_all_properties gives {sname}.{k} the declaration of {got.get(k)!r}; the nearest one is "
                      f"{exp.get(k)!r}: vectors are generated (and labelled) against the wrong property type", flatten.P_TD, None)


def _const_names(m, coll):
    """string constants of a collection display or of a hoisted module-level constant collection"""
    if isinstance(coll, ast.Name):
        cname_ = coll.id
        for st_ in m.tree.body:
            if isinstance(st_, (ast.Assign, ast.AnnAssign)) and getattr(st_, "value", None) is not None:
                tg_ = st_.targets if isinstance(st_, ast.Assign) else [st_.target]
                if any(isinstance(t_, ast.Name) and t_.id == cname_ for t_ in tg_):
                    coll = st_.value
        if isinstance(coll, ast.Call) and dotted(coll.func) in ("frozenset", "tuple", "set", "list") and len(coll.args) == 1:
            coll = coll.args[0]
    if isinstance(coll, (ast.List, ast.Tuple, ast.Set)):
        return {e.value for e in coll.elts if isinstance(e, ast.Constant)}
    return None


def _relabel_guarded(m, fn, node) -> bool:
    """Is the statement reached only for the names of the relabel exception?  Either inside `if N in <names>` or after an
    early exit `if N not in <names>: ...; return` at the top level of the function."""
    allowed = set(RELABEL_EXCEPTION[1])
    p = m.parents.get(node)
    top_stmt = node
    while p is not None and p is not fn:
        if isinstance(p, ast.If) and isinstance(p.test, ast.Compare) and len(p.test.ops) == 1 and isinstance(p.test.ops[0], ast.In):
            names = _const_names(m, p.test.comparators[0])
            # the node must be in the body (not the else branch)
            if names is not None and names <= allowed and any(node is d or any(node is x for x in ast.walk(d)) for d in p.body):
                return True
        top_stmt = p
        p = m.parents.get(p)
    for st in fn.body:
        if st is top_stmt:
            break
        if isinstance(st, ast.If) and not st.orelse and isinstance(st.test, ast.Compare) and len(st.test.ops) == 1 \
                and isinstance(st.test.ops[0], ast.NotIn) and st.body and isinstance(st.body[-1], ast.Return):
            names = _const_names(m, st.test.comparators[0])
            if names is not None and names <= allowed:
                return True
    return False


def _pair_stream(m, fn, e, pairgens, level, depth=0) -> bool:
    """Is `e` a stream of (flag, value) pairs exactly as pair generators of this module produced them (level 0), or a
    collection of such streams (level 1)?  Only re-packaging is accepted: list()/iter()/tuple() copies, itertools.chain,
    comprehensions whose element is itself such a stream, names bound to those."""
    if depth > 6:
        return False
    if isinstance(e, ast.Call):
        d = dotted(e.func) or ""
        if level == 0 and d.split(".")[-1] in pairgens:
            return True
        if d in ("list", "tuple", "iter") and len(e.args) == 1 and not e.keywords:
            return _pair_stream(m, fn, e.args[0], pairgens, level, depth + 1)
        if level == 0 and d in ("itertools.chain", "chain") and e.args and not e.keywords:
            return all(_pair_stream(m, fn, a.value, pairgens, 1, depth + 1) if isinstance(a, ast.Starred)
                       else _pair_stream(m, fn, a, pairgens, 0, depth + 1) for a in e.args)
        if level == 0 and d in ("itertools.chain.from_iterable", "chain.from_iterable") and len(e.args) == 1:
            return _pair_stream(m, fn, e.args[0], pairgens, 1, depth + 1)
        return False
    if level == 1 and isinstance(e, (ast.ListComp, ast.GeneratorExp)) and all(not g.ifs for g in e.generators):
        return _pair_stream(m, fn, e.elt, pairgens, 0, depth + 1)
    if level == 1 and isinstance(e, (ast.List, ast.Tuple)) and e.elts:
        return all(_pair_stream(m, fn, x, pairgens, 0, depth + 1) for x in e.elts)
    if isinstance(e, ast.Name):
        defs = [st.value for st in ast.walk(fn) if isinstance(st, ast.Assign)
                and any(isinstance(t, ast.Name) and t.id == e.id for t in st.targets)]
        others = [st for st in ast.walk(fn) if isinstance(st, (ast.AugAssign, ast.For, ast.comprehension))
                  and any(isinstance(t, ast.Name) and t.id == e.id for t in ast.walk(st.target))]
        mutated = [c for c in ast.walk(fn) if isinstance(c, ast.Call) and isinstance(c.func, ast.Attribute)
                   and isinstance(c.func.value, ast.Name) and c.func.value.id == e.id
                   and c.func.attr in ("append", "extend", "insert", "sort", "reverse", "pop", "remove")]
        return bool(defs) and not others and not mutated and all(_pair_stream(m, fn, v, pairgens, level, depth + 1) for v in defs)
    return False


def _table_of_pairgens(m, fn, callee, pairgens) -> bool:
    """`yield from H(...)` where H was looked up in a dispatch table all of whose values are pair generators of this
    module (each of which is analysed by the same rule)."""
    look = callee
    if isinstance(callee, ast.Name):
        defs = [st.value for st in ast.walk(fn) if isinstance(st, ast.Assign)
                and any(isinstance(t, ast.Name) and t.id == callee.id for t in st.targets)]
        if len(defs) != 1:
            return False
        look = defs[0]
    table = None
    if isinstance(look, ast.Subscript):
        table = look.value
    elif isinstance(look, ast.Call) and isinstance(look.func, ast.Attribute) and look.func.attr == "get" and len(look.args) == 1:
        table = look.func.value
    if not isinstance(table, ast.Name):
        return False
    vals = [st.value for st in m.tree.body if isinstance(st, (ast.Assign, ast.AnnAssign)) and getattr(st, "value", None) is not None
            and any(isinstance(t, ast.Name) and t.id == table.id
                    for t in (st.targets if isinstance(st, ast.Assign) else [st.target]))]
    if len(vals) != 1 or not isinstance(vals[0], ast.Dict) or not vals[0].values:
        return False
    return all(isinstance(v, ast.Name) and v.id in pairgens for v in vals[0].values)


def _fold_enum_labels(ctx: Ctx):
    """Vectors for an enumeration reference, folded (E5) on synthetic enumerations: a declared value is labelled True; a
    value the enumeration does not declare is labelled True exactly when supportsCustomValues is true (an explicit false
    and an absent flag both mean closed)."""
    from ..microeval import Interp, Record, Raised
    try:
        tree = ast.parse(ctx.src.text(P_TD))
    except SyntaxError as e:
        raise AnalysisError(f"{P_TD}: {e}")
    it = Interp(tree, name=P_TD)
    f = it.globals.get("generate_for_reference")
    if f is None:
        raise AnalysisError(f"{P_TD}: generate_for_reference not found")
    ctx.fn("testdata_generator.py:generate_for_reference (enumeration branch)")
    n = 0
    for base, vals in (("integer", [1, 2]), ("string", ["a", "b"])):
        for flag in (None, False, True):
            en = Record("Enum", {"name": "SomeKind", "supportsCustomValues": flag, "documentation": None, "proposed": None,
                                 "type": Record("Type", {"kind": "base", "name": base}),
                                 "values": [Record("EnumItem", {"name": f"M{i}", "value": v, "documentation": None, "proposed": None})
                                            for i, v in enumerate(vals)]})
            spec = Record("LSPModel", {"structures": [], "typeAliases": [], "enumerations": [en], "requests": [], "notifications": []})
            try:
                out = list(f("SomeKind", spec, []))
            except Raised as e:
                raise AnalysisError(f"{P_TD}: generate_for_reference raises {e.exc_name} for a synthetic enumeration")
            n += 1
            for pair in out:
                if not (isinstance(pair, tuple) and len(pair) == 2):
                    continue
                label, value = pair
                declared = any(value == v and type(value) is type(v) for v in vals)
                want = True if declared else (flag is True)
                ctx.check(label is want or label == want, "enum-vector-label", f"base={base} supportsCustomValues={flag} value={value!r}",
                          f"for a {base} enumeration with supportsCustomValues={flag} the vector {value!r} "
                          f"({'declared' if declared else 'not declared'}) is labelled {label}; it must be {want}", P_TD, None,
                          sample={"base": base, "supportsCustomValues": flag, "value": repr(value), "label": label})
    ctx.floor("enumeration label cases folded", n, 6)


def _fold_composite_labels(ctx: Ctx):
    """The composite generators (literal / structure / array / tuple / map / or), folded (E5) on small synthetic types
    built from base types: every (label, value) pair they produce is compared with a strict validity oracle for that
    type (declared properties only, required ones present, ranges).  Decides that the way values are *assembled* --
    names zipped with values, omitted optional properties, element lists -- keeps the label true; the base tables
    themselves are decided by rule (b)."""
    from ..microeval import Interp, Record, Raised
    try:
        tree = ast.parse(ctx.src.text(P_TD))
    except SyntaxError as e:
        raise AnalysisError(f"{P_TD}: {e}")

    def base(n):
        return Record("BaseType", {"kind": "base", "name": n})

    def prop(n, t, optional=None):
        return Record("Property", {"name": n, "type": t, "optional": optional, "documentation": None, "since": None,
                                   "proposed": None, "deprecated": None})

    def literal(*props):
        return Record("LiteralType", {"kind": "literal", "name": None,
                                      "value": Record("LiteralValue", {"properties": list(props), "documentation": None,
                                                                       "since": None, "proposed": None, "deprecated": None})})

    def ref(n):
        return Record("ReferenceType", {"kind": "reference", "name": n})
    S = Record("Structure", {"name": "S", "properties": [prop("p", base("string")), prop("q", base("integer"), True),
                                                         prop("r", base("boolean"))],
                             "extends": [], "mixins": [], "documentation": None, "since": None, "proposed": None, "deprecated": None})
    lit1 = literal(prop("a", base("string"), True), prop("b", base("integer")), prop("c", base("boolean")))
    lit2 = literal(prop("a", base("string")), prop("b", base("uinteger"), True))
    cases = [
        ("literal{a?:string,b:integer,c:boolean}", lit1),
        ("literal{a:string,b?:uinteger}", lit2),
        ("reference S{p:string,q?:integer,r:boolean}", ref("S")),
        ("array<literal{a:string,b?:uinteger}>", Record("ArrayType", {"kind": "array", "element": lit2})),
        ("or[literal{a?:string,b:integer,c:boolean}, null]", Record("OrType", {"kind": "or", "items": [lit1, base("null")]})),
        ("tuple[integer,string]", Record("TupleType", {"kind": "tuple", "items": [base("integer"), base("string")]})),
        ("map<string,uinteger>", Record("MapType", {"kind": "map", "key": base("string"), "value": base("uinteger")})),
        ("array<reference S>", Record("ArrayType", {"kind": "array", "element": ref("S")})),
    ]

    def fields(t):
        if t.fields["kind"] == "literal":
            return t.fields["value"].fields["properties"]
        return S.fields["properties"]

    def valid(v, t):
        k = t.fields["kind"]
        if k == "base":
            n = t.fields["name"]
            if n in ("string", "URI", "DocumentUri", "RegExp"):
                return isinstance(v, str)
            if n == "integer":
                return oracle_int(v, -(2 ** 31), 2 ** 31 - 1)
            if n == "uinteger":
                return oracle_int(v, 0, 2 ** 31 - 1)
            if n == "decimal":
                return isinstance(v, (int, float)) and not isinstance(v, bool)
            if n == "boolean":
                return isinstance(v, bool)
            if n == "null":
                return v is None
            return False
        if k == "array":
            return isinstance(v, (list, tuple)) and all(valid(x, t.fields["element"]) for x in v)
        if k == "tuple":
            its = t.fields["items"]
            return isinstance(v, (list, tuple)) and len(v) == len(its) and all(valid(x, y) for x, y in zip(v, its))
        if k == "map":
            return isinstance(v, dict) and all(valid(a, t.fields["key"]) and valid(b, t.fields["value"]) for a, b in v.items())
        if k == "or":
            return any(valid(v, x) for x in t.fields["items"])
        if k in ("literal", "reference"):
            if not isinstance(v, dict):
                return False
            decl = {p_.fields["name"]: p_ for p_ in fields(t)}
            if any(key not in decl for key in v):
                return False
            for n_, p_ in decl.items():
                if n_ not in v:
                    if not p_.fields["optional"]:
                        return False
                    continue
                if not valid(v[n_], p_.fields["type"]):
                    return False
            return True
        return False

    def show(v):
        return repr(v)[:80]
    n = 0
    ctx.fn("testdata_generator.py:generate_for_type (composite kinds, folded)")
    for label, ty in cases:
        it = Interp(tree, name=P_TD)
        f = it.globals.get("generate_for_type")
        if f is None:
            raise AnalysisError(f"{P_TD}: generate_for_type not found")
        spec = Record("LSPModel", {"structures": [S], "typeAliases": [], "enumerations": [], "requests": [], "notifications": []})
        try:
            out = list(it.iterate(f(ty, spec, [])))
        except Raised as e:
            ctx.fail("composite-vector-label", f"type={label}", f"generate_for_type raises {e.exc_name} for {label}", P_TD, None)
            continue
        n += 1
        pairs = [p_ for p_ in out if isinstance(p_, tuple) and len(p_) == 2]
        ctx.check(any(lb is True and valid(v, ty) for lb, v in pairs), "composite-has-valid-vector", f"type={label}",
                  f"no vector labelled True that is a valid {label} is generated", P_TD, None)
        bad = [(lb, v) for lb, v in pairs if bool(lb) != valid(v, ty)]
        ctx.check(not bad, "composite-vector-label", f"type={label}",
                  f"{len(bad)} of {len(pairs)} vectors generated for {label} carry the wrong label, e.g. "
                  f"{show(bad[0][1]) if bad else ''} labelled {bad[0][0] if bad else ''}", P_TD, None,
                  sample={"type": label, "vectors": len(pairs)})
    ctx.floor("composite types folded", n, 8)
    # whole messages: the envelope variants zipped with the params variants.  A declared `params` is part of a valid
    # message also when its value is empty ({} for a structure with optional members only, [] for an array)
    Sopt = Record("Structure", {"name": "Sopt", "properties": [prop("q", base("integer"), True)], "extends": [], "mixins": [],
                                "documentation": None, "since": None, "proposed": None, "deprecated": None})
    msgs = [
        ("notification with params: Sopt{q?:integer}", "generate_notifications", ref("Sopt"), False),
        ("notification with params: array<string>", "generate_notifications",
         Record("ArrayType", {"kind": "array", "element": base("string")}), False),
        ("request with params: Sopt{q?:integer}", "generate_requests", ref("Sopt"), True),
    ]
    from ..flatten import _deepcopy as _dc
    from ..microeval import ModuleRef as _MR
    nm = 0
    for label, gname, pty, is_req in msgs:
        it = Interp(tree, name=P_TD)
        it.globals.setdefault("deepcopy", ("host", _dc))
        it.globals.setdefault("copy", _MR("copy", attrs={"deepcopy": ("host", _dc), "copy": ("host", lambda x: dict(x) if isinstance(x, dict) else list(x))}))
        g = it.globals.get(gname)
        if g is None:
            raise AnalysisError(f"{P_TD}: {gname} not found")
        method = "x/doIt"
        mrec = Record("Request" if is_req else "Notification",
                      {"method": method, "params": pty, "typeName": None, "result": base("null"), "partialResult": None,
                       "errorData": None, "registrationOptions": None, "registrationMethod": None, "messageDirection": "both",
                       "documentation": None, "since": None, "proposed": None, "deprecated": None})
        spec = Record("LSPModel", {"structures": [S, Sopt], "typeAliases": [], "enumerations": [], "requests": [], "notifications": []})

        def fields(t, _S=S, _Sopt=Sopt):       # noqa: F811  (the oracle's structure table for this model)
            if t.fields["kind"] == "literal":
                return t.fields["value"].fields["properties"]
            return (_Sopt if t.fields.get("name") == "Sopt" else _S).fields["properties"]
        try:
            out = list(it.iterate(g(mrec, spec)))
        except Raised as e:
            ctx.fail("message-vector-label", f"message={label}", f"{gname} raises {e.exc_name} for a {label}", P_TD, None)
            continue
        nm += 1
        pairs = [p_ for p_ in out if isinstance(p_, tuple) and len(p_) == 2 and isinstance(p_[1], dict)]

        def msg_valid(mv):
            if mv.get("jsonrpc") != "2.0" or mv.get("method") != method:
                return False
            if set(mv) - {"jsonrpc", "method", "params", "id"}:
                return False
            if is_req != ("id" in mv) or (is_req and not valid_id(mv["id"])):
                return False
            return "params" in mv and valid(mv["params"], pty)
        bad = [(lb, v) for lb, v in pairs if bool(lb) != msg_valid(v)]
        ctx.check(any(lb is True for lb, _v in pairs), "composite-has-valid-vector", f"message={label}",
                  f"no vector labelled True is generated for a {label}", P_TD, None)
        ctx.check(not bad, "message-vector-label", f"message={label}",
                  f"{len(bad)} of {len(pairs)} vectors generated for a {label} carry the wrong label, e.g. "
                  f"{show(bad[0][1]) if bad else ''} labelled {bad[0][0] if bad else ''}", P_TD, None,
                  sample={"message": label, "vectors": len(pairs)})
    ctx.floor("synthetic messages folded", nm, 3)


_run_c17 = run


def run(ctx: Ctx):  # noqa: F811
    # the syntactic file-name template rule is kept when the three sites have the pinned shape; the semantic
    # fold below decides the clause in any case
    try:
        _run_c17(ctx)
    except AnalysisError as e:
        if "file-name sites" not in str(e) and "content / name / store" not in str(e) and "unexpected loop target" not in str(e):
            raise
        ctx.notes.append(f"syntactic file-name rule skipped: {e}")
    _fold_generate(ctx)
    _testdata_flatten(ctx)
    _fold_enum_labels(ctx)
    _fold_composite_labels(ctx)
    # labels are computed against the model being generated from: no lookup cache / memo may carry definitions of an
    # earlier model into the next run
    from ..genlint import cross_run_state, Index as _Index
    idx = _Index(ctx.src, dirs=("generator/plugins/testdata",))
    nstate, hits = cross_run_state(idx, "generator/plugins/testdata/")
    for rel, construct, msg, ln in hits:
        ctx.fail("labels-from-current-model", construct, msg, rel, ln)
    ctx.ok("labels-from-current-model", {"containers_examined": nstate})
