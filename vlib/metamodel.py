"""E2 -- the oracle side: generator/lsp.json read as data, plus an independent statement of the
documented metamodel -> Python mapping (written here, not derived from the generator), and the
JSON shape algebra (kinds, alternatives, subsumption) used by the hook analysis.
"""
from __future__ import annotations

import keyword
import re

from .common import AnalysisError, Sources, P_LSPJSON
from .pymodel import mk_union, NONE, ANY

STRING_BASES = ("string", "DocumentUri", "URI", "RegExp")
INT_BASES = ("integer", "uinteger")
ANNOTATION_KEYS = ("documentation", "since", "sinceTags", "proposed", "deprecated")
# the documented customisation (README / issue 344): CompletionItemKind accepts custom values
CUSTOM_OPEN_ENUMS = ("CompletionItemKind",)


def is_null(t) -> bool:
    return t.get("kind") == "base" and t.get("name") == "null"


def null_admitting(t) -> bool:
    return t.get("kind") == "or" and any(is_null(i) for i in t.get("items", []))


def camel_to_snake(name: str) -> str:
    """Independent statement of the attribute naming rule: lower snake case at every
    lower/digit->Upper boundary and before the last capital of an acronym run that is followed by
    lower case; Python keywords get a trailing underscore."""
    out = []
    n = len(name)
    for i, ch in enumerate(name):
        if ch.isupper() and i > 0:
            prev = name[i - 1]
            nxt = name[i + 1] if i + 1 < n else ""
            if prev.islower() or prev.isdigit():
                out.append("_")
            elif prev.isupper() and nxt.islower():
                out.append("_")
        out.append(ch.lower())
    s = "".join(out)
    return s + "_" if keyword.iskeyword(s) else s


_RE1 = re.compile(r"(.)([A-Z][a-z]+)")
_RE2 = re.compile(r"([a-z0-9])([A-Z])")


def method_to_class_name(method: str) -> str:
    name = method[2:] if method.startswith("$/") else method
    name = name.replace("/", "_")
    name = _RE1.sub(r"\1_\2", name)
    name = _RE2.sub(r"\1_\2", name)
    return "".join(p[:1].upper() + p[1:].lower() for p in name.split("_"))


def method_to_const_name(method: str) -> str:
    name = method
    if name.startswith("$"):
        name = name[1:]
    if name.startswith("/"):
        name = name[1:]
    name = name.replace("/", "_")
    name = _RE1.sub(r"\1_\2", name)
    name = _RE2.sub(r"\1_\2", name)
    return name.upper()


class Prop:
    __slots__ = ("name", "type", "optional", "owner", "raw")

    def __init__(self, raw, owner):
        self.raw = raw
        self.name = raw["name"]
        self.type = raw["type"]
        self.optional = bool(raw.get("optional"))
        self.owner = owner

    @property
    def null_admitting(self):
        return null_admitting(self.type)

    @property
    def literal(self):
        return self.type.get("kind") == "stringLiteral"

    @property
    def py_optional(self):
        return self.optional or self.null_admitting

    @property
    def py_required(self):
        return not self.optional and not self.null_admitting and not self.literal


class MetaModel:
    def __init__(self, src: Sources, rel: str = P_LSPJSON):
        self.rel = rel
        d = src.json(rel)
        for k in ("requests", "notifications", "structures", "enumerations", "typeAliases", "metaData"):
            if k not in d:
                raise AnalysisError(f"{rel}: missing top-level key {k}")
        self.raw = d
        self.structures = {s["name"]: s for s in d["structures"]}
        self.enums = {e["name"]: e for e in d["enumerations"]}
        self.aliases = {a["name"]: a for a in d["typeAliases"]}
        self.requests = list(d["requests"])
        self.notifications = list(d["notifications"])
        if len(self.structures) != len(d["structures"]):
            raise AnalysisError(f"{rel}: duplicate structure names")
        self._flat: dict[str, list[Prop]] = {}

    # ------------------------------------------------------------------ structure flattening
    def parents(self, sname: str) -> list[str]:
        s = self.structures[sname]
        out = []
        for ref in list(s.get("extends") or []) + list(s.get("mixins") or []):
            if ref.get("kind") != "reference":
                raise AnalysisError(f"{self.rel}: structure {sname} extends a non-reference type")
            out.append(ref["name"])
        return out

    def flatten(self, sname: str, _stack=()) -> list[Prop]:
        """own properties, then (depth first) those of extends + mixins; first declaration wins."""
        if sname in self._flat:
            return self._flat[sname]
        if sname in _stack:
            raise AnalysisError(f"{self.rel}: cyclic extends through {sname}")
        if sname not in self.structures:
            raise AnalysisError(f"{self.rel}: reference to unknown structure {sname}")
        props = [Prop(p, sname) for p in self.structures[sname].get("properties", [])]
        seen = {p.name for p in props}
        if len(seen) != len(props):
            raise AnalysisError(f"{self.rel}: structure {sname} declares a property twice")
        for par in self.parents(sname):
            for p in self.flatten(par, _stack + (sname,)):
                if p.name not in seen:
                    seen.add(p.name)
                    props.append(p)
        self._flat[sname] = props
        return props

    def props_of(self, sname: str) -> dict[str, Prop]:
        return {p.name: p for p in self.flatten(sname)}

    # ------------------------------------------------------------------ enums
    def enum_open(self, ename: str) -> bool:
        e = self.enums[ename]
        return bool(e.get("supportsCustomValues")) or ename in CUSTOM_OPEN_ENUMS

    def enum_base(self, ename: str) -> str:
        b = self.enums[ename]["type"]["name"]
        return "str" if b == "string" else "int"

    # ------------------------------------------------------------------ python mapping
    def py_type(self, t, ctx_class: str | None = None) -> tuple:
        """Expected *resolved* tyexpr for a metamodel type under the documented mapping."""
        k = t.get("kind")
        if k == "base":
            n = t["name"]
            if n in INT_BASES:
                return ("prim", "int")
            if n == "decimal":
                return ("prim", "float")
            if n == "boolean":
                return ("prim", "bool")
            if n in STRING_BASES:
                return ("prim", "str")
            if n == "null":
                return NONE
            raise AnalysisError(f"{self.rel}: unknown base type {n}")
        if k == "stringLiteral":
            return ("prim", "str")
        if k == "reference":
            n = t["name"]
            if n in self.enums:
                if self.enum_open(n):
                    return mk_union([("enum", n), ("prim", self.enum_base(n))])
                return ("enum", n)
            if n in self.structures:
                if n == "LSPObject":
                    return ("opaque", "LSPObject")
                return ("cls", n)
            if n in self.aliases:
                return self.py_alias(n)
            raise AnalysisError(f"{self.rel}: reference to unknown type {n}")
        if k == "array":
            return ("seq", self.py_type(t["element"]))
        if k == "map":
            return ("map", self.py_type(t["key"]), self.py_type(t["value"]))
        if k == "tuple":
            return ("tup", tuple(self.py_type(i) for i in t["items"]))
        if k == "or":
            return mk_union([self.py_type(i) for i in t["items"]])
        if k == "literal":
            if not t["value"].get("properties"):
                return ANY
            raise AnalysisError(f"{self.rel}: non-empty anonymous literal type: the Python image of "
                                "generated literal classes is not modelled (the committed metamodel has none)")
        if k == "and":
            if not ctx_class:
                raise AnalysisError(f"{self.rel}: `and` type outside params/registrationOptions")
            return ("cls", ctx_class)
        raise AnalysisError(f"{self.rel}: type kind {k!r} is outside the modelled discipline")

    def py_alias(self, name: str, _stack=()) -> tuple:
        if name == "LSPAny":
            return mk_union([ANY, NONE])
        if name == "LSPObject":
            return ("opaque", "LSPObject")
        if name in _stack:
            raise AnalysisError(f"{self.rel}: cyclic alias {name}")
        return self.py_type(self.aliases[name]["type"])

    def py_validator(self, p: Prop) -> str | None:
        t = p.type
        if t.get("kind") == "stringLiteral":
            return f"in_({t['value']!r})"
        v = None
        if t.get("kind") == "base":
            n = t["name"]
            if n == "integer":
                v = "integer"
            elif n == "uinteger":
                v = "uinteger"
            elif n in STRING_BASES:
                v = "instance_of(str)"
            elif n == "boolean":
                v = "instance_of(bool)"
            elif n == "decimal":
                v = "instance_of(float)"
        if v and p.py_optional:
            return f"optional({v})"
        return v

    # ------------------------------------------------------------------ messages
    def message_class(self, msg, kind: str) -> str:
        name = msg.get("typeName") or method_to_class_name(msg["method"])
        suffix = "Request" if kind == "request" else "Notification"
        if not name.endswith(suffix):
            name += suffix
        return name

    def request_stem(self, req) -> str:
        return self.message_class(req, "request").replace("Request", "")

    def and_types(self):
        """(class name, items) for every `and` type at the documented positions."""
        out = []
        for kind, msgs in (("request", self.requests), ("notification", self.notifications)):
            for m in msgs:
                base = m.get("typeName") or method_to_class_name(m["method"])
                if m.get("params", {}).get("kind") == "and":
                    out.append((f"{base}Params", m["params"]["items"]))
                if m.get("registrationOptions", {}).get("kind") == "and":
                    out.append((f"{base}Options", m["registrationOptions"]["items"]))
        return out

    def and_props(self, items) -> list[Prop]:
        props, seen = [], set()
        for it in items:
            if it.get("kind") != "reference" or it["name"] not in self.structures:
                raise AnalysisError(f"{self.rel}: `and` item is not a structure reference")
            for p in self.flatten(it["name"]):
                if p.name not in seen:
                    seen.add(p.name)
                    props.append(p)
        return props

    def all_methods(self):
        return [(m, "request") for m in self.requests] + [(m, "notification") for m in self.notifications]

    # ------------------------------------------------------------------ JSON shape algebra
    def expand(self, t, _stack=()):
        """Flatten a metamodel type into its list of alternatives (non-`or`, alias references to
        `or`/other types expanded; LSPAny kept as one opaque alternative)."""
        k = t.get("kind")
        if k == "or":
            out = []
            for i in t["items"]:
                out.extend(self.expand(i, _stack))
            return _dedupe(out)
        if k == "reference" and t["name"] in self.aliases:
            n = t["name"]
            if n in ("LSPAny", "LSPObject", "LSPArray"):
                return [t]
            if n in _stack:
                raise AnalysisError(f"{self.rel}: cyclic alias {n}")
            return self.expand(self.aliases[n]["type"], _stack + (n,))
        return [t]

    def kinds(self, t) -> frozenset:
        """JSON kinds {null,bool,num,str,arr,obj} a (non-or) metamodel alternative admits."""
        k = t.get("kind")
        if k == "base":
            n = t["name"]
            if n == "null":
                return frozenset(["null"])
            if n == "boolean":
                return frozenset(["bool"])
            if n in INT_BASES or n == "decimal":
                return frozenset(["num"])
            return frozenset(["str"])
        if k == "stringLiteral":
            return frozenset(["str"])
        if k in ("array", "tuple"):
            return frozenset(["arr"])
        if k in ("map", "literal", "and"):
            if k == "literal" and not t["value"].get("properties"):
                return frozenset(["obj"])
            return frozenset(["obj"])
        if k == "reference":
            n = t["name"]
            if n in self.enums:
                return frozenset(["str" if self.enum_base(n) == "str" else "num"])
            if n == "LSPAny":
                return frozenset(["null", "bool", "num", "str", "arr", "obj"])
            if n == "LSPObject":
                return frozenset(["obj"])
            if n == "LSPArray":
                return frozenset(["arr"])
            if n in self.structures:
                return frozenset(["obj"])
            if n in self.aliases:
                out = frozenset()
                for a in self.expand(t):
                    out |= self.kinds(a)
                return out
        if k == "or":
            out = frozenset()
            for a in self.expand(t):
                out |= self.kinds(a)
            return out
        raise AnalysisError(f"{self.rel}: cannot compute JSON kinds of {t}")

    def obj_props(self, t) -> dict[str, Prop] | None:
        """Declared properties of an object-kind alternative, None when it is an open object
        (map, LSPObject, LSPAny, empty literal)."""
        k = t.get("kind")
        if k == "reference" and t["name"] in self.structures and t["name"] != "LSPObject":
            return self.props_of(t["name"])
        if k == "literal" and t["value"].get("properties"):
            return {p["name"]: Prop(p, "<literal>") for p in t["value"]["properties"]}
        if k == "and":
            return {p.name: p for p in self.and_props(t["items"])}
        return None

    def show(self, t) -> str:
        k = t.get("kind")
        if k == "base":
            return t["name"]
        if k == "reference":
            return t["name"]
        if k == "array":
            return self.show(t["element"]) + "[]"
        if k == "map":
            return "{" + self.show(t["key"]) + ":" + self.show(t["value"]) + "}"
        if k == "tuple":
            return "(" + ",".join(self.show(i) for i in t["items"]) + ")"
        if k == "or":
            return "|".join(self.show(i) for i in t["items"])
        if k == "stringLiteral":
            return repr(t["value"])
        if k == "literal":
            return "{" + ",".join(p["name"] for p in t["value"].get("properties", [])) + "}"
        if k == "and":
            return "&".join(self.show(i) for i in t["items"])
        return str(t)


def _dedupe(ts):
    out, seen = [], set()
    for t in ts:
        key = _key(t)
        if key not in seen:
            seen.add(key)
            out.append(t)
    return out


def _key(t):
    import json

    return json.dumps({k: v for k, v in t.items() if k not in ANNOTATION_KEYS}, sort_keys=True)


type_key = _key
