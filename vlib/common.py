"""Shared plumbing of the static checkers: source access, findings, evidence, exit protocol.

Nothing in here (or in any other module of vlib) imports code from /repo; sources are read as
text / JSON and analysed.
"""
from __future__ import annotations

import hashlib
import json
import os
import sys
import time

VERIF_ROOT = os.path.dirname(os.path.dirname(os.path.abspath(__file__)))

# relative paths of the files the analysers know about
P_TYPES = "packages/python/lsprotocol/types.py"
P_HOOKS = "packages/python/lsprotocol/_hooks.py"
P_CONVERTERS = "packages/python/lsprotocol/converters.py"
P_VALIDATORS = "packages/python/lsprotocol/validators.py"
P_LSPJSON = "generator/lsp.json"
P_SCHEMA = "generator/lsp.schema.json"
P_MODEL = "generator/model.py"
P_MAIN = "generator/__main__.py"
P_PYUTILS = "generator/plugins/python/utils.py"
P_LIBRS = "packages/rust/lsprotocol/src/lib.rs"


class AnalysisError(Exception):
    """The analyser could not understand the tree (never a violation; exit 2)."""


class Sources:
    """Read-only view of the repository working tree, with an optional in-memory overlay
    (used by the self-test to analyse mutated sources without writing under /repo)."""

    def __init__(self, root: str | None = None, overlay: dict[str, str] | None = None):
        self.root = root or os.environ.get("VERIF_REPO", "/repo")
        self.overlay = dict(overlay or {})
        self._cache: dict[str, str] = {}
        self.read_log: list[str] = []

    def with_overlay(self, overlay: dict[str, str]) -> "Sources":
        s = Sources(self.root, {**self.overlay, **overlay})
        return s

    def path(self, rel: str) -> str:
        return os.path.join(self.root, rel)

    def exists(self, rel: str) -> bool:
        return rel in self.overlay or os.path.exists(self.path(rel))

    def text(self, rel: str) -> str:
        if rel in self.overlay:
            if rel not in self.read_log:
                self.read_log.append(rel)
            return self.overlay[rel]
        if rel not in self._cache:
            p = self.path(rel)
            try:
                with open(p, "r", encoding="utf-8") as f:
                    self._cache[rel] = f.read()
            except OSError as e:
                raise AnalysisError(f"anchor file missing: {rel} ({e})")
            self.read_log.append(rel)
        return self._cache[rel]

    def json(self, rel: str):
        try:
            return json.loads(self.text(rel))
        except ValueError as e:
            raise AnalysisError(f"{rel}: not valid JSON ({e})")

    def list_py(self, rel_dir: str) -> list[str]:
        out = []
        base = self.path(rel_dir)
        for dp, dn, fn in os.walk(base):
            dn[:] = sorted(d for d in dn if d != "__pycache__")
            for f in sorted(fn):
                if f.endswith(".py"):
                    out.append(os.path.relpath(os.path.join(dp, f), self.root))
        for k in self.overlay:
            if k.startswith(rel_dir.rstrip("/") + "/") and k.endswith(".py") and k not in out:
                out.append(k)
        return sorted(out)


class Finding:
    """One undischarged obligation.  `key` identifies it by rule + construct (never by line)."""

    def __init__(self, prop: str, rule: str, construct: str, message: str, file: str = "",
                 line: int | None = None, detail: dict | None = None):
        self.prop = prop
        self.rule = rule
        self.construct = construct
        self.message = message
        self.file = file
        self.line = line
        self.detail = detail or {}

    @property
    def key(self) -> str:
        return f"{self.rule} {self.construct}"

    def as_dict(self) -> dict:
        return {
            "property": self.prop,
            "rule": self.rule,
            "construct": self.construct,
            "key": self.key,
            "message": self.message,
            "file": self.file,
            "line": self.line,
            "detail": self.detail,
        }

    def __repr__(self):
        loc = f"{self.file}:{self.line}" if self.line else self.file
        return f"[{self.prop}] {self.rule} :: {self.construct} :: {self.message} ({loc})"


class Ctx:
    """Per-run context handed to a check: sources, tier, counters for the evidence file."""

    def __init__(self, prop: str, tier: str = "quick", seed: int = 0, src: Sources | None = None,
                 quiet: bool = False):
        self.prop = prop
        self.tier = tier
        self.seed = seed
        self.src = src or Sources()
        self.quiet = quiet
        self.findings: list[Finding] = []
        self.rule_counts: dict[str, int] = {}
        self.obligations = 0
        self.discharged = 0
        self.samples: list = []
        self.functions: set[str] = set()
        self.notes: list[str] = []
        self.extra: dict = {}
        self.floors: list[tuple[str, int, int]] = []
        self._sample_cap = 12
        self._distinct: set = set()

    # --- obligations --------------------------------------------------------------------
    def count(self, rule: str, n: int = 1):
        self.rule_counts[rule] = self.rule_counts.get(rule, 0) + n

    def ok(self, rule: str, sample=None, key=None):
        """One obligation of `rule` discharged."""
        self.obligations += 1
        self.discharged += 1
        self.count(rule)
        if key is not None:
            self._distinct.add((rule, key))
        elif sample is not None:
            self._distinct.add((rule, json.dumps(sample, sort_keys=True, default=str)))
        if sample is not None:
            self.sample(rule, sample)

    def fail(self, rule: str, construct: str, message: str, file: str = "", line: int | None = None,
             detail: dict | None = None, prop: str | None = None):
        self.obligations += 1
        self.count(rule)
        f = Finding(prop or self.prop, rule, construct, message, file, line, detail)
        self.findings.append(f)
        self._distinct.add((rule, construct))
        return f

    def check(self, cond: bool, rule: str, construct: str, message: str, file: str = "",
              line: int | None = None, detail: dict | None = None, sample=None):
        if cond:
            self.ok(rule, sample, key=construct)
        else:
            self.fail(rule, construct, message, file, line, detail)
        return cond

    def sample(self, rule: str, s):
        n = sum(1 for x in self.samples if x.get("rule") == rule)
        if n < 2 and len(self.samples) < self._sample_cap * 3:
            self.samples.append({"rule": rule, "case": s})

    def fn(self, name: str):
        self.functions.add(name)

    def floor(self, what: str, got: int, minimum: int):
        """Vacuity guard: a rule that matched fewer instances than confirmed by hand on the
        pinned tree means the analyser no longer sees the construct -> analysis error."""
        self.floors.append((what, got, minimum))
        if got < minimum:
            raise AnalysisError(f"vacuity guard: {what}: matched {got} < floor {minimum}")

    def log(self, msg: str):
        if not self.quiet:
            print(msg)


# ------------------------------------------------------------------------------------------------
# known findings

def load_known_findings() -> dict:
    p = os.path.join(VERIF_ROOT, "known_findings.json")
    if not os.path.exists(p):
        return {"known": [], "fixed": []}
    with open(p, "r", encoding="utf-8") as f:
        return json.load(f)


def known_keys_for(prop: str) -> dict[str, dict]:
    kf = load_known_findings()
    return {e["key"]: e for e in kf.get("known", []) if e.get("property") == prop}


# ------------------------------------------------------------------------------------------------
# evidence + verdict

def write_report(f: Finding) -> str:
    d = os.path.join(VERIF_ROOT, "reports")
    os.makedirs(d, exist_ok=True)
    h = hashlib.sha1(f.key.encode()).hexdigest()[:12]
    p = os.path.join(d, f"{f.prop}-{h}.json")
    with open(p, "w", encoding="utf-8") as fh:
        json.dump(f.as_dict(), fh, indent=1, sort_keys=True, default=str)
    return p


def write_evidence(ctx: Ctx, meta: dict, wall: float, n_viol: int, n_known: int,
                   path: str | None = None):
    level = meta["level"]
    cov = {
        "explanation": meta["explanation"],
        "obligations": ctx.obligations,
        "discharged": ctx.discharged,
        "rule": meta.get("rule", "one obligation per rule instance found in the source; see rule_instances"),
        "rule_instances": dict(sorted(ctx.rule_counts.items())),
        "files_analysed": sorted(set(ctx.src.read_log)),
        "functions_analysed": len(ctx.functions),
        "functions_sample": sorted(ctx.functions)[:25],
        "vacuity_floors": [{"what": w, "matched": g, "floor": m} for w, g, m in ctx.floors],
        "samples": ctx.samples[: ctx._sample_cap] or [{"rule": "none", "case": "no obligation instances"}],
        "trusted_base": meta.get("trusted_base", []),
        "known_findings_reported": n_known,
        "exhaustive": bool(meta.get("exhaustive", True)),
        "checker_cmd": f"./vcheck {ctx.prop} --tier {ctx.tier}",
        "not_decided": meta.get("not_decided", []),
    }
    if level == "translation_validation":
        cov["programs"] = int(ctx.extra.get("programs", 0))
        cov["disagreements_checked"] = int(ctx.extra.get("disagreements_checked", ctx.obligations))
    cov["evaluations"] = max(ctx.obligations, 1)
    # distinct obligation instances = distinct (rule, construct) pairs seen by this run (obligations recorded
    # without a construct key are not counted here, so this is a lower bound on the distinct cases)
    cov["distinct_nontrivial"] = len(ctx._distinct)
    cov["distinct_rule"] = "distinct (rule, construct) pairs among the obligations of this run; an obligation is one rule applied to one construct of the source (attribute, hook x alternative x world, call site, table entry...)"
    for k, v in ctx.extra.items():
        if k not in cov:
            cov[k] = v
    ev = {
        "property_id": ctx.prop,
        "tier": ctx.tier,
        "seed": ctx.seed,
        "level": level,
        "coverage": cov,
        "assumptions": meta.get("assumptions", []),
        "wall_s": round(wall, 3),
        "violations": n_viol,
    }
    p = path or os.path.join(VERIF_ROOT, "evidence", f"{ctx.prop}.json")
    os.makedirs(os.path.dirname(p), exist_ok=True)
    tmp = p + ".tmp"
    with open(tmp, "w", encoding="utf-8") as fh:
        json.dump(ev, fh, indent=1, default=str)
        fh.write("\n")
    os.replace(tmp, p)
    return p


def run_check(prop: str, module, tier: str, seed: int, src: Sources | None = None) -> int:
    """Run one property check with the exit protocol: 0 ok / 1 violation / 2 analysis error."""
    t0 = time.time()
    ctx = Ctx(prop, tier, seed, src)
    meta = module.META
    incomplete = None
    try:
        module.run(ctx)
    except AnalysisError as e:
        # Obligations already refuted stay refuted: a violation found before the analysis got stuck is reported
        # (exit 1).  Without any, the run is an analysis error (exit 2), never a verdict.
        known0 = known_keys_for(prop)
        if not any(f.key not in known0 for f in ctx.findings):
            print(f"ANALYSIS-ERROR property={prop} {e}")
            return 2
        incomplete = str(e)
        print(f"  note: analysis incomplete after the violations below were found: {incomplete}")
    except Exception as e:  # a crash of the analyser is not a violation
        import traceback

        traceback.print_exc(file=sys.stdout)
        print(f"ANALYSIS-ERROR property={prop} internal error: {type(e).__name__}: {e}")
        return 2
    selftest_failed = 0
    if tier == "thorough":
        # firing direction: the in-memory mutant catalogue of this property must still be detected
        from . import mutants
        res = mutants.collect([prop], patches=True)
        counts = {}
        for mid, _p, status, info in res:
            counts[status] = counts.get(status, 0) + 1
            if status != "silent":
                ctx.log(f"  variant {mid:30s} {status:14s} {info[:110]}")
            if status in ("MISSED", "broken", "analysis-error", "FALSE-ALARM"):
                selftest_failed += 1
        ctx.extra["selftest_mutants"] = {"total": len(res), **counts,
                                         "caught_ids": [m for m, _p, st, _i in res if st.startswith("caught")],
                                         "silent_on_neutral_refactors": counts.get("silent", 0),
                                         "skipped_ids": [m for m, _p, st, _i in res if st == "skipped"]}
    known = known_keys_for(prop)
    viol, kn = [], []
    seen = set()
    for f in ctx.findings:
        if f.key in seen:
            continue
        seen.add(f.key)
        (kn if f.key in known else viol).append(f)
    for what, got, minimum in ctx.floors:
        ctx.log(f"  floor  {what}: {got} (>= {minimum})")
    for r, n in sorted(ctx.rule_counts.items()):
        ctx.log(f"  rule   {r}: {n} instance(s)")
    for f in kn:
        print(f"KNOWN-FINDING: property={prop} {f.key} -- {f.message}")
    for f in viol:
        p = write_report(f)
        loc = f"{f.file}:{f.line}" if f.line else f.file
        print(f"  {loc}: {f.rule}: {f.construct}: {f.message}")
        print(f"VIOLATION property={prop} replay={p}")
    stale = [k for k in known if k not in seen]
    for k in stale:
        ctx.log(f"  note: known finding no longer reported (fixed or moved): {k}")
    wall = time.time() - t0
    ctx.discharged = ctx.obligations - len(ctx.findings)
    write_evidence(ctx, meta, wall, len(viol), len(kn))
    print(f"{prop} [{tier}] obligations={ctx.obligations} discharged={ctx.discharged} "
          f"known={len(kn)} violations={len(viol)} wall={wall:.2f}s")
    if viol:
        return 1
    if selftest_failed:
        print(f"ANALYSIS-ERROR property={prop} self-test: {selftest_failed} mutant(s) of the catalogue are no longer "
              "detected (the checker lost detection power; this is not a violation of the property)")
        return 2
    return 0
