"""E6 -- syntax-directed analyses over generator/ (and _hooks.py): module index, parent maps,
for-target liveness, guard tracking, dominance, model-class table.  stdlib ast only."""
from __future__ import annotations

import ast

from .common import AnalysisError, Sources


def dotted(node):
    if isinstance(node, ast.Name):
        return node.id
    if isinstance(node, ast.Attribute):
        b = dotted(node.value)
        return f"{b}.{node.attr}" if b else None
    return None


class Module:
    def __init__(self, rel: str, text: str):
        self.rel = rel
        try:
            self.tree = ast.parse(text)
        except SyntaxError as e:
            raise AnalysisError(f"{rel}: syntax error: {e}")
        self.parents: dict = {}
        for p in ast.walk(self.tree):
            for c in ast.iter_child_nodes(p):
                self.parents[c] = p
        self.functions: dict[str, ast.FunctionDef] = {}
        self.classes: dict[str, ast.ClassDef] = {}
        for st in self.tree.body:
            if isinstance(st, ast.FunctionDef):
                self.functions[st.name] = st
            elif isinstance(st, ast.ClassDef):
                self.classes[st.name] = st
                for m in st.body:
                    if isinstance(m, ast.FunctionDef):
                        self.functions[f"{st.name}.{m.name}"] = m
        self.import_names: dict[str, str] = {}
        for st in ast.walk(self.tree):
            if isinstance(st, ast.Import):
                for a in st.names:
                    self.import_names[a.asname or a.name.split(".")[0]] = a.name
            elif isinstance(st, ast.ImportFrom):
                for a in st.names:
                    self.import_names[a.asname or a.name] = f"{'.' * st.level}{st.module or ''}.{a.name}"

    def enclosing_function(self, node):
        p = self.parents.get(node)
        while p is not None and not isinstance(p, (ast.FunctionDef, ast.AsyncFunctionDef, ast.Lambda)):
            p = self.parents.get(p)
        return p

    def all_functions(self):
        for n in ast.walk(self.tree):
            if isinstance(n, (ast.FunctionDef, ast.AsyncFunctionDef)):
                yield n


class Index:
    def __init__(self, src: Sources, dirs=("generator",), extra=()):
        self.src = src
        self.modules: dict[str, Module] = {}
        for d in dirs:
            for rel in src.list_py(d):
                self.modules[rel] = Module(rel, src.text(rel))
        for rel in extra:
            self.modules[rel] = Module(rel, src.text(rel))

    def get(self, rel) -> Module:
        if rel not in self.modules:
            raise AnalysisError(f"anchor module missing: {rel}")
        return self.modules[rel]


# ------------------------------------------------------------------------------------------------
# for-target liveness

def _targets(t):
    if isinstance(t, ast.Name):
        return [t.id]
    if isinstance(t, (ast.Tuple, ast.List)):
        out = []
        for e in t.elts:
            out += _targets(e)
        return out
    if isinstance(t, ast.Starred):
        return _targets(t.value)
    return []


def _bound_names(stmt):
    """Names (re)bound by a simple statement."""
    out = []
    if isinstance(stmt, ast.Assign):
        for t in stmt.targets:
            out += _targets(t)
    elif isinstance(stmt, (ast.AnnAssign, ast.AugAssign)):
        out += _targets(stmt.target)
    elif isinstance(stmt, (ast.With, ast.AsyncWith)):
        for it in stmt.items:
            if it.optional_vars is not None:
                out += _targets(it.optional_vars)
    elif isinstance(stmt, (ast.FunctionDef, ast.ClassDef)):
        out.append(stmt.name)
    elif isinstance(stmt, (ast.Import, ast.ImportFrom)):
        out += [(a.asname or a.name).split(".")[0] for a in stmt.names]
    return out


def _loads(node, skip_scopes=True):
    """Name loads in an expression / statement, not descending into nested function scopes;
    comprehension targets shadow."""
    out = []

    def rec(n, shadow):
        if isinstance(n, (ast.FunctionDef, ast.AsyncFunctionDef, ast.Lambda, ast.ClassDef)) and skip_scopes:
            return
        if isinstance(n, (ast.ListComp, ast.SetComp, ast.GeneratorExp, ast.DictComp)):
            sh = set(shadow)
            for i, g in enumerate(n.generators):
                rec(g.iter, sh if i else shadow)
                sh |= set(_targets(g.target))
                for c in g.ifs:
                    rec(c, sh)
            if isinstance(n, ast.DictComp):
                rec(n.key, sh)
                rec(n.value, sh)
            else:
                rec(n.elt, sh)
            return
        if isinstance(n, ast.Name) and isinstance(n.ctx, ast.Load) and n.id not in shadow:
            out.append(n)
        for c in ast.iter_child_nodes(n):
            rec(c, shadow)
    rec(node, frozenset())
    return out


def stale_for_target_reads(fn: ast.FunctionDef):
    """Reads of a `for` target after its loop has ended (the value of the last iteration leaks).
    -> list of (name, read node, loop node)."""
    findings = []

    def block(stmts, stale: dict):
        for st in stmts:
            if isinstance(st, ast.For):
                # iterable is evaluated before the loop
                for n in _loads(st.iter):
                    if n.id in stale:
                        findings.append((n.id, n, stale[n.id]))
                inner = dict(stale)
                for t in _targets(st.target):
                    inner.pop(t, None)
                block(st.body, inner)
                block(st.orelse, dict(inner))
                for t in _targets(st.target):
                    stale[t] = st
                continue
            if isinstance(st, (ast.If, ast.While)):
                for n in _loads(st.test):
                    if n.id in stale:
                        findings.append((n.id, n, stale[n.id]))
                a, b = dict(stale), dict(stale)
                block(st.body, a)
                block(st.orelse, b)
                # a name stays stale unless re-bound on both paths
                for k in list(stale):
                    if k not in a and k not in b:
                        del stale[k]
                for k, v in list(a.items()) + list(b.items()):
                    stale.setdefault(k, v)
                continue
            if isinstance(st, ast.Try):
                block(st.body, stale)
                for h in st.handlers:
                    block(h.body, dict(stale))
                block(st.orelse, stale)
                block(st.finalbody, stale)
                continue
            if isinstance(st, (ast.With, ast.AsyncWith)):
                for it in st.items:
                    for n in _loads(it.context_expr):
                        if n.id in stale:
                            findings.append((n.id, n, stale[n.id]))
                for t in _bound_names(st):
                    stale.pop(t, None)
                block(st.body, stale)
                continue
            if isinstance(st, (ast.FunctionDef, ast.AsyncFunctionDef, ast.ClassDef)):
                stale.pop(st.name, None)
                continue
            # simple statement: loads first (RHS evaluated before binding), then bindings
            value_nodes = [st]
            for n in _loads(st):
                if n.id in stale:
                    findings.append((n.id, n, stale[n.id]))
            for t in _bound_names(st):
                stale.pop(t, None)
    block(fn.body, {})
    return findings


# ------------------------------------------------------------------------------------------------
# dominance inside one function body (straight-line + structured statements)

def statement_order(fn: ast.FunctionDef):
    """Flatten a function body into (index, stmt, context) in source order where context is the
    tuple of enclosing compound statements (If/For/Try...)."""
    out = []

    def rec(stmts, ctx):
        for st in stmts:
            out.append((len(out), st, ctx))
            for field in ("body", "orelse", "finalbody"):
                sub = getattr(st, field, None)
                if isinstance(sub, list) and sub and isinstance(sub[0], ast.stmt):
                    rec(sub, ctx + ((st, field),))
            if isinstance(st, ast.Try):
                for h in st.handlers:
                    rec(h.body, ctx + ((st, "handler"),))
    rec(fn.body, ())
    return out


def calls_in(node):
    for n in ast.walk(node):
        if isinstance(n, ast.Call):
            yield n


# ------------------------------------------------------------------------------------------------
# attrs model classes (generator/model.py)

class ModelField:
    def __init__(self, name, node):
        self.name = name
        self.node = node
        self.has_default = False
        self.converter = None
        self.validator = None
        self.annotation = None


def model_classes(mod: Module) -> dict[str, dict]:
    """name -> {'fields': {name: ModelField}, 'methods': {...}, 'node': ClassDef} for attrs classes."""
    out = {}
    for cname, c in mod.classes.items():
        decos = [dotted(d.func) if isinstance(d, ast.Call) else dotted(d) for d in c.decorator_list]
        if not any(d in ("attrs.define", "attr.s", "attrs.frozen") for d in decos):
            continue
        fields, methods = {}, {}
        for st in c.body:
            if isinstance(st, ast.AnnAssign) and isinstance(st.target, ast.Name):
                f = ModelField(st.target.id, st)
                f.annotation = st.annotation
                v = st.value
                if v is None:
                    pass
                elif isinstance(v, ast.Call) and dotted(v.func) in ("attrs.field", "attr.ib"):
                    for kw in v.keywords:
                        if kw.arg in ("default", "factory"):
                            f.has_default = True
                        elif kw.arg == "converter":
                            f.converter = kw.value
                        elif kw.arg == "validator":
                            f.validator = kw.value
                else:
                    f.has_default = True
                fields[f.name] = f
            elif isinstance(st, ast.FunctionDef):
                methods[st.name] = st
        out[cname] = {"fields": fields, "methods": methods, "node": c}
    return out


def in_list_values(validator, interp=None) -> list | None:
    """attrs.validators.in_(<options>) -> the list of constants (<options> is constant-folded when it is not a literal
    display: a hoisted module-level tuple, list(CONST), ...)."""
    if isinstance(validator, ast.Call) and (dotted(validator.func) or "").endswith("validators.in_") and validator.args:
        a = validator.args[0]
        if isinstance(a, (ast.List, ast.Tuple, ast.Set)) and all(isinstance(e, ast.Constant) for e in a.elts):
            return [e.value for e in a.elts]
        if interp is not None:
            try:
                v = interp.eval(a, {})
            except Exception:
                return None
            if isinstance(v, (list, tuple, set, frozenset)) and all(isinstance(x, (str, int)) for x in v):
                return list(v)
    return None


# ------------------------------------------------------------------------------------------------
# state that survives a run

def cross_run_state(idx: "Index", prefix: str = ""):
    """A module-level or class-level container that functions fill (caches, indexes, registries), or a memoised
    function, makes a second in-process run depend on the first one's model.
    -> (number of containers examined, [(rel, construct, message, lineno)])"""
    MUT = ("append", "extend", "add", "update", "setdefault", "insert", "pop", "clear", "remove", "discard", "popitem")
    nstate = 0
    hits = []
    for rel, m in sorted(idx.modules.items()):
        if prefix and not rel.startswith(prefix):
            continue
        shared = {}
        for st in m.tree.body:
            tgt = val = None
            if isinstance(st, ast.Assign) and len(st.targets) == 1:
                tgt, val = st.targets[0], st.value
            elif isinstance(st, ast.AnnAssign):
                tgt, val = st.target, st.value
            if isinstance(tgt, ast.Name) and val is not None and (
                    isinstance(val, (ast.Dict, ast.List, ast.Set, ast.DictComp, ast.ListComp, ast.SetComp)) or
                    (isinstance(val, ast.Call) and dotted(val.func) in ("dict", "list", "set", "collections.defaultdict",
                                                                        "defaultdict", "collections.OrderedDict", "OrderedDict"))):
                shared[tgt.id] = ("module", st.lineno)
        for cname, c in m.classes.items():
            for st in c.body:
                tgt = val = None
                if isinstance(st, ast.Assign) and len(st.targets) == 1:
                    tgt, val = st.targets[0], st.value
                elif isinstance(st, ast.AnnAssign):
                    tgt, val = st.target, st.value
                # (a dataclass refuses a mutable default; attrs does not: `x: Dict = {}` in an attrs class is ONE object
                # shared by every instance)
                decos_ = [(dotted(d_.func) if isinstance(d_, ast.Call) else dotted(d_)) or "" for d_ in c.decorator_list]
                if isinstance(tgt, ast.Name) and val is not None and isinstance(val, (ast.Dict, ast.List, ast.Set)) \
                        and not any(x.split(".")[-1] == "dataclass" for x in decos_):
                    for pre in (cname, "self", "cls"):
                        shared[f"{pre}.{tgt.id}"] = ("class", st.lineno)
        nstate += len(shared)
        def scalar_only(fn_):
            """every parameter is annotated str / int / bool (a pure helper on names: memoising it cannot carry anything
            of an earlier model over, and equal keys are equal values -- no 9 == 9.0 == True collision for str)"""
            a_ = fn_.args
            params = a_.posonlyargs + a_.args + a_.kwonlyargs
            if not params or a_.vararg or a_.kwarg:
                return False
            anns = [dotted(x.annotation) if x.annotation is not None else None for x in params]
            if any(x != "str" for x in anns):
                return False
            # and it reads nothing but its parameters, locals, builtins, imported modules and other module-level functions
            local = {x.arg for x in params} | {n_.id for n_ in ast.walk(fn_) if isinstance(n_, ast.Name) and isinstance(n_.ctx, ast.Store)}
            fnames = {f_.name for f_ in m.all_functions()}
            for n_ in ast.walk(fn_):
                if isinstance(n_, ast.Name) and isinstance(n_.ctx, ast.Load) and n_.id not in local and n_.id not in fnames \
                        and n_.id not in dir(__builtins__) and n_.id not in getattr(m, "imports", {}) and n_.id in shared:
                    return False
            return True
        for fn in m.all_functions():
            for d in fn.decorator_list:
                dn = dotted(d.func) if isinstance(d, ast.Call) else dotted(d)
                if (dn or "").split(".")[-1] in ("lru_cache", "cache", "cached_property") and not scalar_only(fn):
                    hits.append((rel, f"{rel}:{fn.name}:@{dn}",
                                 f"{fn.name} is memoised ({dn}): results computed for an earlier model are reused", fn.lineno))
            if not shared:
                continue
            rebinds = {n_.id for n_ in ast.walk(fn) if isinstance(n_, ast.Name) and isinstance(n_.ctx, ast.Store)}
            globs = set()
            for n_ in ast.walk(fn):
                if isinstance(n_, ast.Global):
                    globs |= set(n_.names)
            for n_ in ast.walk(fn):
                name = how = None
                if isinstance(n_, ast.Call) and isinstance(n_.func, ast.Attribute) and n_.func.attr in MUT:
                    name, how = dotted(n_.func.value), f".{n_.func.attr}()"
                elif isinstance(n_, (ast.Assign, ast.AugAssign, ast.Delete)):
                    tgts = n_.targets if isinstance(n_, (ast.Assign, ast.Delete)) else [n_.target]
                    for t_ in tgts:
                        if isinstance(t_, ast.Subscript):
                            name, how = dotted(t_.value), "[...] = / del"
                        elif isinstance(t_, ast.Name) and t_.id in globs and t_.id in shared:
                            name, how = t_.id, "global rebinding"
                if name in shared and not (name in rebinds and name not in globs and "." not in name):
                    kind, ln = shared[name]
                    hits.append((rel, f"{rel}:{fn.name}:{name}",
                                 f"{fn.name} mutates the {kind}-level container `{name}` ({how}): what an earlier run (another "
                                 f"model, in the same process) left there changes this run's output", n_.lineno))
    return nstate, hits
