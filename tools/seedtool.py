#!/usr/bin/env python3
"""Development helper for seeded changes (not a registered check).

  verify <worktree> <changedir>   confirm in the scratch worktree: demo passes clean, patch applies,
                                  test suite passes with it, demo fails with it; then revert
  try <patch.diff>                apply the patch to /repo, run every check (quick), print which
                                  properties report a VIOLATION / analysis error, then undo it
"""
import json, os, subprocess, sys

PY = "/venv/bin/python"


def sh(cmd, cwd=None, timeout=900):
    r = subprocess.run(cmd, cwd=cwd, shell=isinstance(cmd, str), capture_output=True, text=True, timeout=timeout)
    return r.returncode, r.stdout + r.stderr


def verify(wt, cd):
    out = {}
    rc, o = sh(["git", "-C", wt, "status", "--porcelain", "--untracked-files=no"])
    if o.strip():
        sh(["git", "-C", wt, "checkout", "--", "."])
    patch = os.path.join(cd, "patch.diff")
    demo = os.path.join(cd, "demo.py")
    rc, o = sh([PY, demo], cwd=wt)
    out["demo_clean_rc"] = rc
    rc, o = sh(["git", "-C", wt, "apply", "--check", patch])
    out["applies"] = rc == 0
    if rc != 0:
        out["apply_err"] = o[-300:]
        return out
    sh(["git", "-C", wt, "apply", patch])
    try:
        rc, o = sh([PY, "-m", "pytest", "-q", "-p", "no:cacheprovider", "-x"], cwd=wt)
        out["tests_rc"] = rc
        out["tests_tail"] = o.strip().splitlines()[-1] if o.strip() else ""
        rc, o = sh([PY, demo], cwd=wt)
        out["demo_patched_rc"] = rc
        out["demo_patched_tail"] = o.strip().splitlines()[-3:]
        rc, o = sh(["git", "-C", wt, "diff", "--stat"])
        out["files"] = [l.split("|")[0].strip() for l in o.splitlines() if "|" in l]
    finally:
        sh(["git", "-C", wt, "checkout", "--", "."])
    out["ok"] = out["demo_clean_rc"] == 0 and out["tests_rc"] == 0 and out["demo_patched_rc"] != 0
    return out


def try_patch(patch):
    rc, o = sh(["git", "-C", "/repo", "status", "--porcelain", "--untracked-files=no"])
    if o.strip():
        print("REFUSING: /repo has uncommitted changes:", o)
        return 2
    rc, o = sh(["git", "-C", "/repo", "apply", patch])
    if rc != 0:
        print("patch does not apply to /repo:", o[-300:])
        return 2
    res = {}
    try:
        for i in range(1, 21):
            pid = f"C{i:02d}"
            if pid == "C05":
                continue
            rc, o = sh(["./vcheck", pid], cwd="/verif")
            if rc != 0:
                lines = [l for l in o.splitlines() if ("VIOLATION" not in l and l.startswith("  ") and ": " in l and not l.startswith("  rule") and not l.startswith("  floor")) or "ANALYSIS-ERROR" in l]
                res[pid] = {"rc": rc, "first": [l.strip()[:260] for l in lines[:3]], "n": o.count("VIOLATION property=")}
    finally:
        sh(["git", "-C", "/repo", "checkout", "--", "."])
        # evidence files were rewritten by the runs on the patched tree: restore them
        sh("git checkout -- evidence", cwd="/verif")
    print(json.dumps(res, indent=1))
    return 0


if __name__ == "__main__":
    if sys.argv[1] == "verify":
        print(json.dumps(verify(sys.argv[2], sys.argv[3]), indent=1))
    elif sys.argv[1] == "try":
        sys.exit(try_patch(sys.argv[2]))


def matrix():
    """Re-run every kept seeded change under /verif/seeded against the current checks and refresh the
    `detection` block of its meta.json."""
    import glob
    base = "/verif/seeded"
    only_round = int(sys.argv[2]) if len(sys.argv) > 2 else None
    for d in sorted(glob.glob(base + "/*/")):
        patch = d + "patch.diff"
        meta_p = d + "meta.json"
        if not os.path.exists(patch):
            continue
        if only_round is not None and json.load(open(meta_p)).get("round") != only_round:
            continue
        r = subprocess.run([sys.executable, __file__, "try", patch], capture_output=True, text=True)
        try:
            res = json.loads(r.stdout)
        except ValueError:
            print(d, "could not be tried:", r.stdout[-200:])
            continue
        meta = json.load(open(meta_p))
        viol = sorted(p for p, x in res.items() if x.get("rc") == 1)
        err = sorted(p for p, x in res.items() if x.get("rc") == 2)
        meta.setdefault("detection", {}).update({"violation_reported_by": viol, "analysis_error_in": err,
                                  "first_report": {p: (x["first"][0] if x.get("first") else "") for p, x in res.items() if x.get("rc") == 1},
                                  "caught_by_own_property_check": meta["property"] in viol})
        json.dump(meta, open(meta_p, "w"), indent=1)
        print(os.path.basename(d.rstrip("/")), "VIOL", viol, "ERR", err, flush=True)


if __name__ == "__main__" and len(sys.argv) > 1 and sys.argv[1] == "matrix":
    matrix()


def neutral():
    """Behaviour-preserving refactors under /verif/neutral/<area>-<k>/patch.diff: every check must stay silent
    (exit 0) with each of them applied.  Prints the ones where a check reports a VIOLATION (a false alarm to
    correct) or an analysis error (an idiom the analysis does not read yet)."""
    import glob
    bad = 0
    prefix = sys.argv[2] if len(sys.argv) > 2 else ""
    for d in sorted(glob.glob("/verif/neutral/" + prefix + "*/")):
        patch = d + "patch.diff"
        r = subprocess.run([sys.executable, __file__, "try", patch], capture_output=True, text=True)
        try:
            res = json.loads(r.stdout)
        except ValueError:
            print(d, "could not be tried:", r.stdout[-200:])
            bad += 1
            continue
        viol = sorted(p for p, x in res.items() if x.get("rc") == 1)
        err = sorted(p for p, x in res.items() if x.get("rc") == 2)
        bad += bool(viol or err)
        print(os.path.basename(d.rstrip("/")), "VIOL", viol, "ERR", err, flush=True)
        shown = set()
        for p in viol + err:
            msg = (res[p]["first"][:1] or [""])[0]
            msg = msg.split(": ", 1)[-1][:200] if "ANALYSIS-ERROR" in msg else msg[:200]
            if msg not in shown:
                shown.add(msg)
                print("    ", p, msg)
    print("neutral refactors with a report:", bad)
    return 1 if bad else 0


if __name__ == "__main__" and len(sys.argv) > 1 and sys.argv[1] == "neutral":
    sys.exit(neutral())
