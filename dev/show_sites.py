import sys, os, collections
sys.path.insert(0, os.path.dirname(os.path.dirname(os.path.abspath(__file__))))
from vlib.common import Sources
from vlib.sites import SiteAnalysis
sa = SiteAnalysis(Sources()).run()
print("sites", len(sa.sites), "hook evals", sa.hook_evals, "worlds", sa.worlds, "outcomes", len(sa.outcomes))
print(collections.Counter(s.handler_kind.split(':')[0] for s in sa.sites.values()))
for s, cat, msg in sa.site_issues:
    print("SITE", cat, s.label(), "::", msg)
for o in sa.outcomes:
    for cat, msg in o.issues:
        print("OUT", cat, "|", o.handler, "|", o.site.label()[:90], "| alt", __import__('vlib.pymodel').pymodel.show(o.alt), o.world, "|", o.leaf, "::", msg)
