"""Table behind MANIFEST.json (edit here, then run tools/gen_manifest.py)."""

TB = "trusted base: cattrs 24.1 / attrs 24.2 / typing behaviour restated as axioms A1-A6 (DESIGN.md E3); lsp.json is the reference"

CHECKS = {
    "C01": ("other", "DESIGN.md 3/C01",
            "type-directed local obligations: hook decision-tree abstract interpretation (lossless/sound/supported) + folded rename/omit helpers",
            "Round-trip safety is reduced to local obligations visible in the source (per class: wire-name bijection and null/omit rule for all 1660 attributes; per union site x alternative x world: the chosen class accepts the value and declares every key present). All are enumerated and decided statically; decides the structural part for every value of every type, not value-level numeric identity.",
            TB),
    "C02": ("other", "DESIGN.md 3/C02",
            "constant folding of _to_camel_case/_to_snake_case over all names + dataflow-shape check of the unstructure factory",
            "For every attribute the folded rename equals the metamodel property name (injective per class); generator-side inverse agrees on all names and keywords; factory wiring and never-omitted table checked. Decides the key/omission part of constructor-path serialisation for all classes.",
            TB),
    "C03": ("other", "DESIGN.md 3/C03",
            "static return-type check of every hook leaf against the union it serves + folded forward-reference resolver",
            "Every leaf of every union handler returns an instance of a member of its union (no raw dict / list of dicts outside LSPAny positions); every forward reference resolves through ALL_TYPES_MAP and the resolver visits every attrs class. Non-union positions rest on cattrs axiom A3.",
            TB),
    "C09": ("translation_validation", "DESIGN.md 3/C09",
            "exhaustive static comparison of METHOD_TO_TYPES/_MESSAGE_DIRECTION/constants/ALL_TYPES_MAP with lsp.json; message_direction folded",
            "All 95 methods x {message class, response class, params, registration options, direction, constant, envelope shape} and all registry names compared with the metamodel; decides the whole property for the committed metamodel.",
            TB),
    "C10": ("other", "DESIGN.md 3/C10",
            "set comparison of _SPECIAL_PROPERTIES with the metamodel rule + constant folding of _omit/is_special_property for every attribute",
            "The omit decision is computed statically for each of the 1660 attributes from the package's own helpers and compared with the metamodel rule; defaults and factory wiring checked. With axiom A4 this is the null-vs-omitted behaviour for every attribute.",
            TB),
    "C11": ("other", "DESIGN.md 3/C11",
            "per-property static obligations (no default / range validator / bare closed enum / literal validator) + effect check for swallowing try",
            "Each eligible property has the field-level construct that makes cattrs/attrs raise for the single-field deviation; decided per property for all of them.",
            TB),
    "C12": ("other", "DESIGN.md 3/C12",
            "abstract interpretation of the validators on the comparison partition of their constants (side condition checked syntactically)",
            "Accept set of each validator decided for ALL ints and for non-int classes; exits and messages checked; attachment to exactly the integer-typed attributes checked exhaustively.",
            TB),
    "C13": ("translation_validation", "DESIGN.md 3/C13",
            "enum value multiset comparison + hook decision-tree evaluation at every enum use site",
            "Values compared exhaustively; openness/closedness decided at every use site from the annotation form and the handler's leaf for the enum's JSON kind.",
            TB),
    "C15": ("other", "DESIGN.md 3/C15",
            "configuration lint (no forbid_extra_keys) + probe-hygiene over all hook decision trees + no whole-mapping operations",
            "Decides the three structural conditions under which an undeclared key could influence structuring; with axiom A3 this gives independence from fresh keys.",
            TB),
    "C20": ("other", "DESIGN.md 3/C20",
            "abstract interpretation of the dunder methods over all weak orderings of the four field values (4^4 representatives), total_ordering derivation",
            "Decides all pairs of positions (side condition: fields only compared), all component-equality cases of Range/Location, foreign operands, repr templates; both the committed classes and the generator's injected method sources.",
            TB),
    "C04": ("translation_validation", "DESIGN.md 3/C04",
            "static two-way image check types.py <-> lsp.json over a normalised type IR (ast)",
            "Exhaustive static comparison of every definition and attribute of types.py with lsp.json under an independently stated mapping; decides the whole property for the committed metamodel.",
            TB),
    "C14": ("other", "DESIGN.md 3/C14",
            "dispatch-model resolution + abstract interpretation of hook decision trees per alternative x world",
            "Every reachable union dispatch site has a handler under the cattrs dispatch model, and every handler is supported and sound for every alternative and key-shape world; decided from source for all values of each alternative.",
            TB),
}

NOT_BUILT = "check not built yet in this round (static design exists in DESIGN.md); will be claimed when the checker lands"
NA = {
    "C05": "needs executing the generator plugins plus `ruff format` (not installed, cannot be fetched); no sound static stand-in: image checks (C04/C07) are not necessary conditions of 'committed == generated'",
}
for i in range(1, 21):
    pid = f"C{i:02d}"
    if pid not in CHECKS and pid not in NA:
        NA[pid] = NOT_BUILT

FIX_COMMITS = []
