#!/usr/bin/env python3
"""Parallel, in-memory version of `seedtool.py matrix` / `neutral` (development helper, not a registered check).

  tools/pmatrix.py seeds [round]     every seeded change x every property check: which report a VIOLATION / an analysis
                                      error; refreshes the `detection` block of each meta.json
  tools/pmatrix.py neutral [prefix]  every neutral refactor x every property check: all must stay silent

The patch is applied to the sources in memory (vlib.mutants.patch_overlay), /repo is not touched, 16 jobs."""
import glob, json, os, sys
sys.path.insert(0, "/verif")
from vlib import mutants  # noqa: E402

PROPS = [f"C{i:02d}" for i in range(1, 21) if i != 5]


def run(kind, dirs):
    todo = []
    for d in dirs:
        vid = os.path.basename(d.rstrip("/"))
        for p in PROPS:
            todo.append(("patch", vid, p, kind, d + "patch.diff"))
    mutants._TODO = todo
    import multiprocessing as mp
    with mp.get_context("fork").Pool(16) as pool:
        res = pool.map(mutants._run_index, range(len(todo)), chunksize=4)
    by = {}
    for vid, prop, status, info in res:
        by.setdefault(vid, {})[prop] = (status, info)
    return by


def main():
    mode = sys.argv[1]
    if mode == "seeds":
        only = int(sys.argv[2]) if len(sys.argv) > 2 else None
        dirs = []
        for d in sorted(glob.glob("/verif/seeded/*/")):
            if not os.path.exists(d + "patch.diff"):
                continue
            if only is not None and json.load(open(d + "meta.json")).get("round") != only:
                continue
            dirs.append(d)
        by = run("seeded", dirs)
        missed = 0
        for d in dirs:
            vid = os.path.basename(d.rstrip("/"))
            r = by[vid]
            viol = sorted(p for p, (s, _i) in r.items() if s == "caught")
            err = sorted(p for p, (s, _i) in r.items() if s == "analysis-error")
            skipped = sorted(p for p, (s, _i) in r.items() if s == "skipped")
            meta = json.load(open(d + "meta.json"))
            meta.setdefault("detection", {}).update({
                "violation_reported_by": viol, "analysis_error_in": err,
                "first_report": {p: r[p][1] for p in viol},
                "caught_by_own_property_check": meta["property"] in viol})
            json.dump(meta, open(d + "meta.json", "w"), indent=1)
            flag = "" if meta["property"] in viol else ("  OTHER-ONLY" if viol else ("  EXIT2-ONLY" if err else "  NOT-REPORTED"))
            if skipped:
                flag += f"  SKIPPED({r[skipped[0]][1][:60]})"
            missed += not viol
            print(vid, "VIOL", viol, "ERR", err, flag, flush=True)
        print(f"seeded changes: {len(dirs)}; without a VIOLATION report: {missed}")
    else:
        prefix = sys.argv[2] if len(sys.argv) > 2 else ""
        dirs = sorted(glob.glob("/verif/neutral/" + prefix + "*/"))
        by = run("neutral", dirs)
        bad = 0
        for d in dirs:
            vid = os.path.basename(d.rstrip("/"))
            r = by[vid]
            fa = sorted(p for p, (s, _i) in r.items() if s == "FALSE-ALARM")
            err = sorted(p for p, (s, _i) in r.items() if s == "analysis-error")
            sk = sorted(p for p, (s, _i) in r.items() if s == "skipped")
            if fa or err or sk:
                bad += 1
                print(vid, "VIOL", fa, "ERR", err, "SKIPPED" if sk else "")
                for p in (fa + err + sk)[:3]:
                    print("     ", p, r[p][1][:200])
        print(f"neutral refactors: {len(dirs)}; with a report: {bad}")
        return 1 if bad else 0


if __name__ == "__main__":
    sys.exit(main() or 0)
