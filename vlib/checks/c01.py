"""C01 -- parsing then re-serialising any spec-valid LSP JSON value loses nothing."""
from ..common import Ctx, P_HOOKS, P_TYPES
from ..pymodel import show
from .. import special
from . import _sitebase, _imgbase

META = {
    "level": "other",
    "explanation": (
        "Type-directed static argument. Round-trip safety R(T) is defined by structural rules over the finite, "
        "cyclic graph of type expressions of types.py (greatest fixpoint): primitives/enums/literals (cattrs "
        "T(v) / E(v) and .value, axioms A1/A4), Sequence/Dict/Tuple elementwise, attrs class = per-field R plus "
        "the class-level obligations, union site = its handler is supported, sound AND lossless for every "
        "alternative x world, Any positions = pass-through. R can only fail through a local obligation, and every "
        "local obligation is enumerated and decided from source: (1) per class: the set of wire names "
        "(_to_camel_case folded over the attributes) equals the flattened metamodel property set, injectively "
        "(nothing can disappear or be renamed); (2) null rule: an attribute is never-omitted iff its property is "
        "null-admitting / literal / envelope field, and the folded _omit agrees for all 1660 attributes (an "
        "explicit null survives, an unset optional stays absent); both factories are wired to those helpers; "
        "(3) per union site x alternative x world (hooktree analysis): no key present in the value is dropped by "
        "the class the handler chooses (lossless), the class accepts the value (sound), the handler does not raise "
        "(supported); sites without handler are reported."
        " Also: spec-valid boundary values of integer / uinteger are accepted (C12's accept-set findings are taken over), "
        "and class-level hooks inherited through the MRO / registered in get_converter are part of the dispatch model."),
    "trusted_base": ["A1-A4 (cattrs dispatch, generated structure/unstructure functions, union unstructuring by runtime class)"],
    "assumptions": ["attribute annotations/defaults are the metamodel's image (C04)", "input is metamodel-valid"],
    "not_decided": ["numeric identity of decimals (1 -> 1.0)", "module-level alias objects that still hold ForwardRefs "
                    "(14 aliases) used directly as structure() targets"],
}


def run(ctx: Ctx):
    sa = _sitebase.analysis(ctx)
    _sitebase.floors(ctx, sa)
    _sitebase.report(ctx, sa,
                     {"unsupported": "dispatch-supported", "unsound": "dispatch-sound", "lossy": "dispatch-lossless"},
                     {"unsupported": "site-has-handler"})
    im = _imgbase.image(ctx)
    t = im.types
    ctx.floor("attribute/property pairs", len(im.pairs), 1000)
    # (1) field-set bijection
    bad_classes = set()
    for cname, w in im.missing_props:
        bad_classes.add(cname)
        ctx.fail("field-set-bijection", f"{cname}.{w}",
                 f"property '{w}' has no attribute in {cname}: it disappears on a round trip", P_TYPES)
    for cname, a in im.extra_attrs:
        bad_classes.add(cname)
        ctx.fail("field-set-bijection", f"{cname}.{a}",
                 f"attribute {a} of {cname} is written as '{im.camel(a)}', which the metamodel does not declare", P_TYPES)
    for cname, w, names in im.dup_wire:
        bad_classes.add(cname)
        ctx.fail("field-set-bijection", f"{cname}.{w}", f"attributes {names} collide on wire name '{w}'", P_TYPES)
    for cname, kind in im.class_kind.items():
        if cname not in bad_classes:
            ctx.ok("field-set-bijection", {"class": cname, "attributes": len(t.classes[cname].fields)})
    # (2) null rule
    exp = special.expected_special(im)
    omit = special.folded_omit(im)
    n = 0
    for c in t.attrs_classes():
        for f in c.fields:
            n += 1
            q = f"{c.name}.{f.name}"
            got = omit(c.name, f.name)
            if q in exp:
                ctx.check(got is False, "null-survives", q,
                          f"{q} ({exp[q]}) is omitted when unset: an explicit null / literal in the input is lost",
                          P_HOOKS, f.lineno)
            elif not f.has_default:
                # a required attribute is never unset: cattrs' omit_if_default has nothing to compare it with
                ctx.ok("unset-stays-absent", {"attr": q, "required": True})
            else:
                ctx.check(got is True, "unset-stays-absent", q,
                          f"{q} is written even when unset although its property is a plain optional one: "
                          "re-serialisation adds a null the input did not have", P_HOOKS, f.lineno)
    ctx.floor("attributes", n, 1500)
    probs = special.factory_wiring(im)
    for construct, msg, ln in probs:
        ctx.fail("factory-wiring", construct, msg, P_HOOKS, ln)
    if not probs:
        ctx.ok("factory-wiring")
    # open enumerations: a custom value only survives if the position also admits the base type (then the
    # registered hook passes it through); an open enumeration used bare rejects it
    mm = im.mm
    from ..pymodel import walk_ty
    for c in t.attrs_classes():
        for f in c.fields:
            for sub in walk_ty(f.resolved):
                if sub[0] == "union":
                    continue
            def bare(ty, in_union=False):
                k = ty[0]
                if k == "enum" and ty[1] in mm.enums and mm.enum_open(ty[1]) and not in_union:
                    yield ty[1]
                elif k == "union":
                    for m_ in ty[1]:
                        if m_[0] == "enum" and m_[1] in mm.enums and mm.enum_open(m_[1]) and \
                                ("prim", mm.enum_base(m_[1])) not in ty[1]:
                            yield m_[1]
                        elif m_[0] != "enum":
                            yield from bare(m_, True)
                elif k in ("seq", "list"):
                    yield from bare(ty[1])
                elif k == "map":
                    yield from bare(ty[2])
                elif k == "tup":
                    for x in ty[1]:
                        yield from bare(x)
            for en in bare(f.resolved):
                ctx.fail("custom-enum-value-survives", f"{c.name}.{f.name}:{en}",
                         f"{en} supports custom values, but {c.name}.{f.name} is annotated {show(f.resolved)}: a custom value "
                         "cannot be structured, let alone round-tripped", P_TYPES, f.lineno)
    ctx.ok("custom-enum-value-survives")
    ctx.extra["sites"] = len(sa.sites)
    ctx.extra["worlds"] = sa.worlds


_run_before_ranges = run


def run(ctx: Ctx):  # noqa: F811
    _run_before_ranges(ctx)
    # a spec-valid integer / uinteger at the edge of its range must be accepted when parsing, else the value cannot make the round trip at all (the accept set of the validators is decided in C12; a wrongly rejected in-range value is a violation of this property too)
    from ..common import Ctx as _Ctx, AnalysisError as _AE
    from . import c12 as _c12
    sub = _Ctx(ctx.prop, ctx.tier, ctx.seed, ctx.src, quiet=True)
    try:
        _c12._run_validators(sub)
    except _AE:
        pass
    hits = [f for f in sub.findings if f.rule == "accept-in-range" and "integer" in f.construct]
    for f in hits:
        ctx.fail("spec-range-accepted", f.construct, f.message, f.file, f.line)
    if not hits:
        ctx.ok("spec-range-accepted")
