"""E5 -- whitelisted AST interpreter used for constant folding / abstract interpretation of the
small pure helpers of the package (name conversion, special-property lookup, validators, the dunder
methods of Position/Range/Location).

It never calls exec/eval/compile on repository code: every node kind is interpreted here, anything
outside the whitelist raises AnalysisError (-> exit 2, never a verdict).  `usage_shape` checks are the
side conditions that justify deciding an infinite input domain from finitely many representatives.
"""
from __future__ import annotations

import ast
import itertools as _it_mod
import keyword as _keyword
import re as _re

from .common import AnalysisError


class Raised(Exception):
    """The interpreted code raised."""

    def __init__(self, exc_name: str, args: tuple):
        super().__init__(exc_name, args)
        self.exc_name = exc_name
        self.exc_args = args


class Record:
    """Abstract object with named attributes (an attrs instance, an attrs.Attribute ...)."""

    def __init__(self, cls_name: str, fields: dict, classes: "dict | None" = None, slotted: bool = False):
        self.cls_name = cls_name
        self.fields = dict(fields)
        self.classes = classes
        # slotted=True mimics @attrs.define classes: assigning an undeclared attribute raises AttributeError
        self.frozen_attrs = set(fields) if slotted else None

    def __repr__(self):
        return f"<Record {self.cls_name} {self.fields}>"


class ClassRef:
    def __init__(self, name, kind="class", bases=(), call=None, iter=None, attrs=None):
        self.name = name
        self.kind = kind
        self.bases = tuple(bases)
        self.call = call      # optional python callable standing for the constructor
        self.iter = iter      # optional python callable producing the members (enum classes)
        self.attrs = attrs or {}   # class attributes (enum members)


_CLASS_REFS: dict = {}


def class_ref(name):
    """the one class object standing for a class known by name only (so that `type(x) is model.X` holds)"""
    r = _CLASS_REFS.get(name)
    if r is None:
        r = _CLASS_REFS[name] = ClassRef(name)
    return r


class ModuleRef:
    def __init__(self, name, interp=None, attrs=None):
        self.name = name
        self.interp = interp
        self.attrs = attrs if attrs is not None else {}


class Closure:
    def __init__(self, node, env, interp):
        self.node = node
        self.env = env
        self.interp = interp

    def __call__(self, *args, **kwargs):
        dv = self.__dict__.get("dvals")
        if dv is None:
            # the defaults of this function object: evaluated once, in the defining environment, and shared by all its calls
            dv = {}
            a = self.node.args
            for dx in list(a.defaults) + [k for k in a.kw_defaults if k is not None]:
                if isinstance(dx, ast.Constant):
                    continue
                try:
                    dv[id(dx)] = self.interp.eval(dx, self.env if self.env is not None else self.interp.globals)
                except (AnalysisError, Raised):
                    pass
            self.dvals = dv
        return self.interp.call(self.node, list(args), kwargs, closure_env=self.env, default_values=dv)


class EagerGen(list):
    """Result of calling a generator function: the body has been run eagerly, the yielded values are kept here.  It
    behaves like a generator towards the evaluated program (next() / one-shot iteration through a cursor) and like
    a plain list towards host code."""

    def __init__(self, items=()):
        super().__init__(items)
        self._cursor = 0

    def __next__(self):
        if self._cursor >= len(self):
            raise StopIteration
        self._cursor += 1
        return self[self._cursor - 1]

    def rest(self):
        out = list(self[self._cursor:])
        self._cursor = len(self)
        return out


class Partial(Closure):
    """functools.partial over a function of the evaluated program: behaves as the inner closure with a bound argument
    prefix (analyses that look at the hook as a function see the inner definition plus `.bound`)."""

    def __init__(self, inner, bound, bound_kw):
        base = inner
        pre = []
        kw = {}
        if isinstance(inner, Partial):
            base, pre, kw = inner.inner, list(inner.bound), dict(inner.bound_kw)
        super().__init__(base.node, base.env, base.interp)
        self.inner = base
        self.bound = pre + list(bound)
        self.bound_kw = {**kw, **bound_kw}

    def __call__(self, *args, **kwargs):
        return self.inner(*(list(self.bound) + list(args)), **{**self.bound_kw, **kwargs})


def operator_module(interp):
    def getter_attr(*names):
        def get(obj):
            def one(n):
                cur = obj
                for part in n.split("."):
                    if isinstance(cur, Record) and part in cur.fields:
                        cur = cur.fields[part]
                    else:
                        raise Raised("AttributeError", (part,))
                return cur
            return one(names[0]) if len(names) == 1 else tuple(one(n) for n in names)
        return ("host", get)

    def getter_item(*keys):
        def get(obj):
            try:
                return obj[keys[0]] if len(keys) == 1 else tuple(obj[k] for k in keys)
            except (KeyError, IndexError, TypeError) as e:
                raise Raised(type(e).__name__, e.args)
        return ("host", get)
    return ModuleRef("operator", attrs={"attrgetter": ("host", getter_attr), "itemgetter": ("host", getter_item)})


def std_modules(interp) -> dict:
    """stubs of the standard-library modules plain helper code uses, for evaluators that are not built from a module tree"""
    return {"functools": functools_module(interp), "itertools": _itertools_module(interp), "operator": operator_module(interp),
            "collections": collections_module(), "urllib": urllib_module()}


def json_module():
    import json as _json

    def encoder(**opts):
        if opts.get("default") is not None:
            raise AnalysisError("json.JSONEncoder with a default= function of the analysed program")
        enc = _json.JSONEncoder(**opts)
        return Record("JSONEncoder", {"encode": ("host", enc.encode)})
    return ModuleRef("json", attrs={"dumps": ("host", _json.dumps), "loads": ("host", _json.loads),
                                    "JSONEncoder": ("host", encoder)})


def urllib_module():
    import urllib.parse as _up

    def pure(f):
        def g(*a, **k):
            if any(isinstance(x, (Record, ClassRef, ModuleRef)) for x in a):
                raise AnalysisError("urllib.parse function applied to a model object")
            try:
                return f(*a, **k)
            except (TypeError, ValueError) as e:
                raise Raised(type(e).__name__, e.args)
        return ("host", g)
    return ModuleRef("urllib", attrs={"parse": ModuleRef("urllib.parse", attrs={
        "unquote": pure(_up.unquote), "quote": pure(_up.quote), "unquote_plus": pure(_up.unquote_plus)})})


def collections_module():
    import collections as _c

    def defaultdict(factory=None, *a, **k):
        if factory in (list, dict, set, int, str, None):
            return _c.defaultdict(factory, *a, **k)
        raise AnalysisError("collections.defaultdict with a factory of the analysed program")
    return ModuleRef("collections", attrs={"OrderedDict": ("host", lambda *a, **k: dict(*a, **k)),
                                           "defaultdict": ("host", defaultdict)})


def functools_module(interp=None):
    def reduce(fn, xs, *init):
        if interp is None:
            raise AnalysisError("functools.reduce cannot be folded here")
        items = list(interp.iterate(xs))
        if init:
            acc = init[0]
        elif items:
            acc, items = items[0], items[1:]
        else:
            raise Raised("TypeError", ("reduce() of empty iterable with no initial value",))
        for x in items:
            acc = interp.apply(fn, [acc, x], {})
        return acc

    def partial(f, *a, **k):
        if isinstance(f, Closure):
            return Partial(f, a, k)
        if isinstance(f, tuple) and f and f[0] == "host":
            inner = f[1]
            return ("host", lambda *a2, **k2: inner(*a, *a2, **{**k, **k2}))
        raise AnalysisError("functools.partial over something that is not a function of the analysed program")
    return ModuleRef("functools", attrs={"partial": ("host", partial), "reduce": ("host", reduce)})


class _Return(Exception):
    def __init__(self, v):
        self.v = v


class _Continue(Exception):
    pass


class _Break(Exception):
    pass


class Sentinel:
    """what `object()` evaluates to"""
    __slots__ = ()

    def __repr__(self):
        return f"<object at {id(self):#x}>"


HOST_TYPES = {"int": int, "str": str, "bool": bool, "float": float, "list": list, "dict": dict,
              "tuple": tuple, "type": type, "object": object, "set": set, "frozenset": frozenset}

STR_METHODS = {"endswith", "startswith", "split", "join", "title", "lower", "upper", "replace",
               "splitlines", "strip", "lstrip", "rstrip", "capitalize", "removesuffix",
               "removeprefix", "isidentifier", "format", "rsplit", "find", "isupper", "islower"}


class Interp:
    def __init__(self, module_tree: ast.Module | None = None, name: str = "<module>",
                 extra_globals: dict | None = None, max_steps: int = 2_000_000):
        self.name = name
        self.globals: dict = {}
        self.classes: dict[str, dict[str, ast.FunctionDef]] = {}
        self.steps = 0
        self.max_steps = max_steps
        if extra_globals:
            self.globals.update(extra_globals)
        if module_tree is not None:
            self.load_module(module_tree)

    # ------------------------------------------------------------------ module loading
    def load_module(self, tree: ast.Module, only: set | None = None):
        """Bind module-level functions, simple constant assignments and re.compile constants.
        Statements that cannot be folded are skipped silently *unless* a later evaluation needs the
        name (then the lookup fails with AnalysisError)."""
        for st in tree.body:
            if isinstance(st, ast.FunctionDef):
                self.globals[st.name] = Closure(st, None, self)
            elif isinstance(st, ast.Import):
                for a in st.names:
                    nm = a.asname or a.name.split(".")[0]
                    if a.name in ("re", "keyword"):
                        self.globals[nm] = ModuleRef(a.name)
                    elif a.name == "itertools":
                        self.globals[nm] = _itertools_module(self)
                    elif a.name == "functools":
                        self.globals[nm] = functools_module(self)
                    elif a.name == "json":
                        import json as _json
                        self.globals[nm] = json_module()
                    elif a.name == "operator":
                        self.globals[nm] = operator_module(self)
                    elif a.name == "collections":
                        self.globals[nm] = collections_module()
                    elif a.name == "types":
                        self.globals[nm] = ModuleRef("types", attrs={"MappingProxyType": ("host", lambda d: d)})
            elif isinstance(st, ast.ImportFrom) and st.level == 0:
                for a in st.names:
                    nm = a.asname or a.name
                    if st.module == "types" and a.name == "MappingProxyType":
                        self.globals[nm] = ("host", lambda d: d)       # a read-only view: same contents
                    elif st.module == "functools" and a.name in ("partial",):
                        self.globals[nm] = functools_module(self).attrs[a.name]
                    elif st.module == "itertools":
                        m_ = _itertools_module(self)
                        if a.name in m_.attrs:
                            self.globals[nm] = m_.attrs[a.name]
                    elif st.module == "operator":
                        m_ = operator_module(self)
                        if a.name in m_.attrs:
                            self.globals[nm] = m_.attrs[a.name]
                    elif st.module == "collections":
                        m_ = collections_module()
                        if a.name in m_.attrs:
                            self.globals[nm] = m_.attrs[a.name]
            elif isinstance(st, (ast.Assign, ast.AnnAssign)):
                tgt = st.targets[0] if isinstance(st, ast.Assign) else st.target
                if not isinstance(tgt, ast.Name) or st.value is None:
                    continue
                if only is not None and tgt.id not in only:
                    continue
                try:
                    self.globals[tgt.id] = self.eval(st.value, self.globals)
                except (AnalysisError, Raised):
                    pass
            elif isinstance(st, ast.ClassDef):
                self.classes[st.name] = {m.name: m for m in st.body if isinstance(m, ast.FunctionDef)}
                cr = ClassRef(st.name)
                # a plain class (no bases, no decorators, at most methods): instantiable in the evaluator
                cr.plain = not st.decorator_list and not st.keywords and all(_dotted(b) == "object" for b in st.bases) \
                    and all(isinstance(m, (ast.FunctionDef, ast.Pass)) or (isinstance(m, ast.Expr) and isinstance(m.value, ast.Constant))
                            for m in st.body)
                self.globals[st.name] = cr

    # ------------------------------------------------------------------ calls
    def call(self, fn: ast.FunctionDef | ast.Lambda, args: list, kwargs: dict | None = None,
             closure_env: dict | None = None, default_values: dict | None = None):
        """default_values: the function object's own default values {id(default expr): value}, evaluated once (Python
        evaluates defaults when the function is defined: a mutable default is shared by every call)"""
        kwargs = kwargs or {}
        a = fn.args
        if a.posonlyargs:
            raise AnalysisError(f"{self.name}: unsupported signature of {getattr(fn, 'name', '<lambda>')}")
        names = [x.arg for x in a.args]
        env = dict(closure_env) if closure_env else {}
        env["__parent__"] = closure_env
        if len(args) > len(names):
            if not a.vararg:
                raise Raised("TypeError", ("too many arguments",))
            env[a.vararg.arg] = tuple(args[len(names):])
            args = args[:len(names)]
        elif a.vararg:
            env[a.vararg.arg] = ()
        kwargs = dict(kwargs)
        for ko, kd in zip(a.kwonlyargs, a.kw_defaults):
            if ko.arg in kwargs:
                env[ko.arg] = kwargs.pop(ko.arg)
            elif kd is not None:
                env[ko.arg] = default_values[id(kd)] if default_values is not None and id(kd) in default_values else self.eval(kd, env)
            else:
                raise Raised("TypeError", (f"missing keyword-only argument {ko.arg}",))
        if a.kwarg:
            extra = {k: v for k, v in kwargs.items() if k not in names}
            env[a.kwarg.arg] = extra
            kwargs = {k: v for k, v in kwargs.items() if k in names}
        else:
            unknown = [k for k in kwargs if k not in names]
            if unknown:
                raise Raised("TypeError", (f"unexpected keyword argument {unknown[0]}",))
        for n, v in zip(names, args):
            if n in kwargs:
                raise Raised("TypeError", (f"multiple values for argument {n}",))
            env[n] = v
        defaults = a.defaults
        first_default = len(names) - len(defaults)
        for i, n in enumerate(names[len(args):], start=len(args)):
            if n in kwargs:
                env[n] = kwargs[n]
            elif i >= first_default:
                dx = defaults[i - first_default]
                env[n] = default_values[id(dx)] if default_values is not None and id(dx) in default_values else self.eval(dx, env)
            else:
                raise Raised("TypeError", (f"missing argument {n}",))
        stack = self.__dict__.setdefault("call_stack", [])
        stack.append(fn)
        try:
            if isinstance(fn, ast.Lambda):
                return self.eval(fn.body, env)
            is_gen = any(isinstance(n, (ast.Yield, ast.YieldFrom)) for n in _walk_own(fn))
            if is_gen:
                # generator functions are run eagerly; the call evaluates to the list of yielded values
                env["__yields__"] = []
            try:
                self.exec_block(fn.body, env)
            except _Return as r:
                return EagerGen(env["__yields__"]) if is_gen else r.v
            return EagerGen(env["__yields__"]) if is_gen else None
        finally:
            stack.pop()

    # ------------------------------------------------------------------ statements
    def exec_block(self, body, env):
        for st in body:
            self.exec(st, env)

    def exec(self, st, env):
        self._tick()
        if isinstance(st, ast.Expr):
            if isinstance(st.value, ast.Constant):
                return
            self.eval(st.value, env)
        elif isinstance(st, ast.Return):
            raise _Return(self.eval(st.value, env) if st.value is not None else None)
        elif isinstance(st, ast.Assign):
            v = self.eval(st.value, env)
            for t in st.targets:
                self.assign(t, v, env)
        elif isinstance(st, ast.AnnAssign):
            if st.value is not None:
                self.assign(st.target, self.eval(st.value, env), env)
        elif isinstance(st, ast.AugAssign):
            cur = self.eval(ast.copy_location(_load(st.target), st.target), env)
            rhs = self.eval(st.value, env)
            # in-place operators of the mutable builtins mutate the object every alias sees
            if isinstance(cur, list) and isinstance(st.op, ast.Add) and isinstance(rhs, (list, tuple)):
                cur.extend(rhs)
                v = cur
            elif isinstance(cur, list) and isinstance(st.op, ast.Mult) and isinstance(rhs, int) and not isinstance(rhs, bool):
                cur[:] = cur * rhs
                v = cur
            elif isinstance(cur, dict) and isinstance(st.op, ast.BitOr) and isinstance(rhs, dict):
                cur.update(rhs)
                v = cur
            elif isinstance(cur, set) and isinstance(st.op, ast.BitOr) and isinstance(rhs, (set, frozenset)):
                cur |= rhs
                v = cur
            elif isinstance(cur, set) and isinstance(st.op, ast.Sub) and isinstance(rhs, (set, frozenset)):
                cur -= rhs
                v = cur
            elif isinstance(cur, set) and isinstance(st.op, ast.BitAnd) and isinstance(rhs, (set, frozenset)):
                cur &= rhs
                v = cur
            else:
                v = self.binop(st.op, cur, rhs)
            self.assign(st.target, v, env)
        elif isinstance(st, ast.If):
            if self.truth(self.eval(st.test, env)):
                self.exec_block(st.body, env)
            else:
                self.exec_block(st.orelse, env)
        elif isinstance(st, ast.For):
            it = self.eval(st.iter, env)
            broke = False
            for x in self.iterate(it):
                self.assign(st.target, x, env)
                try:
                    self.exec_block(st.body, env)
                except _Continue:
                    continue
                except _Break:
                    broke = True
                    break
            if not broke:
                self.exec_block(st.orelse, env)
        elif isinstance(st, ast.While):
            n_iter = 0
            while self.truth(self.eval(st.test, env)):
                n_iter += 1
                if n_iter > 100000:
                    raise AnalysisError(f"{self.name}:{st.lineno}: while loop does not terminate within the budget")
                try:
                    self.exec_block(st.body, env)
                except _Continue:
                    continue
                except _Break:
                    break
        elif isinstance(st, ast.Continue):
            raise _Continue()
        elif isinstance(st, ast.Break):
            raise _Break()
        elif isinstance(st, ast.Raise):
            if st.exc is None:
                raise Raised("reraise", ())
            exc = st.exc
            if isinstance(exc, ast.Call):
                nm = _dotted(exc.func)
                if nm and nm.split(".")[-1].endswith(("Error", "Exception", "Warning", "Exit", "Interrupt")) or nm in ("StopIteration",):
                    args = tuple(self.eval(a, env) for a in exc.args)
                    raise Raised(nm, args)
            v = self.eval(exc, env)
            if isinstance(v, Record) and isinstance(v.fields.get("args"), tuple):
                raise Raised(v.cls_name, v.fields["args"])
            if isinstance(v, tuple) and len(v) == 2 and v[0] == "exc":
                raise Raised(v[1], ())
            raise AnalysisError(f"{self.name}:{st.lineno}: raise of a value that does not fold to an exception")
        elif isinstance(st, ast.Assert):
            if not self.truth(self.eval(st.test, env)):
                raise Raised("AssertionError", ())
        elif isinstance(st, ast.Global):
            env.setdefault("__globalnames__", set()).update(st.names)
        elif isinstance(st, (ast.Pass, ast.Nonlocal)):
            return
        elif isinstance(st, ast.FunctionDef):
            env[st.name] = Closure(st, env, self)
        elif isinstance(st, ast.Delete):
            for tgt in st.targets:
                if isinstance(tgt, ast.Subscript):
                    obj = self.eval(tgt.value, env)
                    idx = self.eval(tgt.slice, env)
                    try:
                        del obj[idx]
                    except (KeyError, IndexError, TypeError) as e:
                        raise Raised(type(e).__name__, e.args)
                elif isinstance(tgt, ast.Name):
                    env.pop(tgt.id, None)
                else:
                    raise AnalysisError(f"{self.name}:{st.lineno}: del of an attribute is outside the subset")
        elif isinstance(st, ast.Try):
            if st.finalbody:
                raise AnalysisError(f"{self.name}:{st.lineno}: try/finally is outside the subset")
            try:
                self.exec_block(st.body, env)
            except Raised as e:
                for h in st.handlers:
                    names = []
                    if h.type is None:
                        names = None
                    elif isinstance(h.type, ast.Tuple):
                        names = [_dotted(x) for x in h.type.elts]
                    else:
                        names = [_dotted(h.type)]
                    if names is None or e.exc_name in names or "Exception" in names or "BaseException" in names:
                        if h.name:
                            env[h.name] = Record(e.exc_name, {"args": e.exc_args})
                        self.exec_block(h.body, env)
                        break
                else:
                    raise
            else:
                self.exec_block(st.orelse, env)
        elif isinstance(st, ast.With):
            # context managers are opaque (locks): the body runs exactly once
            for item in st.items:
                if item.optional_vars is not None:
                    raise AnalysisError(f"{self.name}:{st.lineno}: `with ... as` is outside the subset")
            self.exec_block(st.body, env)
        elif hasattr(ast, "Match") and isinstance(st, ast.Match):
            subject = self.eval(st.subject, env)
            for case in st.cases:
                binds = {}
                if self._match(case.pattern, subject, env, binds):
                    for k_, v_ in binds.items():
                        self.assign(ast.Name(id=k_, ctx=ast.Store()), v_, env)
                    if case.guard is not None and not self.truth(self.eval(case.guard, env)):
                        continue
                    self.exec_block(case.body, env)
                    return
        else:
            raise AnalysisError(f"{self.name}:{st.lineno}: statement {type(st).__name__} is outside "
                                "the micro-evaluator's subset")

    def _match(self, pat, v, env, binds) -> bool:
        """structural pattern matching for the pattern kinds plain dispatch code uses"""
        if isinstance(pat, ast.MatchValue):
            c = self.eval(pat.value, env)
            try:
                return bool(v == c)
            except Exception:
                return False
        if isinstance(pat, ast.MatchSingleton):
            return v is pat.value
        if isinstance(pat, ast.MatchOr):
            for sub in pat.patterns:
                b2 = {}
                if self._match(sub, v, env, b2):
                    binds.update(b2)
                    return True
            return False
        if isinstance(pat, ast.MatchAs):
            if pat.pattern is not None and not self._match(pat.pattern, v, env, binds):
                return False
            if pat.name is not None:
                binds[pat.name] = v
            return True
        if isinstance(pat, ast.MatchSequence):
            if not isinstance(v, (list, tuple)):
                return False
            stars = [i for i, p_ in enumerate(pat.patterns) if isinstance(p_, ast.MatchStar)]
            if not stars:
                if len(v) != len(pat.patterns):
                    return False
                return all(self._match(p_, x, env, binds) for p_, x in zip(pat.patterns, v))
            i = stars[0]
            before, after = pat.patterns[:i], pat.patterns[i + 1:]
            if len(v) < len(before) + len(after):
                return False
            ok = all(self._match(p_, x, env, binds) for p_, x in zip(before, v[:len(before)]))
            tail = v[len(v) - len(after):] if after else []
            ok = ok and all(self._match(p_, x, env, binds) for p_, x in zip(after, tail))
            if ok and pat.patterns[i].name:
                binds[pat.patterns[i].name] = list(v[len(before):len(v) - len(after)])
            return ok
        if isinstance(pat, ast.MatchMapping):
            if not isinstance(v, dict):
                return False
            for k_, p_ in zip(pat.keys, pat.patterns):
                kk = self.eval(k_, env)
                if kk not in v or not self._match(p_, v[kk], env, binds):
                    return False
            if pat.rest:
                keys = {self.eval(k_, env) for k_ in pat.keys}
                binds[pat.rest] = {a: b for a, b in v.items() if a not in keys}
            return True
        if isinstance(pat, ast.MatchClass):
            cls = self.eval(pat.cls, env)
            if cls in (str, int, float, bool, list, tuple, dict):
                if not isinstance(v, cls) or (cls is int and isinstance(v, bool)):
                    return False
                if pat.patterns:
                    return len(pat.patterns) == 1 and self._match(pat.patterns[0], v, env, binds)
                return True
            if isinstance(cls, ClassRef) and isinstance(v, Record) and v.cls_name == cls.name:
                if pat.patterns:
                    raise AnalysisError(f"{self.name}: positional class patterns are outside the subset")
                for a_, p_ in zip(pat.kwd_attrs, pat.kwd_patterns):
                    if a_ not in v.fields or not self._match(p_, v.fields[a_], env, binds):
                        return False
                return True
            return False
        raise AnalysisError(f"{self.name}: pattern {type(pat).__name__} is outside the micro-evaluator's subset")

    def assign(self, target, v, env):
        if isinstance(target, ast.Name):
            if target.id in env.get("__globalnames__", ()):
                self.globals[target.id] = v
            else:
                env[target.id] = v
        elif isinstance(target, (ast.Tuple, ast.List)):
            vs = list(self.iterate(v))
            stars = [i for i, t in enumerate(target.elts) if isinstance(t, ast.Starred)]
            if len(stars) > 1:
                raise AnalysisError(f"{self.name}: two starred targets")
            if stars:
                si = stars[0]
                after = len(target.elts) - si - 1
                if len(vs) < len(target.elts) - 1:
                    raise Raised("ValueError", ("not enough values to unpack",))
                for t, x in zip(target.elts[:si], vs[:si]):
                    self.assign(t, x, env)
                self.assign(target.elts[si].value, list(vs[si:len(vs) - after]), env)
                for t, x in zip(target.elts[si + 1:], vs[len(vs) - after:] if after else []):
                    self.assign(t, x, env)
                return
            if len(vs) != len(target.elts):
                raise Raised("ValueError", ("unpack",))
            for t, x in zip(target.elts, vs):
                self.assign(t, x, env)
        elif isinstance(target, ast.Attribute):
            obj = self.eval(target.value, env)
            if isinstance(obj, Closure):
                obj.__dict__.setdefault("fattrs", {})[target.attr] = v      # function attributes (`f.overrides = ...`)
                return
            if not isinstance(obj, Record):
                raise AnalysisError(f"{self.name}: attribute assignment on {type(obj).__name__}")
            if obj.frozen_attrs is not None and target.attr not in obj.frozen_attrs and target.attr not in obj.fields:
                # mimics a slotted attrs class: unknown attributes cannot be created
                raise Raised("AttributeError", (target.attr,))
            obj.fields[target.attr] = v
        elif isinstance(target, ast.Subscript):
            obj = self.eval(target.value, env)
            if isinstance(target.slice, ast.Slice) and isinstance(obj, list):
                sl = target.slice
                lo = self.eval(sl.lower, env) if sl.lower is not None else None
                hi = self.eval(sl.upper, env) if sl.upper is not None else None
                stp = self.eval(sl.step, env) if sl.step is not None else None
                try:
                    obj[lo:hi:stp] = list(self.iterate(v))
                except (TypeError, ValueError) as e:
                    raise Raised(type(e).__name__, e.args)
                return
            idx = self.eval(target.slice, env)
            if isinstance(obj, (list, dict)):
                obj[idx] = v
            else:
                raise AnalysisError(f"{self.name}: subscript assignment on {type(obj).__name__}")
        else:
            raise AnalysisError(f"{self.name}: unsupported assignment target {type(target).__name__}")

    # ------------------------------------------------------------------ expressions
    def _tick(self):
        self.steps += 1
        if self.steps > self.max_steps:
            raise AnalysisError(f"{self.name}: step budget exhausted")

    def lookup(self, name, env):
        e = env
        while e is not None:
            if name in e:
                return e[name]
            e = e.get("__parent__")
        if name in self.globals:
            return self.globals[name]
        if name in HOST_TYPES:
            return HOST_TYPES[name]
        if name in ("isinstance", "issubclass", "hasattr", "len", "any", "all", "repr", "sorted", "min", "max",
                    "enumerate", "zip", "range", "abs", "getattr", "filter", "map", "next", "iter", "reversed", "sum",
                    "divmod", "pow", "round", "ord", "chr", "id"):
            return ("builtin", name)
        if name == "NotImplemented":
            return NotImplemented
        if name in ("functools", "itertools", "operator", "collections", "urllib"):
            # standard-library helpers are available to every evaluator (as if imported)
            self.globals[name] = std_modules(self)[name]
            return self.globals[name]
        if name in ("ValueError", "TypeError", "KeyError", "Exception"):
            return ("exc", name)
        raise AnalysisError(f"{self.name}: name {name!r} cannot be folded")

    def truth(self, v) -> bool:
        if isinstance(v, Record):
            return True
        return bool(v)

    def iterate(self, v):
        if isinstance(v, ClassRef) and v.iter is not None:
            return list(v.iter())
        if isinstance(v, EagerGen):
            return v.rest()
        if isinstance(v, (list, tuple, str, dict, set, frozenset, range)):
            return list(v)
        if hasattr(v, "__iter__") and not isinstance(v, (Record, ClassRef, ModuleRef)):
            return list(v)
        raise Raised("TypeError", ("not iterable",))

    def eval(self, node, env):
        self._tick()
        m = getattr(self, "e_" + type(node).__name__, None)
        if m is None:
            raise AnalysisError(f"{self.name}:{getattr(node, 'lineno', '?')}: expression "
                                f"{type(node).__name__} is outside the micro-evaluator's subset")
        return m(node, env)

    def e_Constant(self, n, env):
        return n.value

    def e_Name(self, n, env):
        return self.lookup(n.id, env)

    def _elts(self, elts, env):
        out = []
        for e in elts:
            if isinstance(e, ast.Starred):
                out.extend(self.iterate(self.eval(e.value, env)))
            else:
                out.append(self.eval(e, env))
        return out

    def e_Tuple(self, n, env):
        return tuple(self._elts(n.elts, env))

    def e_List(self, n, env):
        return self._elts(n.elts, env)

    def e_Set(self, n, env):
        return set(self._elts(n.elts, env))

    def e_Dict(self, n, env):
        out = {}
        for k, v in zip(n.keys, n.values):
            if k is None:
                out.update(self.eval(v, env))
            else:
                out[self.eval(k, env)] = self.eval(v, env)
        return out

    def e_UnaryOp(self, n, env):
        v = self.eval(n.operand, env)
        if isinstance(n.op, ast.Not):
            return not self.truth(v)
        if isinstance(n.op, ast.USub):
            return -v
        if isinstance(n.op, ast.UAdd):
            return +v
        raise AnalysisError(f"{self.name}: unary operator {type(n.op).__name__}")

    def binop(self, op, a, b):
        try:
            if isinstance(op, ast.Add):
                return a + b
            if isinstance(op, ast.Sub):
                return a - b
            if isinstance(op, ast.Mult):
                return a * b
            if isinstance(op, ast.Pow):
                if isinstance(b, int) and abs(b) > 4096:
                    raise AnalysisError("exponent too large")
                return a ** b
            if isinstance(op, ast.FloorDiv):
                return a // b
            if isinstance(op, ast.Mod):
                if isinstance(a, str):
                    conv = lambda x: self.str_of(x) if isinstance(x, Record) else x   # noqa: E731
                    b = tuple(conv(x) for x in b) if isinstance(b, tuple) else conv(b)
                return a % b
            if isinstance(op, ast.BitOr):
                return a | b
            if isinstance(op, ast.BitAnd):
                return a & b
            if isinstance(op, ast.LShift):
                return a << b
        except TypeError as e:
            raise Raised("TypeError", (str(e),))
        except ZeroDivisionError as e:
            raise Raised("ZeroDivisionError", (str(e),))
        except (ValueError, OverflowError) as e:
            raise Raised(type(e).__name__, (str(e),))
        raise AnalysisError(f"{self.name}: binary operator {type(op).__name__}")

    def e_BinOp(self, n, env):
        return self.binop(n.op, self.eval(n.left, env), self.eval(n.right, env))

    def e_BoolOp(self, n, env):
        if isinstance(n.op, ast.And):
            v = True
            for e in n.values:
                v = self.eval(e, env)
                if not self.truth(v):
                    return v
            return v
        v = False
        for e in n.values:
            v = self.eval(e, env)
            if self.truth(v):
                return v
        return v

    def e_IfExp(self, n, env):
        return self.eval(n.body, env) if self.truth(self.eval(n.test, env)) else self.eval(n.orelse, env)

    def cmp(self, op, a, b):
        if isinstance(op, ast.Is):
            return a is b
        if isinstance(op, ast.IsNot):
            return a is not b
        if isinstance(op, (ast.In, ast.NotIn)) and isinstance(b, (list, tuple)) and \
                (isinstance(a, Record) or any(isinstance(x, Record) for x in b)):
            # membership uses == on the elements: abstract objects go through their class's __eq__
            found = any(x is a or self.truth(self.cmp(ast.Eq(), x, a)) for x in b)
            return found if isinstance(op, ast.In) else not found
        def _tagged(t_):
            return isinstance(t_, tuple) and len(t_) > 0 and isinstance(t_[0], str) and t_[0] in (
                "bound", "host", "builtin", "strmethod", "dictmethod", "listmethod", "exc", "re", "patsub")
        if isinstance(op, (ast.Eq, ast.NotEq)) and isinstance(a, (list, tuple)) and isinstance(b, (list, tuple)) \
                and type(a) is type(b) and not _tagged(a) and not _tagged(b) \
                and any(isinstance(x, Record) for x in list(a) + list(b)):
            same = len(a) == len(b) and all(x is y or self.truth(self.cmp(ast.Eq(), x, y)) for x, y in zip(a, b))
            return same if isinstance(op, ast.Eq) else not same
        if isinstance(a, Record) or isinstance(b, Record):
            return self.cmp_record(op, a, b)
        try:
            if isinstance(op, ast.Eq):
                return a == b
            if isinstance(op, ast.NotEq):
                return a != b
            if isinstance(op, ast.Lt):
                return a < b
            if isinstance(op, ast.LtE):
                return a <= b
            if isinstance(op, ast.Gt):
                return a > b
            if isinstance(op, ast.GtE):
                return a >= b
            if isinstance(op, ast.In):
                return a in b
            if isinstance(op, ast.NotIn):
                return a not in b
        except TypeError as e:
            raise Raised("TypeError", (str(e),))
        raise AnalysisError(f"{self.name}: comparison {type(op).__name__}")

    def cmp_record(self, op, a, b):
        """== / != between abstract objects: dispatch to the class's __eq__ as CPython does
        (reflected call when the first returns NotImplemented, identity fallback)."""
        if isinstance(op, (ast.Eq, ast.NotEq)):
            r = NotImplemented
            if isinstance(a, Record):
                r = self.dunder(a, "__eq__", b)
            if r is NotImplemented and isinstance(b, Record):
                r = self.dunder(b, "__eq__", a)
            if r is NotImplemented:
                r = a is b
            r = self.truth(r)
            return r if isinstance(op, ast.Eq) else not r
        raise AnalysisError(f"{self.name}: ordering comparison between abstract objects is not folded here")

    def dunder(self, rec: Record, name: str, *args):
        classes = rec.classes if rec.classes is not None else self.classes
        meths = classes.get(rec.cls_name, {})
        if name not in meths:
            return NotImplemented
        return self.call(meths[name], [rec, *args])

    def e_Compare(self, n, env):
        left = self.eval(n.left, env)
        for op, c in zip(n.ops, n.comparators):
            right = self.eval(c, env)
            if not self.truth(self.cmp(op, left, right)):
                return False
            left = right
        return True

    def e_JoinedStr(self, n, env):
        out = []
        for v in n.values:
            if isinstance(v, ast.Constant):
                out.append(str(v.value))
            else:
                x = self.eval(v.value, env)
                if v.conversion == 114:
                    s = self.repr_of(x)
                elif v.conversion == 115 or v.conversion == -1:
                    s = self.str_of(x)
                else:
                    raise AnalysisError(f"{self.name}: f-string conversion {v.conversion}")
                if v.format_spec is not None:
                    spec = self.e_JoinedStr(v.format_spec, env)
                    if spec:
                        # format(value, spec) as Python does it for the builtin scalars (the spec may not fit the type)
                        target = s if v.conversion in (114, 115) else x
                        if isinstance(target, (Record, ClassRef, ModuleRef)):
                            raise AnalysisError(f"{self.name}: f-string format spec {spec!r} on an abstract object")
                        try:
                            s = format(target, spec)
                        except (TypeError, ValueError) as e:
                            raise Raised(type(e).__name__, e.args)
                out.append(s)
        return "".join(out)

    def repr_of(self, x):
        if isinstance(x, Record):
            r = self.dunder(x, "__repr__")
            if r is NotImplemented:
                return f"<{x.cls_name}>"
            return r
        return repr(x)

    def str_of(self, x):
        if isinstance(x, Record):
            r = self.dunder(x, "__str__")
            if r is NotImplemented:
                return self.repr_of(x)
            return r
        return str(x)

    def e_Attribute(self, n, env):
        obj = self.eval(n.value, env)
        a = n.attr
        if isinstance(obj, Record):
            if a == "__class__":
                return Record("type", {"__qualname__": obj.cls_name, "__name__": obj.cls_name})
            if a in obj.fields:
                return obj.fields[a]
            classes = obj.classes if obj.classes is not None else self.classes
            meth = classes.get(obj.cls_name, {}).get(a)
            if meth is not None:
                return ("bound", obj, meth)
            raise Raised("AttributeError", (a,))
        if obj is dict and a == "fromkeys":
            return ("host", lambda ks, v=None: dict.fromkeys(self.iterate(ks), v))
        if hasattr(obj, "e5_attr"):
            return obj.e5_attr(a)         # a host stand-in that answers attribute reads itself (attrs.fields(cls).name)
        if isinstance(obj, Closure):
            fa = obj.__dict__.get("fattrs", {})
            if a in fa:
                return fa[a]
            if a == "__name__":
                return getattr(obj.node, "name", "<lambda>")
            raise Raised("AttributeError", (a,))
        if isinstance(obj, ClassRef):
            if a in ("__name__", "__qualname__"):
                return obj.name
            if a in obj.attrs:
                return obj.attrs[a]
            raise AnalysisError(f"{self.name}: attribute {a} of class object")
        if isinstance(obj, ModuleRef):
            if a in obj.attrs:
                return obj.attrs[a]
            if obj.name.split(".")[-1] == "model" and a[:1].isupper() and (obj.interp is None or a not in obj.interp.globals):
                return class_ref(a)          # `model.Property` as a class object (type tests against the model classes)
            if obj.interp is not None:
                if a in obj.interp.globals:
                    return obj.interp.globals[a]
                raise AnalysisError(f"{self.name}: {obj.name}.{a} cannot be folded")
            if obj.name == "re" and a in ("sub", "compile"):
                return ("re", a)
            if obj.name == "keyword" and a == "iskeyword":
                return ("builtin", "iskeyword")
            raise AnalysisError(f"{self.name}: {obj.name}.{a} cannot be folded")
        if isinstance(obj, str) and a in STR_METHODS:
            return ("strmethod", obj, a)
        if obj is str and a in STR_METHODS:
            return ("host", lambda s_, *aa, _a=a: getattr(s_, _a)(*aa))
        if isinstance(obj, _re.Pattern) and a == "sub":
            return ("patsub", obj)
        if isinstance(obj, dict) and a in ("get", "items", "keys", "values", "setdefault", "update", "pop"):
            return ("dictmethod", obj, a)
        if isinstance(obj, list) and a in ("append", "extend", "index", "count", "insert", "pop", "sort", "reverse", "copy"):
            return ("listmethod", obj, a)
        if isinstance(obj, (set, frozenset)) and a in ("add", "update", "discard", "remove", "issuperset", "issubset",
                                                       "isdisjoint", "union", "intersection", "difference", "copy"):
            return ("listmethod", obj, a)
        if isinstance(obj, (str, int, float, bool, type(None), list, tuple, dict)) and not hasattr(obj, a):
            raise Raised("AttributeError", (f"'{type(obj).__name__}' object has no attribute '{a}'",))
        raise AnalysisError(f"{self.name}:{n.lineno}: attribute .{a} on {type(obj).__name__} "
                            "is outside the subset")

    def e_Subscript(self, n, env):
        obj = self.eval(n.value, env)
        sl = n.slice
        if hasattr(obj, "__vsubscript__"):
            idx = self.eval(sl, env)
            return obj.__vsubscript__(idx)
        try:
            if isinstance(sl, ast.Slice):
                lo = self.eval(sl.lower, env) if sl.lower is not None else None
                hi = self.eval(sl.upper, env) if sl.upper is not None else None
                stp = self.eval(sl.step, env) if sl.step is not None else None
                return obj[lo:hi:stp]
            idx = self.eval(sl, env)
            if isinstance(obj, (Record, ClassRef, ModuleRef)):
                raise AnalysisError(f"{self.name}: subscript on abstract object")
            return obj[idx]
        except KeyError as e:
            raise Raised("KeyError", e.args)
        except IndexError as e:
            raise Raised("IndexError", e.args)
        except TypeError as e:
            raise Raised("TypeError", e.args)

    def _comp(self, gens, env, emit):
        def rec(i, env):
            if i == len(gens):
                emit(env)
                return
            g = gens[i]
            if g.is_async:
                raise AnalysisError("async comprehension")
            for x in self.iterate(self.eval(g.iter, env)):
                e2 = {"__parent__": env, "__comp__": True}
                self.assign(g.target, x, e2)
                if all(self.truth(self.eval(c, e2)) for c in g.ifs):
                    rec(i + 1, e2)
        rec(0, env)

    def e_ListComp(self, n, env):
        out = []
        self._comp(n.generators, env, lambda e: out.append(self.eval(n.elt, e)))
        return out

    def e_GeneratorExp(self, n, env):
        return EagerGen(self.e_ListComp(n, env))

    def e_SetComp(self, n, env):
        return set(self.e_ListComp(n, env))

    def e_DictComp(self, n, env):
        out = {}
        self._comp(n.generators, env, lambda e: out.__setitem__(self.eval(n.key, e), self.eval(n.value, e)))
        return out

    def _yields(self, env):
        e = env
        while e is not None:
            if "__yields__" in e:
                return e["__yields__"]
            e = e.get("__parent__")
        raise AnalysisError(f"{self.name}: yield outside a generator function")

    def e_Yield(self, n, env):
        self._yields(env).append(self.eval(n.value, env) if n.value is not None else None)
        return None

    def e_YieldFrom(self, n, env):
        self._yields(env).extend(self.iterate(self.eval(n.value, env)))
        return None

    def e_Lambda(self, n, env):
        return Closure(n, env, self)

    def e_NamedExpr(self, n, env):
        v = self.eval(n.value, env)
        # a walrus inside a comprehension binds in the enclosing function scope
        e = env
        while e is not None and e.get("__comp__") and e.get("__parent__") is not None:
            e = e["__parent__"]
        self.assign(n.target, v, e if e is not None else env)
        if e is not env:
            env[n.target.id] = v
        return v

    def e_Call(self, n, env):
        f = self.eval(n.func, env)
        args = []
        for a in n.args:
            if isinstance(a, ast.Starred):
                args.extend(self.iterate(self.eval(a.value, env)))
            else:
                args.append(self.eval(a, env))
        kwargs = {}
        for k in n.keywords:
            if k.arg is None:
                d = self.eval(k.value, env)
                if not isinstance(d, dict) or not all(isinstance(x, str) for x in d):
                    raise AnalysisError(f"{self.name}: ** of a non-dict in a call")
                kwargs.update(d)
                continue
            kwargs[k.arg] = self.eval(k.value, env)
        return self.apply(f, args, kwargs)

    def apply(self, f, args, kwargs):
        if isinstance(f, Closure):
            return f(*args, **kwargs)
        if isinstance(f, ClassRef) and f.call is not None:
            return f.call(*args, **kwargs)
        if isinstance(f, Record) and "__call__" in f.fields:
            return self.apply(f.fields["__call__"], args, kwargs)
        if isinstance(f, ClassRef) and getattr(f, "plain", False) and f.name in self.classes:
            rec = Record(f.name, {}, None)
            init = self.classes[f.name].get("__init__")
            if init is not None:
                self.call(init, [rec, *args], kwargs)
            elif args or kwargs:
                raise Raised("TypeError", (f"{f.name}() takes no arguments",))
            return rec
        if isinstance(f, ModuleRef) and "__call__" in f.attrs:
            return self.apply(f.attrs["__call__"], args, kwargs)
        if f is type and len(args) == 1:
            if isinstance(args[0], Record):
                g_ = self.globals.get(args[0].cls_name)
                return g_ if isinstance(g_, ClassRef) else class_ref(args[0].cls_name)
            return type(args[0]) if not isinstance(args[0], (Record, ClassRef, ModuleRef)) else ClassRef("type")
        if f is object and not args and not kwargs:
            return Sentinel()        # `_MISSING = object()`: a fresh value equal and identical only to itself
        if isinstance(f, type) and f in (str, int, bool, float, list, tuple, set, dict, frozenset):
            try:
                if f is str and args and isinstance(args[0], Record):
                    return self.str_of(args[0])
                if f in (list, tuple, set, frozenset) and args:
                    return f(self.iterate(args[0]))
                return f(*args, **kwargs)
            except (ValueError, TypeError) as e:
                raise Raised(type(e).__name__, e.args)
        if isinstance(f, tuple):
            tag = f[0]
            if tag == "builtin":
                return self.builtin(f[1], args, kwargs)
            if tag == "strmethod":
                try:
                    return getattr(f[1], f[2])(*args, **kwargs)
                except (ValueError, TypeError) as e:
                    raise Raised(type(e).__name__, e.args)
            if tag == "dictmethod":
                r = getattr(f[1], f[2])(*args, **kwargs)
                return list(r) if f[2] in ("items", "keys", "values") else r
            if tag == "listmethod":
                return getattr(f[1], f[2])(*args, **kwargs)
            if tag == "re":
                if f[1] == "compile":
                    return _re.compile(*args, **kwargs)
                if f[1] == "sub":
                    return _re.sub(*args, **kwargs)
            if tag == "patsub":
                return f[1].sub(*args, **kwargs)
            if tag == "exc":
                return Record(f[1], {"args": tuple(args)})
            if tag == "host":
                return f[1](*args, **kwargs)
            if tag == "bound":
                return self.call(f[2], [f[1], *args], kwargs)
        raise AnalysisError(f"{self.name}: call of {f!r} is outside the subset")

    def builtin(self, name, args, kwargs):
        if name == "id":
            return id(args[0])        # identity of the evaluator's own object: distinct objects, distinct ids
        if name in ("divmod", "pow", "round", "ord", "chr"):
            if any(isinstance(a, (Record, ClassRef, ModuleRef)) for a in args):
                raise AnalysisError(f"{self.name}: {name}() of a model object")
            try:
                return {"divmod": divmod, "pow": pow, "round": round, "ord": ord, "chr": chr}[name](*args, **kwargs)
            except (ValueError, TypeError, ZeroDivisionError) as e:
                raise Raised(type(e).__name__, e.args)
        if name == "isinstance":
            obj, t = args
            ts = t if isinstance(t, tuple) else (t,)
            for x in ts:
                if isinstance(x, ClassRef):
                    if isinstance(obj, Record) and obj.cls_name == x.name:
                        return True
                elif isinstance(x, type):
                    if x is type and isinstance(obj, ClassRef):
                        return True
                    if not isinstance(obj, (Record, ClassRef, ModuleRef)) and isinstance(obj, x):
                        return True
                else:
                    raise AnalysisError(f"{self.name}: isinstance against {x!r}")
            return False
        if name == "issubclass":
            obj, t = args
            ts = t if isinstance(t, tuple) else (t,)
            if not isinstance(obj, ClassRef):
                if isinstance(obj, type):
                    return any(isinstance(x, type) and issubclass(obj, x) for x in ts)
                raise Raised("TypeError", ("issubclass() arg 1 must be a class",))
            for x in ts:
                if isinstance(x, ClassRef) and (x.name == obj.name or x.name in getattr(obj, "bases", ())):
                    return True
                if x is object:
                    return True
                if isinstance(x, type) and x.__name__ in getattr(obj, "bases", ()):
                    return True       # class E(int, Enum): issubclass(E, int)
            return False
        if name == "hasattr":
            obj, a = args
            if isinstance(obj, Record):
                return a in obj.fields
            return hasattr(obj, a) if isinstance(obj, (str, int, float, bool, list, tuple, dict, type(None))) else False
        if name == "getattr":
            obj, a = args[0], args[1]
            if hasattr(obj, "e5_attr"):
                try:
                    return obj.e5_attr(a)
                except Raised:
                    if len(args) > 2:
                        return args[2]
                    raise
            if isinstance(obj, Record):
                if a in obj.fields:
                    return obj.fields[a]
                classes = obj.classes if obj.classes is not None else self.classes
                meth = classes.get(obj.cls_name, {}).get(a)
                if meth is not None:
                    return ("bound", obj, meth)
                if len(args) > 2:
                    return args[2]
                raise Raised("AttributeError", (a,))
            if isinstance(obj, ClassRef):
                if a in ("__name__", "__qualname__"):
                    return obj.name
                if a in obj.attrs:
                    return obj.attrs[a]
                if len(args) > 2:
                    return args[2]
                raise Raised("AttributeError", (a,))
            if isinstance(obj, (str, int, float, bool, list, tuple, dict, type(None), Sentinel, type)) and not hasattr(obj, a):
                if len(args) > 2:
                    return args[2]
                raise Raised("AttributeError", (a,))
            raise AnalysisError(f"{self.name}: getattr({type(obj).__name__} value, {a!r})")
        if name == "iskeyword":
            return _keyword.iskeyword(args[0])
        if name == "repr":
            return self.repr_of(args[0])
        if name == "sorted":
            if "key" in kwargs:
                kf = kwargs["key"]
                return sorted(self.iterate(args[0]), key=lambda x: self.apply(kf, [x], {}),
                              reverse=bool(kwargs.get("reverse", False)))
            return sorted(self.iterate(args[0]), reverse=bool(kwargs.get("reverse", False)))
        if name in ("len", "any", "all", "min", "max", "abs"):
            host = {"len": len, "any": any, "all": all, "min": min, "max": max, "abs": abs}[name]
            try:
                if name in ("any", "all"):
                    return host(self.truth(x) for x in self.iterate(args[0]))
                return host(*args)
            except TypeError as e:
                raise Raised("TypeError", e.args)
        if name == "enumerate":
            return list(enumerate(self.iterate(args[0]), *args[1:], **kwargs))
        if name == "zip":
            return list(zip(*[self.iterate(a) for a in args]))
        if name == "range":
            return list(range(*args))
        if name == "iter" and len(args) == 1:
            return iter(list(self.iterate(args[0])))
        if name == "reversed" and len(args) == 1:
            return list(reversed(list(self.iterate(args[0]))))
        if name == "sum":
            try:
                return sum(list(self.iterate(args[0])), *args[1:])
            except TypeError as e:
                raise Raised("TypeError", e.args)
        if name == "next":
            try:
                return next(*args)
            except StopIteration:
                raise Raised("StopIteration", ())
            except TypeError as e:
                raise Raised("TypeError", e.args)
        if name == "filter":
            fn, it = args
            if fn is None:
                return [x for x in self.iterate(it) if self.truth(x)]
            return [x for x in self.iterate(it) if self.truth(self.apply(fn, [x], {}))]
        if name == "map":
            fn = args[0]
            if args[1:] and all(isinstance(a, (_it_mod.count, _it_mod.repeat)) for a in args[1:]):
                # map over endless streams only (`map(str, itertools.count(1))`): consumed lazily with next()
                return (self.apply(fn, list(xs), {}) for xs in zip(*args[1:]))
            return [self.apply(fn, list(xs), {}) for xs in zip(*[self.iterate(a) for a in args[1:]])]
        raise AnalysisError(f"{self.name}: builtin {name}")


def _itertools_module(interp):
    """itertools over evaluator values (everything is materialised into lists)."""
    import itertools as _it

    def chain(*its):
        out = []
        for x in its:
            out.extend(interp.iterate(x))
        return out

    def from_iterable(xs):
        out = []
        for x in interp.iterate(xs):
            out.extend(interp.iterate(x))
        return out

    def product(*its, repeat=1):
        return [tuple(x) for x in _it.product(*[interp.iterate(i) for i in its], repeat=repeat)]

    def islice(x, *a):
        return list(_it.islice(interp.iterate(x), *a))

    def zip_longest(*its, fillvalue=None):
        return [tuple(x) for x in _it.zip_longest(*[interp.iterate(i) for i in its], fillvalue=fillvalue)]
    return ModuleRef("itertools", attrs={
        "chain": ModuleRef("itertools.chain", attrs={"__call__": ("host", chain), "from_iterable": ("host", from_iterable)}),
        "product": ("host", product), "islice": ("host", islice), "zip_longest": ("host", zip_longest),
        "count": ("host", lambda *a: _it.count(*a)),
        "repeat": ("host", lambda x, *n: [x] * n[0] if n else _it.repeat(x)),
        "filterfalse": ("host", lambda fn, xs: [x for x in interp.iterate(xs)
                                               if not interp.truth(x if fn is None else interp.apply(fn, [x], {}))]),
        "takewhile": ("host", lambda fn, xs: list(_it.takewhile(lambda x: interp.truth(interp.apply(fn, [x], {})), interp.iterate(xs)))),
        "dropwhile": ("host", lambda fn, xs: list(_it.dropwhile(lambda x: interp.truth(interp.apply(fn, [x], {})), interp.iterate(xs)))),
        "starmap": ("host", lambda fn, xs: [interp.apply(fn, list(interp.iterate(x)), {}) for x in interp.iterate(xs)]),
    })


def _walk_own(fn):
    """Nodes of a function body, not descending into nested function definitions."""
    stack = list(fn.body) if isinstance(fn.body, list) else [fn.body]
    stack = [n for n in stack if not isinstance(n, (ast.FunctionDef, ast.AsyncFunctionDef))]
    while stack:
        n = stack.pop()
        yield n
        for c in ast.iter_child_nodes(n):
            if not isinstance(c, (ast.FunctionDef, ast.AsyncFunctionDef, ast.Lambda)):
                stack.append(c)


def _dotted(node):
    if isinstance(node, ast.Name):
        return node.id
    if isinstance(node, ast.Attribute):
        b = _dotted(node.value)
        return f"{b}.{node.attr}" if b else None
    return None


def _load(target):
    t = ast.parse(ast.unparse(target), mode="eval").body
    return t


# ------------------------------------------------------------------------------------------------
# usage-shape side conditions

def _is_format_operand(n, p, parents) -> bool:
    """`"...%d" % (a, n)`, `"...%s" % n`, `"...{}".format(n)`, str(n) / repr(n): the value only ends up in a message
    (the conversion may raise for some argument classes; that is what evaluating a representative per class decides)."""
    if isinstance(p, ast.Tuple):
        gp = parents.get(p)
        return isinstance(gp, ast.BinOp) and isinstance(gp.op, ast.Mod) and gp.right is p \
            and isinstance(gp.left, (ast.Constant, ast.JoinedStr))
    if isinstance(p, ast.BinOp) and isinstance(p.op, ast.Mod) and p.right is n and isinstance(p.left, (ast.Constant, ast.JoinedStr)):
        return True
    # "<template>".format(...) -- the template is a literal or a (module-level) name; the call is evaluated for a
    # representative of every argument class anyway, so a template that is not a string shows up there
    if isinstance(p, ast.Call) and isinstance(p.func, ast.Attribute) and p.func.attr == "format" \
            and isinstance(p.func.value, (ast.Constant, ast.Name)):
        return True
    if isinstance(p, ast.keyword):
        gp = parents.get(p)
        return isinstance(gp, ast.Call) and isinstance(gp.func, ast.Attribute) and gp.func.attr == "format" \
            and isinstance(gp.func.value, (ast.Constant, ast.Name))
    if isinstance(p, ast.Call) and _dotted(p.func) in ("str", "repr") and len(p.args) == 1 and p.args[0] is n:
        return True
    return False


def param_uses(fn: ast.FunctionDef, param: str):
    """Classify every occurrence of parameter `param` in fn by syntactic context.
    Returns a list of (context, node) with context in:
      'isinstance'  first argument of isinstance(param, ...)
      'compare'     direct operand of a Compare whose other operands are constant-foldable names/consts
      'format'      interpolated in an f-string
      'other'       anything else
    """
    parents = {}
    for p in ast.walk(fn):
        for c in ast.iter_child_nodes(p):
            parents[c] = p
    out = []
    for n in ast.walk(fn):
        if isinstance(n, ast.Name) and n.id == param and isinstance(n.ctx, ast.Load):
            p = parents.get(n)
            if isinstance(p, ast.Call) and _dotted(p.func) == "isinstance" and p.args and p.args[0] is n:
                out.append(("isinstance", p))
            elif isinstance(p, ast.Compare):
                out.append(("compare", p))
            elif isinstance(p, ast.FormattedValue):
                out.append(("format", p))
            elif _is_format_operand(n, p, parents):
                out.append(("format", p))
            else:
                out.append(("other", p))
        elif isinstance(n, ast.Name) and n.id == param and not isinstance(n.ctx, ast.Load):
            out.append(("other", n))
    return out
