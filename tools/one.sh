#!/bin/bash
# tools/one.sh <patch dir or file> Cxx [Cyy ...]: apply the patch to /repo, run the named checks (quick), undo the patch.
p=$1; shift
[ -d "$p" ] && p=$p/patch.diff
p=$(readlink -f "$p")
[ -z "$(git -C /repo status --porcelain --untracked-files=no)" ] || { echo "/repo dirty"; exit 2; }
git -C /repo apply "$p" || exit 2
for c in "$@"; do /verif/vcheck $c 2>&1 | grep -v "^KNOWN-FINDING" | grep -E "VIOLATION|ANALYSIS-ERROR|^  |error|Error" | head -${LINES_MAX:-8}; echo "$c rc=${PIPESTATUS[0]}"; done
git -C /repo apply -R "$p"; git -C /repo status --porcelain --untracked-files=no
