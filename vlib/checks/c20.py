"""C20 -- Position order is lexicographic and total; Range/Location equality is structural."""
import ast
import itertools
import textwrap

from ..common import Ctx, P_TYPES, P_PYUTILS, AnalysisError
from ..pymodel import TypesModule
from .. import microeval
from ..microeval import Record, Raised, Interp

META = {
    "level": "other",
    "explanation": (
        "Static. The dunder methods of Position / Range / Location are abstractly interpreted (E5). Side condition "
        "checked syntactically: inside __eq__/__gt__ the fields of both operands occur only as operands of "
        "comparisons (directly or as elements of compared tuples), so the result depends only on the relative "
        "order of the four field values; all 4^4 assignments over {0,1,2,3} realise every weak ordering of four "
        "values, hence decide ALL pairs of positions. __eq__ and __gt__ must equal tuple-lexicographic == and >; "
        "the six operators are derived with functools.total_ordering's CPython formulas (A5) and trichotomy is "
        "checked on every case; a foreign operand must yield NotImplemented from both methods (=> == False, "
        "ordering raises TypeError); the decorators must be attrs.define (keeps a hand-written __eq__) and "
        "functools.total_ordering. Range/Location __eq__ are evaluated over all component-equality cases; "
        "__repr__ f-strings are folded with symbolic field values and must give line:character, start-end, "
        "uri:range. Second target (thorough tier and quick): the method source strings the generator injects "
        "(utils.py _get_additional_methods), folded to code and analysed the same way."
        "A field compared by identity (`is`) is a violation as such; look-alike operands of another class must get NotImplemented; every position with fields in 0..2^31-1 must be constructible (C12's accept-set findings are taken over)."),
    "trusted_base": ["A5: attrs.define keeps user __eq__; functools.total_ordering derivation; reflected-operand protocol",
                     "Python tuple comparison is lexicographic"],
    "assumptions": ["line/character are ints (enforced by the uinteger validator, C12)"],
    "not_decided": [],
}

GRID = range(4)


def field_uses_only_in_comparisons(fn: ast.FunctionDef, names: set) -> str | None:
    parents = {}
    for p in ast.walk(fn):
        for c in ast.iter_child_nodes(p):
            parents[c] = p
    for n in ast.walk(fn):
        if isinstance(n, ast.Attribute) and isinstance(n.value, ast.Name) and n.value.id in names:
            p = parents.get(n)
            while isinstance(p, ast.Tuple):
                p = parents.get(p)
            if not isinstance(p, ast.Compare):
                return f"{n.value.id}.{n.attr} is used outside a comparison (line {n.lineno})"
            for op in p.ops:
                if not isinstance(op, (ast.Eq, ast.NotEq, ast.Lt, ast.LtE, ast.Gt, ast.GtE)):
                    return f"unsupported comparison operator at line {p.lineno}"
    return None


def analyse(ctx: Ctx, classes: dict, decorators: dict | None, where: str, rel: str):
    """classes: name -> {method name -> FunctionDef}"""
    it = Interp(name=rel)
    it.classes = classes
    for cn in classes:
        it.globals[cn] = microeval.ClassRef(cn)
    for cn in ("Position", "Range", "Location"):
        if cn not in classes:
            raise AnalysisError(f"{rel}: class {cn} not found ({where})")

    def P(l, c):
        return Record("Position", {"line": l, "character": c}, classes)

    def R(s, e):
        return Record("Range", {"start": s, "end": e}, classes)

    def L(u, r):
        return Record("Location", {"uri": u, "range": r}, classes)

    pos = classes["Position"]
    for m in ("__eq__", "__gt__", "__repr__"):
        ctx.check(m in pos, "method-present", f"{where}:Position.{m}", f"Position.{m} is not defined", rel)
    # operators written by hand are evaluated as written; missing ones are derived as functools.total_ordering
    # derives them from __gt__ (A5) -- which requires the decorator to be present (checked below)
    handwritten = [m for m in ("__lt__", "__le__", "__ge__", "__ne__") if m in pos]
    if "__eq__" not in pos or "__gt__" not in pos:
        return
    unproved = []
    for m in ("__eq__", "__gt__"):
        fn = pos[m]
        ctx.fn(f"{where}:Position.{m}")
        if len(fn.args.args) != 2:
            raise AnalysisError(f"{rel}: Position.{m} signature")
        names = {a.arg for a in fn.args.args}
        why = field_uses_only_in_comparisons(fn, names)
        if why:
            unproved.append(f"Position.{m}: {why}")
    for cn in ("Range", "Location"):
        fn = classes[cn].get("__eq__")
        if fn is not None and len(fn.args.args) == 2:
            why = field_uses_only_in_comparisons(fn, {a.arg for a in fn.args.args})
            if why:
                unproved.append(f"{cn}.__eq__: {why}")
    # identity comparison of field values is never structural equality: equal values held in distinct objects (a uri
    # built at run time, an int outside the small-int cache, two Position objects) compare unequal
    for cn, meths in (("Position", ("__eq__", "__gt__", "__lt__", "__le__", "__ge__", "__ne__")), ("Range", ("__eq__", "__ne__")),
                      ("Location", ("__eq__", "__ne__"))):
        for m_ in meths:
            fn_ = classes[cn].get(m_)
            if fn_ is None:
                continue
            pn = {a.arg for a in fn_.args.args}
            for node in ast.walk(fn_):
                if isinstance(node, ast.Compare) and any(isinstance(op, (ast.Is, ast.IsNot)) for op in node.ops):
                    operands = [node.left] + list(node.comparators)
                    field_ops = [o for o in operands if isinstance(o, ast.Attribute) and isinstance(o.value, ast.Name) and o.value.id in pn]
                    const_ops = [o for o in operands if isinstance(o, ast.Constant) and o.value in (None, True, False)]
                    if field_ops and not const_ops:
                        ctx.fail("field-compared-by-identity", f"{where}:{cn}.{m_}:{ast.unparse(node)[:50]}",
                                 f"{cn}.{m_} compares `{ast.unparse(node)}` by identity: equal values held in distinct objects "
                                 "compare unequal", rel, node.lineno)
    unproved = [u for u in unproved if not ("unsupported comparison operator" in u and any(
        f.rule == "field-compared-by-identity" for f in ctx.findings))]
    grid = GRID
    if unproved:
        # The side condition that lets 4^4 order-representatives decide all pairs does not hold (the fields
        # are used in arithmetic / method calls).  No proof is possible here; look for a refutation on the
        # uinteger boundary grid instead.  A concrete counter-example is a violation; none found = analysis error.
        grid = (0, 1, 2, 65535, 65536, 65537, 2 ** 31 - 2, 2 ** 31 - 1)

    def call(cls, m, *args):
        try:
            return it.call(classes[cls][m], list(args))
        except Raised as e:
            return ("raised", e.exc_name)
    n = 0
    seen_cases = set()
    for sl, sc, ol, oc in itertools.product(grid, repeat=4):
        a, b = P(sl, sc), P(ol, oc)
        eq = call("Position", "__eq__", a, b)
        gt = call("Position", "__gt__", a, b)
        weq = (sl, sc) == (ol, oc)
        wgt = (sl, sc) > (ol, oc)
        case = f"{where}:order(line {'<=>'[(sl > ol) - (sl < ol) + 1]}, char {'<=>'[(sc > oc) - (sc < oc) + 1]})"
        if unproved:
            # one witness per order case is enough
            base_case = case
            if base_case in seen_cases and not (eq is weq and gt is wgt):
                continue
            if not (eq is weq and gt is wgt):
                seen_cases.add(base_case)
            case += f":witness=({sl},{sc})vs({ol},{oc})"
        n += 1
        ctx.check(eq is weq, "position-eq-lexicographic", case,
                  f"({sl},{sc}) == ({ol},{oc}) gives {eq}, expected {weq}", rel, pos["__eq__"].lineno)
        ctx.check(gt is wgt, "position-gt-lexicographic", case,
                  f"({sl},{sc}) > ({ol},{oc}) gives {gt}, expected {wgt}", rel, pos["__gt__"].lineno,
                  sample={"a": [sl, sc], "b": [ol, oc], "eq": eq, "gt": gt})
        if isinstance(eq, bool) and isinstance(gt, bool):
            # functools.total_ordering from __gt__: lt = not gt and not eq; ge = gt or eq; le = not gt
            lt, ge, le, ne = (not gt and not eq), (gt or eq), (not gt), (not eq)
            if "__lt__" in pos:
                lt = call("Position", "__lt__", a, b)
            if "__ge__" in pos:
                ge = call("Position", "__ge__", a, b)
            if "__le__" in pos:
                le = call("Position", "__le__", a, b)
            if "__ne__" in pos:
                ne = call("Position", "__ne__", a, b)
            ctx.check([lt, eq, gt].count(True) == 1, "trichotomy", case,
                      f"lt={lt} eq={eq} gt={gt} for ({sl},{sc}) vs ({ol},{oc})", rel)
            ok = (lt == ((sl, sc) < (ol, oc)) and ge == ((sl, sc) >= (ol, oc)) and le == ((sl, sc) <= (ol, oc))
                  and ne == ((sl, sc) != (ol, oc)))
            ctx.check(ok, "derived-operators", case, "derived <, <=, >=, != disagree with the tuple order", rel)
    ctx.floor(f"{where}: position pairs", n, 256)
    # foreign operands
    # look-alikes: objects of another class that carry the same attribute names with equal values (a namedtuple, a
    # SimpleNamespace, CallHierarchyItem with its uri/range): equality is by class, not by shape
    lookalikes = (("lookalike-position", Record("Other", {"line": 1, "character": 2}, classes)),
                  ("lookalike-range", Record("Other", {"start": P(0, 0), "end": P(1, 1)}, classes)),
                  ("lookalike-location", Record("Other", {"uri": "u", "range": R(P(0, 0), P(1, 1))}, classes)))
    for label, other in (("foreign-object", Record("Other", {}, classes)), ("int", 5), ("none", None),
                         ("tuple", (1, 2)), ("range", R(P(0, 0), P(0, 1)))) + lookalikes:
        for cls, meths, mk in (("Position", tuple(["__eq__", "__gt__"] + [h for h in handwritten if h != "__ne__"]), P(1, 2)),
                               ("Range", ("__eq__",), R(P(0, 0), P(1, 1))),
                               ("Location", ("__eq__",), L("u", R(P(0, 0), P(1, 1))))):
            if cls == "Range" and label == "range":
                continue
            for m in meths:
                if m not in classes[cls]:
                    ctx.fail("method-present", f"{where}:{cls}.{m}", "not defined", rel)
                    continue
                r = call(cls, m, mk, other)
                ctx.check(r is NotImplemented, "foreign-operand-notimplemented", f"{where}:{cls}.{m}:{label}",
                          f"{cls}.{m}(<{label}>) gives {r!r}; NotImplemented is required so that == is False and "
                          "ordering raises TypeError", rel, classes[cls][m].lineno)
    # Range / Location equality
    ps = [P(0, 0), P(0, 1)]
    for s1, e1, s2, e2 in itertools.product(ps, repeat=4):
        r = call("Range", "__eq__", R(s1, e1), R(s2, e2))
        want = (s1.fields == s2.fields) and (e1.fields == e2.fields)
        ctx.check(r is want, "range-eq-structural",
                  f"{where}:start{'==' if s1.fields == s2.fields else '!='} end{'==' if e1.fields == e2.fields else '!='}",
                  f"Range equality gives {r}, expected {want}", rel)
    rs = [R(P(0, 0), P(0, 1)), R(P(0, 0), P(0, 2))]
    uris = ["a", "b"] if not unproved else ["a", "A", "b", "file:///c%3A/x", "file:///C%3A/x", "file:///c:/x", "file:///c%3a/x", " a", "a ", "a/", "a%20", "a+"]
    for u1, r1, u2, r2 in itertools.product(uris, rs, uris, rs):
        r = call("Location", "__eq__", L(u1, r1), L(u2, r2))
        want = u1 == u2 and r1.fields["end"].fields == r2.fields["end"].fields
        ctx.check(r is want, "location-eq-structural",
                  f"{where}:uri{'==' if u1 == u2 else '!='} range{'==' if r1 is r2 or r1.fields['end'].fields == r2.fields['end'].fields else '!='}",
                  f"Location equality gives {r}, expected {want}", rel)
    # repr
    p1, p2 = P(3, 7), P(41, 9)
    ctx.check(call("Position", "__repr__", p1) == "3:7", "repr", f"{where}:Position",
              f"repr(Position(3, 7)) folds to {call('Position', '__repr__', p1)!r}", rel)
    ctx.check(call("Range", "__repr__", R(p1, p2)) == "3:7-41:9", "repr", f"{where}:Range",
              f"repr(Range) folds to {call('Range', '__repr__', R(p1, p2))!r}", rel)
    ctx.check(call("Location", "__repr__", L("file:///x.py", R(p1, p2))) == "file:///x.py:3:7-41:9", "repr",
              f"{where}:Location", f"repr(Location) folds to {call('Location', '__repr__', L('file:///x.py', R(p1, p2)))!r}", rel)
    if unproved:
        mine = [f for f in ctx.findings if f.construct.startswith(where)]
        if not mine:
            raise AnalysisError(f"{rel}: {'; '.join(unproved)}: the finite-representative argument does not apply and the "
                                "boundary grid found no counter-example; the property is undecided for this code")
    if decorators is not None:
        d = decorators
        all_by_hand = all(m in pos for m in ("__lt__", "__le__", "__gt__", "__ge__"))
        ctx.check("functools.total_ordering" in d["Position"] or all_by_hand, "decorators", f"{where}:Position:total_ordering",
                  "Position lacks @functools.total_ordering and does not define all of <, <=, >, >= itself", rel)
        for cn in ("Position", "Range", "Location"):
            ok = any(x == "attrs.define" for x in d[cn])
            ctx.check(ok, "decorators", f"{where}:{cn}:attrs.define",
                      f"{cn} is decorated {d[cn]}: only a plain @attrs.define is known to keep the hand-written "
                      "__eq__ and to leave ordering off", rel)


def run(ctx: Ctx):
    t = TypesModule(ctx.src)
    classes, decos = {}, {}
    for cn in ("Position", "Range", "Location"):
        c = t.classes.get(cn)
        if c is None:
            raise AnalysisError(f"{P_TYPES}: class {cn} not found")
        classes[cn] = dict(c.methods)
        decos[cn] = list(c.decorators)
    analyse(ctx, classes, decos, "types.py", P_TYPES)
    # second target: the generator's injected method sources
    try:
        utree = ast.parse(ctx.src.text(P_PYUTILS))
    except SyntaxError as e:
        raise AnalysisError(f"{P_PYUTILS}: {e}")
    gen = None
    for node in ast.walk(utree):
        if isinstance(node, ast.FunctionDef) and node.name == "_get_additional_methods":
            gen = node
    if gen is None:
        raise AnalysisError(f"{P_PYUTILS}: _get_additional_methods not found")
    # module-level constants / helper functions of utils.py are available to the fold (a method table hoisted out of
    # the function, helpers split off it)
    git = Interp(utree, name=P_PYUTILS)
    gclasses = {}
    for cn in ("Position", "Range", "Location"):
        try:
            lines = git.call(gen, [None, cn])
        except Raised as e:
            raise AnalysisError(f"{P_PYUTILS}: _get_additional_methods({cn!r}) raises {e.exc_name}")
        if not isinstance(lines, list) or not all(isinstance(x, str) for x in lines):
            raise AnalysisError(f"{P_PYUTILS}: _get_additional_methods({cn!r}) does not fold to a list of lines")
        src = f"class {cn}:\n" + textwrap.indent("\n".join(lines), "    ")
        try:
            cls = ast.parse(src).body[0]
        except SyntaxError as e:
            ctx.fail("generator-methods-parse", f"utils.py:{cn}", f"injected methods do not parse: {e}", P_PYUTILS, gen.lineno)
            continue
        gclasses[cn] = {m.name: m for m in cls.body if isinstance(m, ast.FunctionDef)}
    if len(gclasses) == 3:
        analyse(ctx, gclasses, None, "utils.py", P_PYUTILS)
        # the generator also has to emit the decorator
        emits = any(isinstance(n, ast.Constant) and isinstance(n.value, str) and "functools.total_ordering" in n.value
                    for n in ast.walk(utree))
        ctx.check(emits, "decorators", "utils.py:Position:total_ordering",
                  "the generator no longer emits @functools.total_ordering for Position", P_PYUTILS)


_run_before_ranges = run


def run(ctx: Ctx):  # noqa: F811
    _run_before_ranges(ctx)
    # the order is claimed for all positions with line / character in 0..2^31-1: every such value must be constructible (accept set of uinteger_validator, decided in C12)
    from ..common import Ctx as _Ctx, AnalysisError as _AE
    from . import c12 as _c12
    sub = _Ctx(ctx.prop, ctx.tier, ctx.seed, ctx.src, quiet=True)
    try:
        _c12._run_validators(sub)
    except _AE:
        pass
    hits = [f for f in sub.findings if f.rule == "accept-in-range" and "uinteger" in f.construct]
    for f in hits:
        ctx.fail("position-domain-complete", f.construct, f.message, f.file, f.line)
    if not hits:
        ctx.ok("position-domain-complete")
