"""C12 -- LSP integer ranges are enforced exactly at construction and parse time."""
import ast

from ..common import Ctx, P_VALIDATORS, P_TYPES, AnalysisError
from .. import microeval
from ..microeval import Record, Raised
from . import _imgbase

META = {
    "level": "other",
    "explanation": (
        "Static. validators.py: module constants are folded; each validator is abstractly interpreted (E5) on the "
        "comparison partition induced by the constants it compares `value` with, times the abstract classes "
        "{int, bool, float, str, None, list}. The side condition that makes one representative per cell decide "
        "ALL ints is checked syntactically: `value` occurs only as isinstance() operand, as a direct operand of "
        "comparisons whose other operands fold to integer constants, and inside the error f-string. The accept set "
        "must be exactly {int v : MIN <= v <= MAX} with MIN/MAX = -2^31 / 2^31-1 (integer) and 0 / 2^31-1 (uinteger) "
        "stated independently here; every cell outside it must end in a ValueError whose message names class and "
        "attribute (also when `attribute` is a plain string), never in TypeError or a silent accept, however the "
        "function is written (guard clauses, helpers, early returns); the verdict does not depend on earlier calls "
        "(no memo keyed on equality: 9 == 9.0 == True would share an entry); class-level structure hooks of "
        "integer-carrying classes give the same verdict as the constructor (entry points agree). types.py: every attribute whose metamodel type is directly integer / uinteger carries "
        "exactly that validator (optional-wrapped when optional) and no other attribute does. Same verdict at "
        "constructor and converter follows from axiom A3 (the generated structure function calls the constructor)."),
    "trusted_base": ["A3", "Python int comparison semantics", "attrs runs field validators in __init__"],
    "assumptions": [],
    "not_decided": [],
}

ORACLE = {"integer_validator": (-(2 ** 31), 2 ** 31 - 1), "uinteger_validator": (0, 2 ** 31 - 1)}


def run(ctx: Ctx):
    try:
        tree = ast.parse(ctx.src.text(P_VALIDATORS))
    except SyntaxError as e:
        raise AnalysisError(f"{P_VALIDATORS}: {e}")
    it = microeval.Interp(tree, name=P_VALIDATORS)
    # the verdict for a value must not depend on which values were validated before: no memoisation, no module-level
    # container filled by the validators (functools caches key on equality, so 9, 9.0 and True/1 share an entry)
    from ..genlint import Module as _Module, cross_run_state as _crs

    class _Idx:
        modules = {P_VALIDATORS: _Module(P_VALIDATORS, ctx.src.text(P_VALIDATORS))}
    _n, hits = _crs(_Idx)
    for rel, construct, msg, ln in hits:
        ctx.fail("verdict-is-history-free", construct,
                 msg.replace("results computed for an earlier model are reused",
                             "the verdict cached for an equal value of another type (9.0 / True) is reused for the int")
                    .replace("what an earlier run (another model, in the same process) left there changes this run's output",
                             "earlier validations change later verdicts"), rel, ln)
    if not hits:
        ctx.ok("verdict-is-history-free")
    for vname, (lo, hi) in ORACLE.items():
        clo = it.globals.get(vname)
        if not isinstance(clo, microeval.Closure):
            raise AnalysisError(f"{P_VALIDATORS}: {vname} not found")
        fn = clo.node
        ctx.fn(f"validators.py:{vname}")
        if len(fn.args.args) != 3:
            raise AnalysisError(f"{P_VALIDATORS}: {vname} signature changed")
        pinst, pattr, pval = (a.arg for a in fn.args.args)
        # ---- usage shape of `value`
        consts = set()
        module_fns = {st.name: st for st in tree.body if isinstance(st, ast.FunctionDef)}

        def uses_deep(f, param, depth=0, cenv=None):
            """param_uses, following the value into helper functions of the module it is handed to; every use comes with
            the name the value has there and the constants the helper's other parameters are bound to at that call"""
            out = []
            cenv = cenv or {}
            for kind, node in microeval.param_uses(f, param):
                if kind == "other" and isinstance(node, ast.Call) and isinstance(node.func, ast.Name) \
                        and node.func.id in module_fns and depth < 3:
                    callee = module_fns[node.func.id]
                    idxs = [i_ for i_, a in enumerate(node.args) if isinstance(a, ast.Name) and a.id == param]
                    kws = [k.arg for k in node.keywords if isinstance(k.value, ast.Name) and k.value.id == param]
                    names = [callee.args.args[i_].arg for i_ in idxs if i_ < len(callee.args.args)] + kws
                    if names and len(names) == len(idxs) + len(kws):
                        # constants handed to the helper's other parameters (bounds passed down by the validator)
                        env2 = {}
                        prm = [a.arg for a in callee.args.args]
                        for pn, a in list(zip(prm, node.args)) + [(k.arg, k.value) for k in node.keywords if k.arg]:
                            if pn in names:
                                continue
                            try:
                                env2[pn] = it.eval(a, dict(cenv))
                            except (AnalysisError, Raised):
                                pass
                        for nm in names:
                            out.extend(uses_deep(callee, nm, depth + 1, env2))
                        continue
                out.append((kind, node, param, cenv))
            return out
        side_condition_broken = None
        for kind, node, vname_here, cenv in uses_deep(fn, pval):
            if kind == "compare":
                for op_node in [node.left] + node.comparators:
                    if isinstance(op_node, ast.Name) and op_node.id == vname_here:
                        continue
                    try:
                        c = it.eval(op_node, dict(cenv))
                    except (AnalysisError, Raised):
                        raise AnalysisError(f"{P_VALIDATORS}:{node.lineno}: `{pval}` is compared with a non-constant")
                    if not isinstance(c, int) or isinstance(c, bool):
                        raise AnalysisError(f"{P_VALIDATORS}:{node.lineno}: `{pval}` is compared with a non-integer")
                    consts.add(c)
                for op in node.ops:
                    if not isinstance(op, (ast.Lt, ast.LtE, ast.Gt, ast.GtE, ast.Eq, ast.NotEq)):
                        raise AnalysisError(f"{P_VALIDATORS}:{node.lineno}: unsupported comparison on `{pval}`")
            elif kind in ("isinstance", "format"):
                pass
            elif isinstance(node, ast.Call) and isinstance(node.func, ast.Name) and node.func.id == "type" and len(node.args) == 1 \
                    and isinstance(node.args[0], ast.Name) and node.args[0].id == vname_here:
                # `type(value) is int`: a test of the exact class; like isinstance it does not look at the magnitude (the
                # int-subclass representative below decides what it does to IntEnum members)
                pass
            else:
                # the side condition that lets one representative per cell decide ALL ints does not hold: the cells below
                # (every constant the function mentions +-1, powers of two up to 2^63, 10^30) are still evaluated -- a wrong
                # verdict on one of them is a violation; if none is found the property is undecided (analysis error)
                side_condition_broken = (f"{P_VALIDATORS}:{getattr(node, 'lineno', '?')}: `{pval}` is used outside "
                                         "isinstance/comparison/format contexts; the partition argument does not apply")
                for sub in ast.walk(fn):
                    if isinstance(sub, ast.Constant) and isinstance(sub.value, int) and not isinstance(sub.value, bool):
                        consts.add(sub.value)
                    elif isinstance(sub, ast.BinOp):
                        try:
                            cv = it.eval(sub, {})
                            if isinstance(cv, int) and not isinstance(cv, bool):
                                consts.add(cv)
                        except (AnalysisError, Raised):
                            pass
        if side_condition_broken is None:
            ctx.floor(f"{vname}: constants compared with value", len(consts), 1)
        # ---- representatives
        reps = set()
        for c in sorted(consts | {lo, hi, 0}):
            reps |= {c - 1, c, c + 1}
        reps |= {-(2 ** 63) - 1, -(2 ** 63), -(2 ** 32), 2 ** 32, 2 ** 63, 2 ** 63 + 1, 10 ** 30, -(10 ** 30)}
        for e_ in (15, 16, 30, 31, 32, 33, 62, 63, 64):
            reps |= {2 ** e_ - 1, 2 ** e_, 2 ** e_ + 1, -(2 ** e_) - 1, -(2 ** e_), -(2 ** e_) + 1, 3 * 2 ** e_, -3 * 2 ** e_}
        inst = Record("SomeClass", {})
        attr_variants = [Record("Attribute", {"name": "some_attr"}), "some_attr"]
        for v in sorted(reps):
            want = lo <= v <= hi
            for av in attr_variants:
                try:
                    r = it.call(fn, [inst, av, v])
                    got = ("return", r)
                except Raised as e:
                    got = ("raise", e.exc_name, e.exc_args)
                cell = f"{vname}:value={'min' if v == lo else 'max' if v == hi else v if abs(v) < 10 else hex(v)}" \
                       f":attr={'obj' if isinstance(av, Record) else 'str'}"
                if want:
                    ctx.check(got == ("return", True), "accept-in-range", cell,
                              f"{vname}({v}) should return True, got {got}", P_VALIDATORS, fn.lineno,
                              sample={"validator": vname, "value": v, "outcome": "accept"})
                else:
                    ok = got[0] == "raise" and got[1] == "ValueError"
                    ctx.check(ok, "reject-out-of-range", cell,
                              f"{vname}({v}) should raise ValueError, got {got[:2]}", P_VALIDATORS, fn.lineno,
                              sample={"validator": vname, "value": v, "outcome": "reject"})
                    if ok:
                        msg = " ".join(str(a) for a in got[2])
                        ctx.check("SomeClass" in msg and "some_attr" in msg, "error-names-class-and-attribute", cell,
                                  f"error message {msg!r} does not name class and attribute", P_VALIDATORS, fn.lineno)
        # ---- an int that is an instance of a subclass of int (an IntEnum member such as ErrorCodes.InvalidParams, which the
        # package itself passes as ResponseError.code): it is an int in range, so it is accepted
        class _IntSub(int):
            pass
        for v in (_IntSub(5), _IntSub(hi)):
            for av in attr_variants:
                try:
                    got = ("return", it.call(fn, [inst, av, v]))
                except Raised as e:
                    got = ("raise", e.exc_name)
                ctx.check(got == ("return", True), "accept-in-range",
                          f"{vname}:value=int-subclass({int(v) if v != hi else 'max'}):attr={'obj' if isinstance(av, Record) else 'str'}",
                          f"{vname}(<instance of an int subclass, value {int(v)}>) should return True, got {got}: integer enumeration "
                          "members are ints in range", P_VALIDATORS, fn.lineno)
        # ---- non-int arguments: True or ValueError, never another exception
        for label, v in (("float", 1.5), ("float-int", 3.0), ("str", "12"), ("none", None), ("list", [1]),
                         ("bool-true", True), ("bool-false", False), ("nan", float("nan"))):
            for av in attr_variants:
                emsg = None
                try:
                    r = it.call(fn, [inst, av, v])
                    got = ("return", r)
                except Raised as e:
                    got = ("raise", e.exc_name)
                    emsg = " ".join(str(a) for a in e.exc_args)
                if got == ("raise", "ValueError"):
                    ctx.check("SomeClass" in emsg and "some_attr" in emsg, "error-names-class-and-attribute",
                              f"{vname}:{label}:attr={'obj' if isinstance(av, Record) else 'str'}",
                              f"{vname}({v!r}) raises ValueError({emsg!r}), which does not name class and attribute",
                              P_VALIDATORS, fn.lineno)
                ok = got == ("return", True) or got == ("raise", "ValueError")
                if label in ("float", "float-int", "str", "none", "list", "nan"):
                    ok = got == ("raise", "ValueError")
                ctx.check(ok, "total-on-any-argument", f"{vname}:{label}:attr={'obj' if isinstance(av, Record) else 'str'}",
                          f"{vname}({v!r}) gives {got}; expected ValueError" +
                          (" or True" if label.startswith("bool") else ""), P_VALIDATORS, fn.lineno)
        if side_condition_broken is not None:
            raise AnalysisError(side_condition_broken)
        # exits are decided semantically above: every representative and every non-int argument ends in
        # `return True` or in ValueError (a syntactic "raise ValueError(...)" rule was dropped: it fired on a
        # behaviour-preserving refactoring that builds the exception in a helper)

    # ---- attachment in types.py
    im = _imgbase.image(ctx)
    n_int = 0
    paired = {id(p.field): p for p in im.pairs}
    for c in im.types.attrs_classes():
        for f in c.fields:
            p = paired.get(id(f))
            v = f.validator or ""
            has_int = "integer" in v.replace("uinteger", "") and "instance_of" not in v
            has_uint = "uinteger" in v
            if p is not None and p.prop.type.get("kind") == "base" and p.prop.type["name"] in ("integer", "uinteger"):
                n_int += 1
                want = p.prop.type["name"]
                exp = f"optional({want})" if p.prop.py_optional else want
                ctx.check(f.validator == exp, "int-field-has-validator", f"{c.name}.{f.name}",
                          f"{want} property must carry validator {exp}, found {f.validator}", P_TYPES, f.lineno,
                          sample={"attr": f"{c.name}.{f.name}", "validator": f.validator})
            elif c.name == "ResponseError" and f.name == "code":
                ctx.check(f.validator == "integer", "int-field-has-validator", "ResponseError.code",
                          f"ResponseError.code must carry the integer validator, found {f.validator}", P_TYPES, f.lineno)
            elif has_int or has_uint:
                ctx.fail("validator-only-on-int-fields", f"{c.name}.{f.name}",
                         f"carries {f.validator} although its property is not integer/uinteger typed", P_TYPES, f.lineno)
    ctx.floor("integer-typed attributes", n_int, 20)


# ------------------------------------------------------------------------------------------------
# "same verdict at both entry points" rests on axiom A3 (the generated structure function passes the raw
# value to the constructor).  A class-keyed hook replaces that function: fold it on boundary inputs and compare
# its verdict with the constructor's; if it cannot be folded the clause is undecided (analysis error).

def _entry_points_agree(ctx: Ctx):
    from ..pymodel import NONE, show, MISSING
    from ..microeval import Interp, Record, Raised, ModuleRef, ClassRef
    im = _imgbase.image(ctx)
    t, h = im.types, im.hooks
    vtree = ast.parse(ctx.src.text(P_VALIDATORS))
    vit = Interp(vtree, name=P_VALIDATORS)
    n = 0
    # a hook registered for `int` itself structures every integer-typed position (A1: single dispatch on the class): the
    # value the constructor sees is what the hook returns, so for every int in the spec range it has to hand back that very
    # int, and outside the range it may only raise or pass the value on unchanged (the validator rejects it then)
    int_reg = h.class_hooks().get(("prim", "int"))
    if int_reg is not None:
        n += 1
        it0 = Interp(name=h.rel, extra_globals={h.types_alias: ModuleRef("types", attrs={"validators": ModuleRef("validators", interp=vit)}),
                                                "validators": ModuleRef("validators", interp=vit)})
        # module-level names of the module the hook lives in (converters.py or _hooks.py)
        for src_rel in (h.rel, "packages/python/lsprotocol/converters.py"):
            try:
                tree_ = ast.parse(ctx.src.text(src_rel))
            except (SyntaxError, AnalysisError):
                continue
            for st_ in tree_.body:
                if isinstance(st_, ast.FunctionDef):
                    from ..microeval import Closure as _Cl
                    it0.globals.setdefault(st_.name, _Cl(st_, None, it0))
                elif isinstance(st_, ast.ImportFrom) and st_.module and st_.module.endswith("validators"):
                    for a_ in st_.names:
                        if a_.name in vit.globals:
                            it0.globals.setdefault(a_.asname or a_.name, vit.globals[a_.name])
        lo32, hi32 = -(2 ** 31), 2 ** 31 - 1
        for v in (lo32, lo32 + 1, -1, 0, 1, hi32 - 1, hi32, lo32 - 1, hi32 + 1, 2 ** 32, -(2 ** 32), 2 ** 63):
            try:
                r = it0.call(int_reg.hook, [v, int], closure_env=getattr(int_reg.closure, "env", None) or {int_reg.conv_name: Record("Converter", {})})
                got = ("return", r)
            except Raised as e:
                got = ("raise", e.exc_name)
            inside = lo32 <= v <= hi32
            ok = got == ("return", v) or (not inside and got[0] == "raise")
            ctx.check(ok, "entry-points-agree", f"hook={int_reg.hook_name} type=int input={v}",
                      f"the structure hook {int_reg.hook_name} registered for int gives {got} for {v}: the constructor "
                      f"{'accepts' if inside else 'rejects'} {v}, the converter no longer does the same", h.rel, int_reg.lineno,
                      sample={"hook": int_reg.hook_name, "input": v, "converter": str(got)})
    for key, reg in h.class_hooks().items():
        if key == NONE or key[0] in ("opaque", "prim"):
            continue
        n += 1
        if key[0] != "cls":
            raise AnalysisError(f"{h.rel}:{reg.lineno}: a structure hook is registered for {show(key)}; the enum/validator "
                                "verdict at the converter entry point is no longer given by axiom A1/A3")
        c = t.classes[key[1]]
        int_fields = [f for f in c.fields if f.validator in ("integer", "uinteger")]
        simple = all((f.validator in ("integer", "uinteger", "instance_of(str)", "instance_of(bool)")) and not f.has_default
                     for f in c.fields)
        if not int_fields:
            continue
        if not simple or not isinstance(reg.hook, ast.FunctionDef):
            raise AnalysisError(f"{h.rel}:{reg.lineno}: a hand-written structure hook replaces the generated function of "
                                f"{c.name}, which has integer-validated fields; equality of verdicts is not decidable here")

        def ctor_for(cls):
            def ctor(*a, **kw):
                if a:
                    raise AnalysisError("positional constructor call in a class hook")
                vals = {}
                for f in cls.fields:
                    if f.name in kw:
                        v = kw[f.name]
                    elif f.has_default:
                        v = f.default
                    else:
                        raise Raised("TypeError", (f"missing {f.name}",))
                    inst = Record(cls.name, {})
                    if f.validator in ("integer", "uinteger"):
                        vit.globals[f"{f.validator}_validator"](inst, Record("Attribute", {"name": f.name}), v)
                    elif f.validator == "instance_of(str)" and not isinstance(v, str):
                        raise Raised("TypeError", ("not a str",))
                    elif f.validator == "instance_of(bool)" and not isinstance(v, bool):
                        raise Raised("TypeError", ("not a bool",))
                    vals[f.name] = v
                extra = set(kw) - {f.name for f in cls.fields}
                if extra:
                    raise Raised("TypeError", (f"unexpected keyword {sorted(extra)}",))
                return Record(cls.name, vals)
            return ("host", ctor)
        types_mod = ModuleRef("types", attrs={**{cn: ctor_for(cc) for cn, cc in t.classes.items() if cc.kind == "attrs"},
                                              "validators": ModuleRef("validators", interp=vit)})
        # the hook sees the module-level constants and helpers of _hooks.py
        it = Interp(h.tree, name=h.rel, extra_globals={h.types_alias: types_mod, "validators": ModuleRef("validators", interp=vit)})
        it.globals[h.types_alias] = types_mod
        lo, hi = {"integer": (-(2 ** 31), 2 ** 31 - 1), "uinteger": (0, 2 ** 31 - 1)}, None
        import itertools
        grids = []
        for f in c.fields:
            if f.validator in ("integer", "uinteger"):
                a, b = lo[f.validator]
                grids.append([a - 1, a, 0, 1, b, b + 1, 2 ** 40])
            elif f.validator == "instance_of(str)":
                grids.append(["x"])
            else:
                grids.append([True])
        ctor = ctor_for(c)[1]
        for combo in itertools.product(*grids):
            raw = {im.camel(f.name): v for f, v in zip(c.fields, combo)}
            kw = {f.name: v for f, v in zip(c.fields, combo)}
            try:
                ctor(**kw)
                direct = "accept"
            except Raised:
                direct = "reject"
            try:
                r = it.call(reg.hook, [raw, None], closure_env={reg.conv_name: Record("Converter", {})})
                via = "accept"
                if isinstance(r, Record) and r.fields != kw:
                    via = f"accept-as-{r.fields}"
            except Raised:
                via = "reject"
            ctx.check(direct == via, "entry-points-agree", f"hook={reg.hook_name} class={c.name} input={raw}",
                      f"the constructor would {direct} {kw} but the converter (through the hand-written hook "
                      f"{reg.hook_name} registered for {c.name}) gives {via}", h.rel, reg.lineno,
                      sample={"class": c.name, "input": raw, "constructor": direct, "converter": via})
    if n == 0:
        ctx.ok("entry-points-agree", {"class_keyed_hooks": 0, "argument": "axiom A3 applies to every attrs class"})


_run_validators = run


def run(ctx: Ctx):  # noqa: F811
    _run_validators(ctx)
    _entry_points_agree(ctx)
