"""Union dispatch sites of the generated package and the obligations of their handlers.

`SiteAnalysis(src).run()` discovers every reachable dispatch site (A1), evaluates its handler on every
alternative x world (E4) and records `Outcome`s with categorised issues:

  unsupported   no handler / handler raises or falls through / returns None for a non-null value
  unsound       the chosen class does not accept every valid value of the alternative in that world
  miscoerce     as unsound, and the mismatch is one cattrs coerces silently instead of raising
  illtyped      the returned value is not an instance of a member of the union (raw dict, wrong class)
  lossy         a declared key present in the value is not declared by the chosen class
  probe         the handler probes a key that no alternative at that position declares
  mapiter       the handler iterates / measures / compares a mapping
  foreign       the handler uses a converter other than the one it was registered on

C01, C03, C13, C14, C15 and C19 each read the categories that are theirs.
"""
from __future__ import annotations

import ast

from .common import AnalysisError, Sources, P_HOOKS, P_TYPES
from .pymodel import TypesModule, NONE, ANY, members, is_optional, strip_none, mk_union, show, walk_ty
from .hooks import HooksModule
from .metamodel import MetaModel
from .hooktree import Dispatcher, Shapes, HookEval, World, Fork, Leaf, BOTH
from . import microeval


class Outcome:
    def __init__(self, site, handler, alt, world, leaf, issues):
        self.site = site
        self.handler = handler
        self.alt = alt
        self.world = world
        self.leaf = leaf
        self.issues = issues     # list of (category, message)

    def as_sample(self):
        return {"site": self.site.label(), "handler": self.handler, "alt": show(self.alt),
                "world": self.world, "leaf": self.leaf, "issues": self.issues}


class Site:
    def __init__(self, ty, with_none: bool):
        self.ty = ty
        self.with_none = with_none
        self.origins: list[str] = []
        self.handler_kind = None

    def label(self):
        return f"{show(self.ty)} @ {self.origins[0] if self.origins else '?'}" + \
            (f" (+{len(self.origins) - 1} more)" if len(self.origins) > 1 else "")


class _TH:
    def __init__(self, types, hooks):
        self.types, self.hooks = types, hooks


def fold_camel(hooks: HooksModule):
    """attr-name -> wire-name as the package computes it.  First choice: E5-fold the helper `_to_camel_case` out of
    _hooks.py (works for any name, also ones no class has).  If the helper was refactored away, fall back to what the
    structure factory actually hands cattrs as `rename=` for each attribute (semantic folding of the factories)."""
    fn = hooks.functions.get("_register_custom_property_hooks")
    camel = None
    for st in ast.walk(hooks.tree):
        if isinstance(st, ast.FunctionDef) and st.name == "_to_camel_case":
            camel = st
    if fn is None or camel is None:
        from . import special
        ff = special.fold_factories(_TH(hooks.types, hooks))
        by_attr: dict[str, set] = {}
        for (cname, attr), (rename, _omit) in ff.overrides["structure"].items():
            by_attr.setdefault(attr, set()).add(rename)

        def g(name: str) -> str:
            vals = by_attr.get(name)
            if not vals or len(vals) != 1 or not isinstance(next(iter(vals)), str):
                raise AnalysisError(f"{hooks.rel}: no unique wire name for attribute {name!r} "
                                    f"(the structure factory gives {sorted(map(repr, vals or []))})")
            return next(iter(vals))
        return g
    it = microeval.Interp(name=hooks.rel)
    for k_, v_ in microeval.std_modules(it).items():
        it.globals.setdefault(k_, v_)
    cache: dict[str, str] = {}

    def f(name: str) -> str:
        if name not in cache:
            try:
                r = it.call(camel, [name])
            except microeval.Raised as e:
                raise AnalysisError(f"{hooks.rel}: _to_camel_case({name!r}) raises {e.exc_name}")
            if not isinstance(r, str):
                raise AnalysisError(f"{hooks.rel}: _to_camel_case({name!r}) is not a string")
            cache[name] = r
        return cache[name]
    return f


class SiteAnalysis:
    def __init__(self, src: Sources):
        self.src = src
        self.types = TypesModule(src)
        self.hooks = HooksModule(src, self.types)
        self.mm = MetaModel(src)
        self.camel = fold_camel(self.hooks)
        self.shapes = Shapes(self.types, self.mm, self.camel)
        self.disp = Dispatcher(self.types, self.hooks)
        self.sites: dict[tuple, Site] = {}
        self.outcomes: list[Outcome] = []
        self.site_issues: list[tuple[Site, str, str]] = []   # (site, category, message)
        self.hook_evals = 0
        self.worlds = 0
        self.used_registrations: set[int] = set()
        self.native_tables: dict[str, list] = {}
        self.imprecise: list = []

    # ---------------------------------------------------------------------------------- discovery
    def discover(self):
        for c in self.types.attrs_classes():
            mm_props = None
            if c.name in self.mm.structures and c.name != "LSPObject":
                mm_props = self.mm.props_of(c.name)
            for f in c.fields:
                with_none = True
                if mm_props is not None:
                    p = mm_props.get(self.camel(f.name))
                    if p is not None:
                        with_none = p.null_admitting
                elif f.name == "params":
                    with_none = False
                self._visit(f.resolved, f"{c.name}.{f.name}", with_none)
        return self.sites

    def _visit(self, ty, origin, with_none=True, depth=0):
        if depth > 12:
            return
        k = ty[0]
        if k == "union":
            h = self.disp.handler(ty)
            if h[0] == "optional":
                # Optional[X]: cattrs handles None itself and dispatches on X
                self._visit(h[1], origin, True, depth + 1)
                return
            key = (ty, with_none)
            s = self.sites.get(key)
            if s is None:
                s = Site(ty, with_none)
                s.handler_kind = self.disp.handler_kind(ty)
                self.sites[key] = s
            if origin not in s.origins:
                s.origins.append(origin)
            if h[0] == "native":
                return
            return
        if k in ("seq", "list"):
            h = self.disp.handler(ty)
            if h[0] == "hook":
                # a hook that takes the whole array (registered with a predicate on the sequence type): the array type is
                # the site, its element alternatives are judged through the hook's element expression
                key = (ty, with_none)
                s = self.sites.get(key)
                if s is None:
                    s = Site(ty, with_none)
                    s.handler_kind = self.disp.handler_kind(ty)
                    self.sites[key] = s
                if origin not in s.origins:
                    s.origins.append(origin)
                return
            self._visit(ty[1], origin + "[]", True, depth + 1)
        elif k == "map":
            self._visit(ty[1], origin + "{key}", True, depth + 1)
            self._visit(ty[2], origin + "{}", True, depth + 1)
        elif k == "tup":
            for i, x in enumerate(ty[1]):
                self._visit(x, origin + f"({i})", True, depth + 1)
        elif k == "fwd":
            key = (ty, True)
            s = self.sites.setdefault(key, Site(ty, True))
            s.handler_kind = "unsupported"
            if origin not in s.origins:
                s.origins.append(origin)

    # ---------------------------------------------------------------------------------- native A2
    def native_variants(self, ty):
        """All admissible disambiguation tables of cattrs' create_default_dis_func for a union of
        attrs classes -> list of (table [(wire key, class name)], fallback class or None), or
        raises ('typeerror', msg)."""
        order = None
        for c in self.types.attrs_classes():
            for f in c.fields:
                for sub in walk_ty(f.resolved):
                    if sub == ty:
                        # need typing's argument order: recover it from the declaration
                        order = self._order_of(f, ty)
                        if order:
                            break
                if order:
                    break
            if order:
                break
        if order is None:
            order = sorted((m for m in members(ty)), key=repr)
        classes = [m[1] for m in order if m != NONE]
        if len(classes) < 2:
            raise AnalysisError(f"native union with fewer than two classes: {show(ty)}")
        # literal discriminators
        lit_common = None
        for cn in classes:
            lits = {f.name for f in self.types.classes[cn].fields if f.resolved[0] == "lit"}
            lit_common = lits if lit_common is None else lit_common & lits
        if lit_common:
            raise AnalysisError(f"native union {show(ty)} has common Literal-typed fields {sorted(lit_common)}: "
                                "cattrs' literal discriminator pass is not modelled")
        info = []
        for cn in classes:
            c = self.types.classes[cn]
            names = {self.camel(f.name): f for f in c.fields}
            info.append((cn, names))
        info.sort(key=lambda x: len(x[1]), reverse=True)   # stable, like list.sort
        variants = [([], None, set())]   # (table, fallback, assigned classes)
        for cn, names in info:
            new = []
            for table, fallback, assigned in variants:
                others = [o for o in info if o[0] != cn and o[0] not in assigned]
                other_reqs = set()
                for _, on in others:
                    other_reqs |= set(on)
                uniq = set(names) - other_reqs
                cands = sorted(k for k in uniq if not names[k].has_default)
                if not cands:
                    if fallback is None:
                        new.append((table, cn, assigned))
                    else:
                        new.append(("typeerror", f"{cn} has no usable non-default attributes "
                                                 f"(fallback already taken by {fallback})", None))
                    continue
                for k in cands:
                    new.append((table + [(k, cn)], fallback, assigned | {cn}))
            variants = []
            for v in new:
                if v[0] == "typeerror":
                    return [v]
                variants.append(v)
            if len(variants) > 256:
                raise AnalysisError(f"too many disambiguator variants for {show(ty)}")
        return [(t, fb) for t, fb, _ in variants]

    def _order_of(self, f, ty):
        def rec(t_def, order_def):
            res = self.types.resolve(t_def)
            if res == ty:
                return self.types.resolve_order(order_def)
            return None
        r = rec(f.ty, f.ty_order)
        if r:
            return r
        # nested occurrence: search the declaration-time expression
        def walk(node):
            try:
                t, o = self.types._parse(node, "order")
            except AnalysisError:
                t = None
            if t is not None and self.types.resolve(t) == ty:
                return self.types.resolve_order(o)
            for ch in ast.iter_child_nodes(node):
                r = walk(ch)
                if r:
                    return r
            return None
        return walk(f.ann)

    def native_fn(self, table, fallback, has_none: bool):
        lines = ["def _native_union(object_, _):"]
        if has_none:
            lines += ["    if object_ is None:", "        return None"]
        ta = self.hooks.types_alias
        for k, cn in table:
            lines += [f"    if {k!r} in object_:", f"        return converter.structure(object_, {ta}.{cn})"]
        if fallback:
            lines += [f"    return converter.structure(object_, {ta}.{fallback})"]
        else:
            lines += ["    raise ValueError(\"Couldn't disambiguate\")"]
        return ast.parse("\n".join(lines)).body[0]

    # ---------------------------------------------------------------------------------- evaluation
    def run(self):
        self.discover()
        for key in sorted(self.sites, key=lambda k: (show(k[0]), k[1])):
            self.analyse_site(self.sites[key])
        return self

    def alternatives(self, site: Site):
        ms = sorted(members(site.ty), key=lambda m: (m == NONE, show(m)))
        return [m for m in ms if m != NONE or site.with_none]

    def analyse_site(self, site: Site):
        h = self.disp.handler(site.ty)
        if h[0] == "unsupported":
            self.site_issues.append((site, "unsupported", h[1]))
            return
        if h[0] == "hook":
            reg = h[1]
            self.used_registrations.add(id(reg))
            ev = HookEval(self.shapes, self.hooks, reg.hook, reg.conv_name, self.hooks.rel, closure=reg.closure)
            self._eval(site, ev, f"hook:{reg.hook_name}")
            return
        if h[0] == "native":
            variants = self.native_variants(site.ty)
            self.native_tables[show(site.ty)] = variants
            if variants and variants[0][0] == "typeerror":
                self.site_issues.append((site, "unsupported",
                                         f"cattrs cannot build a disambiguator: {variants[0][1]}"))
                return
            for table, fb in variants:
                fn = self.native_fn(table, fb, NONE in members(site.ty))
                ev = HookEval(self.shapes, self.hooks, fn, "converter", "<cattrs native union>")
                desc = "native:" + ",".join(f"{k}->{c}" for k, c in table) + (f",else->{fb}" if fb else "")
                self._eval(site, ev, desc)
            return
        raise AnalysisError(f"unexpected handler {h[0]} for {show(site.ty)}")

    def _eval(self, site: Site, ev: HookEval, handler_desc: str):
        self.hook_evals += 1
        declared_at: dict[tuple, set] = {}
        for alt in self.alternatives(site):
            ev.probes = []
            ev.iterated_mapping = []
            results = ev.run(alt, lambda w, leaf, alt=alt: self.judge(ev, site, alt, w, leaf))
            for w, leaf, issues in results:
                self.worlds += 1
                if ev.imprecise and issues:
                    # the path to this leaf goes through a test the analysis could not decide (it looks at the
                    # whole mapping): the leaf may be infeasible, so its issues are not verdicts
                    self.imprecise.append((site, handler_desc, alt, [i for i in issues if i[0] not in ("mapiter",)]))
                    issues = [i for i in issues if i[0] == "mapiter"]
                o = Outcome(site, handler_desc, alt, w.describe(), self.leaf_desc(leaf), issues)
                o.leaf_kind = leaf.kind
                o.leaf_ty = getattr(leaf, "ty", None)
                self.outcomes.append(o)
            for path, key, base in ev.probes:
                # positions are named after the data, not after the loop variable that walks it
                path = tuple("#item" if isinstance(c, str) and c.startswith("#") else c for c in path)
                ok = declared_at.setdefault((path, key), set())
                if base[0] == "cls" and key in self.shapes.decl(base[1]):
                    ok.add(base[1])
                elif base[0] != "cls":
                    ok.add("<open:" + show(base) + ">")
                    self.site_issues.append((site, "probe",
                                             f"{handler_desc} probes key '{key}' of an open object {show(base)}"))
            for m in ev.iterated_mapping:
                self.site_issues.append((site, "mapiter", f"{handler_desc}: {m}"))
        for (path, key), ok in sorted(declared_at.items(), key=repr):
            if not ok:
                self.site_issues.append((site, "probe",
                                         f"{handler_desc} probes key '{key}' which no alternative of "
                                         f"{show(site.ty)} declares at {'object_' + ''.join(f'[{p!r}]' for p in path)}"))

    def leaf_desc(self, leaf: Leaf) -> str:
        k = leaf.kind
        if k == "structure":
            return f"structure({show(leaf.ty)})"
        if k == "construct":
            return f"{show(leaf.ty)}(**value)"
        if k == "lookup":
            return f"{leaf.name}{'[value]' if leaf.strict else '.get(value)'}"
        if k == "each":
            return "each(" + ast.unparse(leaf.elt)[:70] + ")"
        if k == "try":
            return f"try({self.leaf_desc(leaf.body)} except {self.leaf_desc(leaf.handler)})"
        if k in ("raise", "error"):
            return f"{k}({leaf.what})"
        if k == "coerce":
            return f"{leaf.to}(...)"
        if k == "tuple":
            return "tuple(" + ",".join(self.leaf_desc(x) for x in leaf.items) + ")"
        return k

    # ---------------------------------------------------------------------------------- judging
    def judge(self, ev: HookEval, site: Site, alt, w: World, leaf: Leaf, U=None, root=()):
        U = site.ty if U is None else U
        issues = []
        k = leaf.kind
        if k == "error":
            return [("unsupported", f"raises: {leaf.what}")]
        if k == "raise":
            return [("unsupported", f"raises for a valid value: {leaf.what}")]
        if k == "foreign_converter":
            return [("foreign", f"uses {leaf.what} instead of its own converter")]
        if k == "structure_self":
            return [("unsupported", "re-dispatches on its own union type (infinite recursion)")]
        if k == "try":
            # the body's leaf is what the hook returns unless evaluating it raises; for a structure() leaf the judge
            # knows which failures raise (a required key that is missing: KeyError) and which do not (cattrs coerces
            # str(dict), bool(x) ... silently)
            body_issues = self.judge(ev, site, alt, w, leaf.body, U, root)
            if not body_issues:
                return []
            import re as _re
            for cat, msg in body_issues:
                mo = _re.search(r"requires '([^']+)' which is optional in", msg)
                if mo and getattr(leaf.body, "path", None) is not None:
                    key_ = (leaf.body.path, mo.group(1))
                    if key_ not in w.keys:
                        def mk(val, key_=key_):
                            def app(x):
                                x.keys[key_] = val
                            return app
                        raise Fork([mk(True), mk(False)])
            cats = {c for c, _ in body_issues}
            raises = (leaf.body.kind in ("raise", "error")) or \
                ("unsound" in cats and "miscoerce" not in cats and any(" requires '" in m for c, m in body_issues if c == "unsound"))
            if raises:
                return self.judge(ev, site, alt, w, leaf.handler, U, root)
            return [(c, "the try body does not raise for this value, so its result is returned and the except branch is "
                        "never reached: " + m) for c, m in body_issues]
        if k in ("none", "fallthrough"):
            if alt != NONE and w.alt.get(root) != NONE:
                out_ = [("unsupported", "returns None for a non-null value")]
                if NONE not in members(U):
                    out_.append(("illtyped", f"returns None, which is not a member of {show(U)}"))
                return out_
            return []
        if k == "pass":
            if leaf.path != root:
                return [("unsound", f"returns a sub-value ({leaf.path}) instead of the value")]
            if not self.shapes.raw_ok(alt):
                return [("illtyped", f"returns the uninterpreted JSON value although the alternative {show(alt)} "
                                     "is an object/array type")]
            return []
        if k == "coerce":
            if leaf.path != root:
                return [("unsound", "coerces a sub-value")]
            ks = self.shapes.kinds(alt)
            want = {"str": "str", "int": "num", "float": "num", "bool": "bool"}[leaf.to]
            if ks != frozenset([want]):
                return [("unsound", f"{leaf.to}() applied to a {show(alt)} value")]
            if alt[0] == "prim" and leaf.to == "int" and alt[1] == "float":
                return [("lossy", "int() truncates a decimal")]
            return []
        if k == "empty":
            if alt[0] not in ("seq", "list"):
                return [("unsound", f"returns an empty list for {show(alt)}")]
            if w.empty.get(root) is not True:
                return [("lossy", "returns an empty list for a possibly non-empty array")]
            return []
        if k == "structure":
            try:
                v = ev.value_at(w, leaf.path)
            except Fork as f:
                raise
            if v[0] == "error":
                return [("unsupported", v[1])]
            target = leaf.ty
            present = {key for (p, key), val in w.keys.items() if p == leaf.path and val is True and isinstance(key, str)}
            absent = frozenset(key for (p, key), val in w.keys.items() if p == leaf.path and val is False and isinstance(key, str))
            # alternatives already chosen on this path for direct children of the value (world constraints)
            narrow = {pth[-1]: ty for pth, ty in w.alt.items()
                      if len(pth) == len(leaf.path) + 1 and pth[:-1] == leaf.path and isinstance(pth[-1], str)}
            r = self.shapes.sub(v, target, False, present, absent, None, narrow)
            if r:
                issues.append(("unsound", f"structure(_, {show(target)}) on a {show(v)} value: {r}"))
                if " requires '" not in r:
                    # not a missing-key failure: cattrs coerces (str(dict), int(x)...) instead of raising
                    issues.append(("miscoerce", f"structure(_, {show(target)}) on a {show(v)} value succeeds by "
                                                f"coercion although the value is not valid for it: {r}"))
            else:
                r2 = self.shapes.sub(v, target, True, present, absent, None, narrow)
                if r2:
                    issues.append(("lossy", f"structure(_, {show(target)}) on a {show(v)} value: {r2}"))
            if leaf.path == root and not (members(target) <= members(U)):
                issues.append(("illtyped", f"returns {show(target)} which is not a member of {show(U)}"))
            if target[0] == "enum" and v[0] != "enum":
                issues.append(("unsupported", f"{target[1]}(value) raises for values outside the enumeration"))
            return issues
        if k == "construct":
            # C(**value): the keys of the JSON object become keyword arguments
            try:
                v = ev.value_at(w, leaf.path)
            except Fork:
                raise
            if v[0] == "error":
                return [("unsupported", v[1])]
            issues.append(("kwsplat", f"builds {show(leaf.ty)} with `**<input>`: every undeclared key of the JSON object "
                                      "becomes an unexpected keyword argument (TypeError)"))
            c = self.types.classes[leaf.ty[1]]
            mism = [f.name for f in c.fields if self.camel(f.name) != f.name]
            if mism:
                issues.append(("unsound", f"builds {show(leaf.ty)} with `**<input>` although the wire names of {mism[:3]} "
                                          "differ from the attribute names"))
            r = self.shapes.sub(v, leaf.ty, False, None, frozenset())
            if r:
                issues.append(("unsound", f"{show(leaf.ty)}(**value) on a {show(v)} value: {r}"))
            nested = [f.name for f in c.fields if not self.shapes.raw_ok(f.resolved)]
            if nested:
                issues.append(("illtyped", f"{show(leaf.ty)}(**value) leaves the nested values of {nested[:3]} uninterpreted"))
            if leaf.path == root and not (members(leaf.ty) <= members(U)):
                issues.append(("illtyped", f"returns {show(leaf.ty)} which is not a member of {show(U)}"))
            return issues
        if k == "lookup":
            v = alt if leaf.path == root else None
            if v is None:
                try:
                    v = ev.value_at(w, leaf.path)
                except Fork:
                    raise
            keys = set(leaf.table.keys())
            if v[0] == "enum":
                vals = {mv for _, mv in self.types.classes[v[1]].members}
                missing = sorted(vals - keys, key=repr)
                if missing:
                    issues.append(("unsupported" if leaf.strict else "unsound",
                                   f"table {leaf.name} has no entry for the declared value(s) {missing[:3]} of {v[1]}"))
                if not leaf.strict:
                    issues.append(("nonstrict-lookup", f"{leaf.name}.get(value) turns every value outside {v[1]} into None "
                                                       "instead of rejecting it"))
            elif v[0] == "prim" and v[1] in ("int", "str", "float", "bool"):
                issues.append(("unsupported" if leaf.strict else "unsound",
                               f"table lookup {leaf.name} on an arbitrary {show(v)}: values outside the table "
                               + ("raise KeyError" if leaf.strict else "become None")))
            else:
                issues.append(("unsound", f"table lookup {leaf.name} applied to a {show(v)} value"))
            return issues
        if k == "tuple":
            if alt[0] != "tup" or len(alt[1]) != len(leaf.items):
                return [("unsound", f"builds a {len(leaf.items)}-tuple for {show(alt)}")]
            for i, (it, t) in enumerate(zip(leaf.items, alt[1])):
                if it.kind == "coerce" and it.path == root + (i,):
                    want = {"str": "str", "int": "int", "float": "float", "bool": "bool"}[it.to]
                    if t != ("prim", want):
                        issues.append(("unsound", f"element {i}: {it.to}() applied to {show(t)}"))
                elif it.kind == "pass" and it.path == root + (i,):
                    if not self.shapes.raw_ok(t):
                        issues.append(("illtyped", f"element {i} left uninterpreted"))
                elif it.kind == "structure" and it.path == root + (i,):
                    r = self.shapes.sub(t, it.ty, True)
                    if r:
                        issues.append(("unsound", f"element {i}: {r}"))
                else:
                    issues.append(("unsound", f"element {i} is not built from element {i} of the input"))
            if not any(m == alt for m in members(U)):
                issues.append(("illtyped", f"returns a tuple which is not a member of {show(U)}"))
            return issues
        if k == "each":
            try:
                v = ev.value_at(w, leaf.path)
            except Fork:
                raise
            if v[0] == "error":
                return [("unsupported", v[1])]
            if leaf.ifs:
                raise AnalysisError(f"{ev.rel}: filtered comprehension in {ev.name}")
            if v[0] not in ("seq", "list"):
                if v[0] in ("cls", "map", "opaque"):
                    return [("mapiter", f"iterates over a mapping ({show(v)})"),
                            ("unsound", f"iterates over a {show(v)} value")]
                return [("unsound", f"iterates over a {show(v)} value")]
            if leaf.path != root:
                return [("unsound", "builds the result from a sub-value")]
            seq_members = [m for m in members(U) if m[0] in ("seq", "list")]
            for e_alt in sorted(members(v[1]), key=repr):
                item_root = ("#" + leaf.var,)
                # the element world keeps what is known about the whole value (the element expression may look at
                # the input again, e.g. a target type chosen by a test on object_[0])
                start = World(None, w)
                start.alt = {**w.alt, item_root: e_alt}
                stack = [start]
                guard = 0
                while stack:
                    w2 = stack.pop()
                    guard += 1
                    if guard > 2000:
                        raise AnalysisError(f"{ev.rel}: world explosion in comprehension of {ev.name}")
                    try:
                        infeasible = False
                        for cnode, cvar, ctruth in w.elem.get(leaf.path, []):
                            r = ev._decide(cnode, w2, {cvar: item_root, leaf.var: item_root})
                            if isinstance(r, bool) and r != ctruth:
                                infeasible = True
                        if infeasible:
                            continue
                        saved_env = ev.valenv
                        ev.valenv = list(getattr(leaf, "frames", [])) or saved_env
                        try:
                            sub_leaf = ev._leaf(leaf.elt, w2, {**getattr(leaf, "extra", {}), leaf.var: item_root})
                        finally:
                            ev.valenv = saved_env
                        elem_U = mk_union([m[1] for m in seq_members]) if seq_members else ANY
                        sub_issues = self.judge(ev, site, e_alt, w2, sub_leaf, U=elem_U, root=item_root)
                    except Fork as f:
                        for app in f.options:
                            w3 = w2.fork()
                            app(w3)
                            stack.append(w3)
                        continue
                    for cat, msg in sub_issues:
                        issues.append((cat, f"element {show(e_alt)} {w2.describe()}: {msg}"))
            if not seq_members:
                issues.append(("illtyped", f"returns a list but {show(U)} has no sequence member"))
            return issues
        if k == "listlit":
            raise AnalysisError(f"{ev.rel}: list display leaf in {ev.name} is not modelled")
        raise AnalysisError(f"leaf kind {k}")
