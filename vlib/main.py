"""Entry point: ./vcheck <id|all|selftest> [--tier quick|thorough] [--replay report.json]"""
from __future__ import annotations

import argparse
import importlib
import json
import os
import sys

sys.path.insert(0, os.path.dirname(os.path.dirname(os.path.abspath(__file__))))

from vlib import common  # noqa: E402

ALL = [f"C{i:02d}" for i in range(1, 21)]


def load(prop: str):
    try:
        return importlib.import_module(f"vlib.checks.{prop.lower()}")
    except ModuleNotFoundError as e:
        if e.name and e.name.endswith(prop.lower()):
            return None
        raise


def main(argv=None) -> int:
    ap = argparse.ArgumentParser()
    ap.add_argument("target")
    ap.add_argument("--tier", default=os.environ.get("VERIF_TIER", "quick"),
                    choices=["quick", "thorough"])
    ap.add_argument("--replay", default=None)
    ap.add_argument("--jobs", type=int, default=0)
    ap.add_argument("rest", nargs="*")
    a, unknown = ap.parse_known_args(argv)
    a.rest = list(a.rest) + list(unknown)
    try:
        seed = int(os.environ.get("VERIF_SEED", "0"))
    except ValueError:
        seed = 0

    if a.target == "selftest":
        from vlib import selftest

        return selftest.main(a.rest, jobs=a.jobs or 16)

    if a.replay:
        with open(a.replay) as f:
            rep = json.load(f)
        print(f"replaying {rep.get('key')} (re-runs the check of {rep.get('property')} and "
              f"reports whether this finding is still present)")
        a.target = rep["property"]
        mod = load(a.target)
        ctx = common.Ctx(a.target, a.tier, seed, quiet=True)
        try:
            mod.run(ctx)
        except common.AnalysisError as e:
            print(f"ANALYSIS-ERROR property={a.target} {e}")
            return 2
        hit = [f for f in ctx.findings if f.key == rep["key"]][:1]
        for f in hit:
            print(f"  still present: {f!r}")
            print(f"VIOLATION property={a.target} replay={a.replay}")
        if not hit:
            print("  not present on the current tree")
        return 1 if hit else 0

    targets = ALL if a.target == "all" else [a.target.upper()]
    rc = 0
    for t in targets:
        mod = load(t)
        if mod is None:
            if a.target == "all":
                continue
            print(f"ANALYSIS-ERROR no check for {t}")
            return 2
        r = common.run_check(t, mod, a.tier, seed)
        rc = max(rc, r)
    return rc


if __name__ == "__main__":
    code = main()
    sys.stdout.flush()
    os._exit(code)
