"""E1 (second half) -- static model of lsprotocol/_hooks.py and converters.py: which structure hook
is registered for which type key, in which order, by which register function, on which converter.
"""
from __future__ import annotations

import ast

from .common import AnalysisError, Sources, P_HOOKS, P_CONVERTERS
from .pymodel import (TypesModule, parse_type, dotted, NONE, PRIMS, mk_union, show)


class Registration:
    def __init__(self, key, order, hook, hook_name, table, lineno, register_fn, conv_name, key_src):
        self.key = key                # tyexpr (as registered: may contain fwd)
        self.order = order
        self.hook = hook              # ast.FunctionDef | ast.Lambda
        self.hook_name = hook_name
        self.table = table
        self.lineno = lineno
        self.register_fn = register_fn
        self.conv_name = conv_name
        self.key_src = key_src
        self.closure = None          # evaluator closure (folded extraction only)
        self.nbound = 0              # leading parameters of the hook function bound by functools.partial

    @property
    def is_union(self):
        return self.key[0] == "union"


class FactoryRegistration:
    def __init__(self, direction, predicate, factory, lineno, register_fn, conv_name):
        self.direction = direction    # 'structure' | 'unstructure'
        self.predicate = predicate    # dotted name
        self.factory = factory        # ast.FunctionDef
        self.lineno = lineno
        self.register_fn = register_fn
        self.conv_name = conv_name


class HooksModule:
    def __init__(self, src: Sources, types: TypesModule, rel: str = P_HOOKS):
        self.rel = rel
        self.types = types
        self.src = src
        try:
            self.tree = ast.parse(src.text(rel))
        except SyntaxError as e:
            raise AnalysisError(f"{rel}: syntax error: {e}")
        self.types_alias = None        # local name of the types module
        self.mod_aliases: dict[str, tuple] = {}   # module-level type aliases of _hooks.py
        self.mod_alias_order: dict[str, list] = {}
        self.mod_assigns: dict[str, ast.AST] = {}
        self.functions: dict[str, ast.FunctionDef] = {}
        self.imports: dict[str, str] = {}
        self.typing_names: set[str] = set()
        self.registrations: list[Registration] = []
        self.factories: list[FactoryRegistration] = []
        self.register_order: list[str] = []
        self.local_fns: dict[str, dict[str, ast.FunctionDef]] = {}
        self._module_level()
        self._register_hooks()

    # --------------------------------------------------------------------------------------
    def _module_level(self):
        for st in self.tree.body:
            if isinstance(st, ast.Import):
                for a in st.names:
                    self.imports[a.asname or a.name.split(".")[0]] = a.name
            elif isinstance(st, ast.ImportFrom):
                for a in st.names:
                    nm = a.asname or a.name
                    if st.module == "typing":
                        self.typing_names.add(nm)
                    elif st.level == 1 and st.module is None and a.name == "types":
                        self.types_alias = nm
                    elif st.level == 1 and st.module == "types":
                        raise AnalysisError(f"{self.rel}: `from .types import` style is not modelled")
                    self.imports[nm] = f"{'.' * st.level}{st.module or ''}.{a.name}"
            elif isinstance(st, ast.FunctionDef):
                self.functions[st.name] = st
            elif isinstance(st, ast.Assign) and len(st.targets) == 1 and isinstance(st.targets[0], ast.Name):
                self.mod_assigns[st.targets[0].id] = st.value
            elif isinstance(st, ast.AnnAssign) and isinstance(st.target, ast.Name) and st.value is not None:
                self.mod_assigns[st.target.id] = st.value
            elif isinstance(st, ast.Expr) and isinstance(st.value, ast.Constant):
                pass
            else:
                raise AnalysisError(f"{self.rel}:{st.lineno}: unsupported module-level statement "
                                    f"{type(st).__name__}")
        if self.types_alias is None:
            raise AnalysisError(f"{self.rel}: import of the types module not found")
        # module-level type aliases (LSPAny, OptionalPrimitive): fold those that parse as types
        for name, value in self.mod_assigns.items():
            try:
                ty, order = parse_type(value, f"{self.rel} {name}", self._mk_lookup({}))
            except AnalysisError:
                continue
            self.mod_aliases[name] = ty
            self.mod_alias_order[name] = order

    def _mk_lookup(self, local_types: dict):
        def lookup(node):
            if isinstance(node, ast.Name):
                n = node.id
                if n in local_types:
                    return local_types[n]
                if n in self.mod_aliases:
                    return self.mod_aliases[n], list(self.mod_alias_order[n])
                if n in PRIMS:
                    t = ("prim", PRIMS[n])
                    return t, [t]
                raise AnalysisError(f"name {n!r} is not a known type in {self.rel}")
            if isinstance(node, ast.Attribute):
                d = dotted(node)
                if d and d.startswith(self.types_alias + ".") and d.count(".") == 1:
                    nm = d.split(".")[1]
                    t = self.types.final_ty(nm)
                    return t, list(self.types.env_order.get(nm, [t]))
                # attrs.fields(lsp_types.C).attr.type
                r = self._fields_type(node)
                if r is not None:
                    return r
                raise AnalysisError(f"attribute {d or ast.unparse(node)} is not a known type")
            if isinstance(node, ast.Call):
                if dotted(node.func) == "type" and len(node.args) == 1 and isinstance(node.args[0], ast.Constant) \
                        and node.args[0].value is None:
                    return NONE, [NONE]
                raise AnalysisError(f"call {ast.unparse(node)} in type position")
            return None
        return lookup

    def _fields_type(self, node):
        """`attrs.fields(lsp_types.C).f.type` -> resolved type of field f of class C
        (register_hooks resolves forward references before any registration)."""
        if not (isinstance(node, ast.Attribute) and node.attr == "type"):
            return None
        inner = node.value
        if not (isinstance(inner, ast.Attribute) and isinstance(inner.value, ast.Call)):
            return None
        call = inner.value
        if dotted(call.func) not in ("attrs.fields", "attr.fields") or len(call.args) != 1:
            return None
        d = dotted(call.args[0])
        if not d or not d.startswith(self.types_alias + "."):
            return None
        cname = d.split(".")[1]
        c = self.types.classes.get(cname)
        if c is None or c.kind != "attrs":
            raise AnalysisError(f"attrs.fields({d}): not an attrs class")
        f = c.field(inner.attr)
        if f is None:
            raise AnalysisError(f"attrs.fields({d}).{inner.attr}: no such field")
        return f.resolved, self.types.resolve_order(f.ty_order)

    # --------------------------------------------------------------------------------------
    def _register_hooks(self):
        rh = self.functions.get("register_hooks")
        if rh is None:
            raise AnalysisError(f"{self.rel}: register_hooks not found")
        if len(rh.args.args) != 1:
            raise AnalysisError(f"{self.rel}: register_hooks signature changed")
        self.register_hooks_calls = []
        self.resolver_first = None
        parse_err = None
        try:
            self._parse_register_hooks(rh)
        except AnalysisError as e:
            # register_hooks is not the plain list of calls: only the semantic extraction can read it
            parse_err = e
            self.register_hooks_calls = None
            self.register_order = []
        # 1st choice: semantic extraction (micro-evaluator); 2nd: the syntactic table parser
        self.extraction = None
        fold_err = None
        try:
            regs, facs = fold_registrations(self)
            self.registrations = regs
            self.extraction = "folded"
        except AnalysisError as e:
            fold_err = e
        if self.register_hooks_calls is None:
            if self.extraction != "folded":
                raise AnalysisError(f"{parse_err} (semantic extraction also failed: {fold_err})")
            return
        if self.resolver_first is None:
            self.resolver_first = bool(self.register_order) and self.register_order[0] == "_resolve_forward_references"
        parsed_regs = []
        try:
            saved = self.registrations
            self.registrations = []
            for fn, args in self.register_hooks_calls:
                if args:
                    self._register_fn(self.functions[fn])
            parsed_regs = self.registrations
            self.registrations = saved if self.extraction == "folded" else parsed_regs
            if self.extraction is None:
                self.extraction = "parsed"
        except AnalysisError as e:
            if self.extraction != "folded":
                raise AnalysisError(f"{e} (semantic extraction also failed: {fold_err})")
            self.registrations = saved

    def _parse_register_hooks(self, rh):
        conv = rh.args.args[0].arg
        for st in rh.body:
            call = None
            if isinstance(st, ast.Expr) and isinstance(st.value, ast.Call):
                call = st.value
            elif isinstance(st, ast.Assign) and isinstance(st.value, ast.Call):
                call = st.value
            elif isinstance(st, ast.Return) and isinstance(st.value, ast.Call):
                call = st.value
            elif isinstance(st, ast.Return) and isinstance(st.value, ast.Name):
                continue
            elif isinstance(st, ast.Expr) and isinstance(st.value, ast.Constant):
                continue
            else:
                raise AnalysisError(f"{self.rel}:{st.lineno}: unsupported statement in register_hooks")
            fn = dotted(call.func)
            if fn not in self.functions:
                raise AnalysisError(f"{self.rel}:{st.lineno}: register_hooks calls unknown {fn}")
            self.register_hooks_calls.append((fn, [ast.unparse(a) for a in call.args]))
            if call.args:
                if not (len(call.args) == 1 and dotted(call.args[0]) == conv):
                    raise AnalysisError(f"{self.rel}:{st.lineno}: {fn} is not called with the converter")
            self.register_order.append(fn)

    def _register_fn(self, fn: ast.FunctionDef):
        if len(fn.args.args) != 1:
            raise AnalysisError(f"{self.rel}: {fn.name} signature changed")
        conv = fn.args.args[0].arg
        local_fns: dict[str, ast.FunctionDef] = {}
        self.local_fns[fn.name] = local_fns
        tables: dict[str, list] = {}
        local_types: dict[str, tuple] = {}
        lookup = self._mk_lookup(local_types)

        def entries(node, table):
            if not isinstance(node, ast.List):
                raise AnalysisError(f"{self.rel}:{node.lineno}: hook table is not a list display")
            out = []
            for e in node.elts:
                if not (isinstance(e, ast.Tuple) and len(e.elts) == 2):
                    raise AnalysisError(f"{self.rel}:{e.lineno}: hook table entry is not a (type, hook) pair")
                out.append((e.elts[0], e.elts[1], table, e.lineno))
            return out

        def register(key_node, hook_node, table, lineno):
            ty, order = parse_type(key_node, f"{self.rel}:{lineno} hook key", lookup)
            if isinstance(hook_node, ast.Name):
                if hook_node.id not in local_fns:
                    raise AnalysisError(f"{self.rel}:{lineno}: hook {hook_node.id} is not a function "
                                        f"defined in {fn.name}")
                h, hn = local_fns[hook_node.id], hook_node.id
            elif isinstance(hook_node, ast.Lambda):
                h, hn = hook_node, "<lambda>"
            else:
                raise AnalysisError(f"{self.rel}:{lineno}: unsupported hook expression")
            self.registrations.append(Registration(ty, order, h, hn, table, lineno, fn.name, conv,
                                                   ast.unparse(key_node)))

        def registers(node) -> bool:
            """Does this statement (outside nested function definitions) register a plain structure hook?"""
            stack = [node]
            while stack:
                n = stack.pop()
                if isinstance(n, ast.Call) and isinstance(n.func, ast.Attribute) and \
                        n.func.attr in ("register_structure_hook", "register_structure_hook_func"):
                    return True
                for c in ast.iter_child_nodes(n):
                    if not isinstance(c, (ast.FunctionDef, ast.Lambda)):
                        stack.append(c)
            return False

        def run(body):
            for st in body:
                if isinstance(st, ast.FunctionDef):
                    local_fns[st.name] = st
                elif isinstance(st, ast.Expr) and isinstance(st.value, ast.Constant):
                    pass
                elif isinstance(st, ast.Assign) and len(st.targets) == 1 and isinstance(st.targets[0], ast.Name):
                    name = st.targets[0].id
                    if isinstance(st.value, ast.List) and st.value.elts and all(
                            isinstance(e, ast.Tuple) and len(e.elts) == 2 for e in st.value.elts):
                        tables[name] = entries(st.value, name)
                    else:
                        try:
                            ty, order = parse_type(st.value, f"{self.rel}:{st.lineno} {name}", lookup)
                            local_types[name] = (ty, order)
                        except AnalysisError:
                            # a local that is not a type (cache dict, constant...): irrelevant to registration
                            # unless it hides a registration call
                            if registers(st):
                                raise
                elif isinstance(st, ast.AugAssign) and isinstance(st.target, ast.Name) \
                        and isinstance(st.op, ast.Add) and st.target.id in tables:
                    tables[st.target.id] = tables[st.target.id] + entries(st.value, st.target.id)
                elif isinstance(st, ast.If):
                    v = self._fold_version_test(st.test)
                    if v is None:
                        raise AnalysisError(f"{self.rel}:{st.lineno}: unsupported condition in {fn.name}")
                    run(st.body if v else st.orelse)
                elif isinstance(st, ast.For):
                    ok = (isinstance(st.iter, ast.Name) and st.iter.id in tables
                          and isinstance(st.target, ast.Tuple) and len(st.target.elts) == 2
                          and all(isinstance(e, ast.Name) for e in st.target.elts)
                          and len(st.body) == 1 and isinstance(st.body[0], ast.Expr)
                          and isinstance(st.body[0].value, ast.Call))
                    if ok:
                        call = st.body[0].value
                        a, b = (e.id for e in st.target.elts)
                        ok = (dotted(call.func) == f"{conv}.register_structure_hook"
                              and len(call.args) == 2 and not call.keywords
                              and dotted(call.args[0]) == a and dotted(call.args[1]) == b)
                    if not ok:
                        raise AnalysisError(f"{self.rel}:{st.lineno}: unsupported registration loop in {fn.name}")
                    for k, h, table, ln in tables[st.iter.id]:
                        register(k, h, table, ln)
                elif isinstance(st, ast.Expr) and isinstance(st.value, ast.Call):
                    call = st.value
                    d = dotted(call.func)
                    if d == f"{conv}.register_structure_hook" and len(call.args) == 2:
                        register(call.args[0], call.args[1], "<direct>", st.lineno)
                    elif d in (f"{conv}.register_structure_hook_factory", f"{conv}.register_unstructure_hook_factory") \
                            and len(call.args) == 2:
                        pred = dotted(call.args[0])
                        fac = call.args[1]
                        if not (isinstance(fac, ast.Name) and fac.id in local_fns):
                            continue   # decided semantically by special.fold_factories
                        self.factories.append(FactoryRegistration(
                            "structure" if "unstructure" not in d else "unstructure", pred,
                            local_fns[fac.id], st.lineno, fn.name, conv))
                    else:
                        raise AnalysisError(f"{self.rel}:{st.lineno}: unsupported call {d} in {fn.name}")
                elif isinstance(st, ast.Return):
                    if st.value is None or dotted(st.value) != conv:
                        raise AnalysisError(f"{self.rel}:{st.lineno}: {fn.name} does not return its converter")
                else:
                    if registers(st):
                        raise AnalysisError(f"{self.rel}:{st.lineno}: unsupported statement "
                                            f"{type(st).__name__} in {fn.name} performs hook registrations")
                    # statements without any structure-hook registration do not change the hook tables
        run(fn.body)

    @staticmethod
    def _fold_version_test(test):
        """sys.version_info <op> (3, n): every supported interpreter is >= 3.8.x with x >= 0."""
        if isinstance(test, ast.Compare) and dotted(test.left) == "sys.version_info" and len(test.ops) == 1:
            c = test.comparators[0]
            if isinstance(c, ast.Tuple) and all(isinstance(e, ast.Constant) for e in c.elts):
                bound = tuple(e.value for e in c.elts)
                op = test.ops[0]
                # sys.version_info is a 5-tuple >= (3, 8, 0, ...): strictly greater than (3, 8)
                if isinstance(op, (ast.Gt, ast.GtE)):
                    return True if bound <= (3, 8) else None
                if isinstance(op, (ast.Lt, ast.LtE)):
                    return False if bound <= (3, 8) else None
        return None

    # --------------------------------------------------------------------------------------
    def union_registry_items(self):
        """Final content of converter._union_struct_registry: later registrations of an equal
        key overwrite earlier ones.  -> [(key, Registration)]"""
        reg: dict = {}
        for r in self.registrations:
            if r.is_union:
                reg[r.key] = r
        return [(k, r) for k, r in reg.items()]

    def class_hooks(self):
        """Registrations that go to single dispatch (non-union keys)."""
        out = {}
        for r in self.registrations:
            if not r.is_union:
                out[r.key] = r
        return out

    def class_hooks_effective(self):
        """class_hooks plus what single dispatch adds through the MRO (axiom A1: singledispatch picks the closest
        registered class of the MRO): `class E(str, enum.Enum)` has str before Enum in its MRO, so a hook registered
        for str (int) is what structures every string-valued (integer-valued) enumeration that has no hook of its own."""
        out = dict(self.class_hooks())
        for base in ("str", "int"):
            reg = out.get(("prim", base))
            if reg is None:
                continue
            for name, c in self.types.classes.items():
                if c.kind == "enum" and c.enum_base == base and ("enum", name) not in out:
                    out[("enum", name)] = reg
        return out

    def all_hook_functions(self):
        seen, out = set(), []
        for r in self.registrations:
            # one function specialised by functools.partial counts once per distinct argument prefix
            # ... and a function produced by a factory counts once per closure environment
            k = (id(r.hook), repr(getattr(r.closure, "bound", ())), id(getattr(r.closure, "env", None)))
            if k not in seen:
                seen.add(k)
                out.append(r)
        return out


class ConvertersModule:
    def __init__(self, src: Sources, rel: str = P_CONVERTERS):
        self.rel = rel
        try:
            self.tree = ast.parse(src.text(rel))
        except SyntaxError as e:
            raise AnalysisError(f"{rel}: syntax error: {e}")
        self.get_converter = None
        for st in self.tree.body:
            if isinstance(st, ast.FunctionDef) and st.name == "get_converter":
                self.get_converter = st
        if self.get_converter is None:
            raise AnalysisError(f"{rel}: get_converter not found")


# ------------------------------------------------------------------------------------------------
# semantic extraction of the registrations: the register functions are run in the micro-evaluator with the
# converter, typing, attrs and the types module stubbed; works for tables built by loops / comprehensions /
# helper functions as well as for the literal tables of the pinned tree

def value_to_ty(types, v) -> "TyVal":
    """Evaluator value -> TyVal (shared by the registration fold and the hook evaluator)."""
    from .microeval import ClassRef
    if isinstance(v, TyVal):
        return v
    if v is None or v is type(None):
        return TyVal(NONE)
    if isinstance(v, ClassRef):
        c = types.classes.get(v.name)
        if c is None:
            raise AnalysisError(f"class {v.name} used as a type is not defined in types.py")
        return TyVal(("cls", v.name) if c.kind == "attrs" else ("enum", v.name) if c.kind == "enum" else ("opaque", v.name))
    if isinstance(v, type) and v.__name__ in PRIMS:
        return TyVal(("prim", PRIMS[v.__name__]))
    if isinstance(v, str):
        if v.isidentifier():
            return TyVal(("fwd", v))
        raise AnalysisError(f"string {v!r} in a type position")
    raise AnalysisError(f"value {v!r} in a type position")


class TyVal:
    """A typing object inside the evaluator: a tyexpr plus its ordered top-level union members."""

    def __init__(self, ty, order=None):
        self.ty = ty
        self.order = order if order is not None else [ty]

    def e5_attr(self, a):
        """typing introspection the registration code may use: `T.__args__` of a union (NoneType as itself)"""
        from .microeval import Raised
        if a == "__args__" and self.ty[0] == "union":
            return tuple(type(None) if m == NONE else TyVal(m) for m in self.order)
        raise Raised("AttributeError", (a,))

    def __eq__(self, other):
        return isinstance(other, TyVal) and other.ty == self.ty

    def __hash__(self):
        return hash(self.ty)


class TypingHead:
    def __init__(self, name, to_ty):
        self.name = name
        self.to_ty = to_ty

    def __vsubscript__(self, idx):
        from .pymodel import mk_union_ordered
        args = list(idx) if isinstance(idx, tuple) else [idx]
        n = self.name
        if n in ("Union", "Optional"):
            parts = [self.to_ty(a) for a in args]
            if n == "Optional":
                if len(parts) != 1:
                    raise AnalysisError("Optional with several arguments")
                parts.append(TyVal(NONE))
            ty, order = mk_union_ordered([(p.ty, p.order) for p in parts])
            return TyVal(ty, order)
        if n in ("Sequence", "List", "Iterable"):
            if len(args) != 1:
                raise AnalysisError(f"{n} with {len(args)} arguments")
            return TyVal(("seq" if n == "Sequence" else "list", self.to_ty(args[0]).ty))
        if n in ("Dict", "Mapping"):
            if len(args) != 2:
                raise AnalysisError(f"{n} with {len(args)} arguments")
            return TyVal(("map", self.to_ty(args[0]).ty, self.to_ty(args[1]).ty))
        if n == "Tuple":
            return TyVal(("tup", tuple(self.to_ty(a).ty for a in args)))
        if n == "Literal":
            return TyVal(("lit", tuple(args)))
        raise AnalysisError(f"typing.{n}[...] is not modelled")


def _fold_get_converter(hm, it, g, make_conv, here_cls, regs, facs, preds):
    """Hooks that converters.get_converter registers itself (before or after handing the converter to
    register_hooks) end up on the very converter users get: get_converter is folded with register_hooks stubbed, and what
    it registers is placed before / after the registrations of _hooks.py in registration order."""
    from .microeval import Interp, Closure, ModuleRef, Record, Raised
    src = getattr(hm, "src", None)
    if src is None or not src.exists(P_CONVERTERS):
        return
    try:
        tree = ast.parse(src.text(P_CONVERTERS))
    except SyntaxError as e:
        raise AnalysisError(f"{P_CONVERTERS}: syntax error: {e}")
    gc = next((st for st in tree.body if isinstance(st, ast.FunctionDef) and st.name == "get_converter"), None)
    if gc is None:
        return
    # is anything registered here at all?  (the pinned get_converter only delegates)
    if not any(isinstance(n, ast.Attribute) and n.attr.startswith("register_") and n.attr != "register_hooks"
               for n in ast.walk(tree)):
        return
    before, after, seen_rh = [], [], []
    own_regs, own_facs, own_preds = [], [], []

    class Here(here_cls):
        def fn(self, hook=None):
            node = getattr(hook, "node", None)
            name = getattr(node, "name", None)
            return "converters.get_converter", gc.args.args[0].arg if gc.args.args else "converter"
    cg = dict(g)
    types_mod = g.get(hm.types_alias)
    conv_holder = {}

    def rh(c):
        seen_rh.append(len(own_regs) + len(own_preds) + len(own_facs))
        return c
    cit = Interp(name=P_CONVERTERS, extra_globals=cg)
    for st in tree.body:
        if isinstance(st, ast.ImportFrom):
            for a in st.names:
                nm = a.asname or a.name
                if a.name == "types":
                    cit.globals[nm] = types_mod
                elif a.name == "_hooks":
                    cit.globals[nm] = ModuleRef("_hooks", attrs={"register_hooks": ("host", rh)})
                elif a.name == "register_hooks":
                    cit.globals[nm] = ("host", rh)
        elif isinstance(st, ast.FunctionDef):
            cit.globals[st.name] = Closure(st, None, cit)
    # registrations made through this converter object are collected separately
    n_r, n_f, n_p = len(regs), len(facs), len(preds)
    conv = make_conv(Here())
    cit.globals["cattrs"] = ModuleRef("cattrs", attrs={"Converter": ("host", lambda *a, **k: conv),
                                                        "gen": g["cattrs"].attrs.get("gen") if isinstance(g.get("cattrs"), ModuleRef) else None})
    try:
        cit.call(gc, [])
    except Raised as e:
        raise AnalysisError(f"{P_CONVERTERS}: get_converter raises {e.exc_name} when folded")
    new_r, new_f, new_p = regs[n_r:], facs[n_f:], preds[n_p:]
    del regs[n_r:], facs[n_f:], preds[n_p:]
    cut = seen_rh[0] if seen_rh else 0
    # everything registered before the register_hooks call precedes the package's own registrations
    k = 0
    pre_r, post_r = [], []
    for r_ in new_r:
        (pre_r if k < cut else post_r).append(r_)
        k += 1
    regs[:0] = pre_r
    regs.extend(post_r)
    facs.extend(new_f)
    preds.extend(new_p)
    for r_ in new_r:
        r_.table = "<converters.py>"


def fold_registrations(hm: "HooksModule"):
    """-> (registrations [Registration], factories [(direction, predicate value, Closure)]) or raises AnalysisError"""
    from . import microeval
    from .microeval import Interp, Record, ClassRef, ModuleRef, Closure, Raised
    t = hm.types

    def to_ty(v) -> TyVal:
        return value_to_ty(t, v)

    def class_ref(name):
        c = t.classes[name]
        if c.kind == "enum":
            members = [Record(name, {"value": val, "name": mn}) for mn, val in c.members]

            def ctor(v, _members=members):
                for m_ in _members:
                    if m_.fields["value"] == v and type(m_.fields["value"]) is type(v):
                        return m_
                raise Raised("ValueError", (f"{v!r} is not a valid {name}",))
            return ClassRef(name, c.kind, ([c.enum_base] if c.enum_base else []) + ["Enum"], call=ctor, iter=lambda _m=members: _m)
        return ClassRef(name, c.kind, [])
    tattrs = {}
    for name in t.env:
        if name in t.classes:
            tattrs[name] = class_ref(name)
        else:
            tattrs[name] = TyVal(t.env[name], list(t.env_order.get(name, [t.env[name]])))
    amap_node = t.tables.get("ALL_TYPES_MAP")
    amap = {}
    if isinstance(amap_node, ast.Dict):
        for k, v in zip(amap_node.keys, amap_node.values):
            if isinstance(k, ast.Constant) and isinstance(v, ast.Name) and v.id in tattrs:
                amap[k.value] = tattrs[v.id]
    tattrs["ALL_TYPES_MAP"] = amap
    types_mod = ModuleRef("types", attrs=tattrs)

    phase = {"import_time": False}

    def fields(cls):
        if not isinstance(cls, ClassRef) or cls.name not in t.classes or t.classes[cls.name].kind != "attrs":
            raise AnalysisError("attrs.fields() on something that is not a generated attrs class")
        c = t.classes[cls.name]
        if phase["import_time"]:
            # module level of _hooks.py runs at import, before register_hooks resolves the string annotations:
            # attrs.fields(C).f.type is still the annotation as written (forward references unresolved)
            return Record("Fields", {f.name: Record("Attribute", {"name": f.name, "type": TyVal(f.ty, list(f.ty_order))})
                                     for f in c.fields})
        return Record("Fields", {f.name: Record("Attribute", {"name": f.name, "type": TyVal(f.resolved, t.resolve_order(f.ty_order))})
                                 for f in c.fields})
    attrs_mod = ModuleRef("attrs", attrs={"fields": ("host", fields),
                                          "has": ("host", lambda c: isinstance(c, ClassRef) and c.kind == "attrs")})
    enum_mod = ModuleRef("enum", attrs={"Enum": ClassRef("Enum", "enumbase"), "IntEnum": ClassRef("Enum", "enumbase")})
    sys_mod = ModuleRef("sys", attrs={"version_info": (3, 8, 0, "final", 0)})
    g = {hm.types_alias: types_mod, "attrs": attrs_mod, "enum": enum_mod, "sys": sys_mod,
         "cattrs": ModuleRef("cattrs", attrs={"gen": ModuleRef("cattrs.gen", attrs={
             # the per-class factories are folded on their own (special.fold_factories); here the generator functions only
             # have to exist as values (they may be bound into a functools.partial at registration time)
             "make_dict_unstructure_fn": ("host", lambda cls, conv, **kw: Record("generated_fn", {"direction": "unstructure", "cls": cls, "converter": conv, "overrides": kw})),
             "make_dict_structure_fn": ("host", lambda cls, conv, **kw: Record("generated_fn", {"direction": "structure", "cls": cls, "converter": conv, "overrides": kw})),
             "override": ("host", lambda **kw: Record("override", kw)),
         }), "Converter": ClassRef("Converter")})}
    for n in ("Union", "Optional", "Sequence", "List", "Iterable", "Dict", "Mapping", "Tuple", "Literal"):
        g[n] = TypingHead(n, to_ty)
    g["Any"] = TyVal(("prim", "any"))
    SEQ_ORIGIN = ClassRef("collections.abc.Sequence", "abc")
    MAP_ORIGIN = ClassRef("dict", "abc")

    def from_ty(ty):
        """tyexpr -> the value the evaluator uses for that type object"""
        k = ty[0]
        if k == "prim":
            return {"int": int, "str": str, "bool": bool, "float": float, "none": type(None), "object": object}.get(ty[1], TyVal(ty))
        if k in ("cls", "enum", "opaque"):
            return tattrs.get(ty[1], TyVal(ty))
        return TyVal(ty)

    def get_origin(v):
        if not isinstance(v, TyVal):
            return None
        k = v.ty[0]
        if k == "union":
            return g["Union"]
        if k == "seq":
            return SEQ_ORIGIN
        if k == "list":
            return list
        if k == "tup":
            return tuple
        if k == "map":
            return dict
        if k == "lit":
            return g["Literal"]
        return None

    def get_args(v):
        if not isinstance(v, TyVal):
            return ()
        k = v.ty[0]
        if k == "union":
            return tuple(from_ty(m) for m in v.order)
        if k in ("seq", "list"):
            return (from_ty(v.ty[1]),)
        if k == "tup":
            return tuple(from_ty(x) for x in v.ty[1])
        if k == "map":
            return (from_ty(v.ty[1]), from_ty(v.ty[2]))
        if k == "lit":
            return tuple(v.ty[1])
        return ()
    g["get_origin"] = ("host", get_origin)
    g["get_args"] = ("host", get_args)
    g["typing"] = ModuleRef("typing", attrs={**{n: g[n] for n in ("Union", "Optional", "Sequence", "List", "Dict", "Tuple",
                                                                   "Literal", "Any")},
                                             "get_origin": ("host", get_origin), "get_args": ("host", get_args)})
    g["abc"] = ModuleRef("collections.abc", attrs={"Sequence": SEQ_ORIGIN, "Mapping": MAP_ORIGIN})
    g["collections"] = ModuleRef("collections", attrs={"abc": g["abc"]})
    g["Ellipsis"] = Ellipsis
    it = Interp(name=hm.rel, extra_globals=g)
    it.globals["functools"] = microeval.functools_module(it)
    it.globals["itertools"] = microeval._itertools_module(it)
    hm.fold_interp = it
    hm.fold_from_ty = from_ty
    # module level of _hooks.py: functions and simple assignments (type aliases, constants)
    phase["import_time"] = True
    for st in hm.tree.body:
        if isinstance(st, ast.FunctionDef):
            it.globals[st.name] = Closure(st, None, it)
        elif isinstance(st, (ast.Assign, ast.AnnAssign)):
            tgt = st.targets[0] if isinstance(st, ast.Assign) else st.target
            if isinstance(tgt, ast.Name) and st.value is not None:
                try:
                    it.globals[tgt.id] = it.eval(st.value, {})
                except (AnalysisError, Raised):
                    pass
    phase["import_time"] = False
    regs, facs, preds = [], [], []
    hm.predicate_hooks = preds
    # lexical home of every nested function: the hook's `converter` is the parameter of the function around it
    enclosing = {}
    for f in hm.functions.values():
        for n_ in ast.walk(f):
            if n_ is not f and isinstance(n_, (ast.FunctionDef, ast.Lambda)):
                enclosing.setdefault(id(n_), f)
    events = []

    class _Here:
        """where a registration happens: the innermost module-level function on the evaluator's call stack"""
        def __init__(self, default=None):
            self.default = default

        def fn(self, hook=None):
            node = getattr(hook, "node", None)
            f = enclosing.get(id(node)) if node is not None else None
            if f is None:
                for c in reversed(getattr(it, "call_stack", [])):
                    if c in hm.functions.values() and c.name != "register_hooks":
                        f = c
                        break
            if f is None:
                f = self.default
            if f is None or not f.args.args:
                raise AnalysisError(f"{hm.rel}: cannot tell which function registers a hook")
            return f.name, f.args.args[0].arg

    def make_conv(here):
        def mk_reg():
            def register(key, hook=None):
                fn_name, conv_name = here.fn(hook)
                events.append("register")
                if hook is None:
                    raise AnalysisError(f"{hm.rel}: decorator form of register_structure_hook is not modelled")
                tv = to_ty(key)
                if not isinstance(hook, Closure):
                    raise AnalysisError(f"{hm.rel}: a structure hook in {fn_name} is not a function defined in the package")
                node = hook.node
                r_ = Registration(tv.ty, tv.order, node, getattr(node, "name", "<lambda>"), "<folded>",
                                  node.lineno, fn_name, conv_name, show(tv.ty))
                r_.closure = hook
                r_.nbound = len(getattr(hook, "bound", ()))
                regs.append(r_)
            return ("host", register)

        def mk_fac(direction):
            def r(pred, factory=None):
                fn_name, _c = here.fn(factory)
                events.append("register")
                facs.append((direction, pred, factory, fn_name))
                return factory
            return ("host", r)

        def mk_pred():
            def r(pred, hook):
                fn_name, conv_name = here.fn(hook)
                events.append("register")
                if not isinstance(hook, Closure):
                    raise AnalysisError(f"{hm.rel}: a predicate structure hook in {fn_name} is not a package function")
                preds.append((pred, hook, fn_name, conv_name))
            return ("host", r)
        return Record("Converter", {"register_structure_hook": mk_reg(),
                                    "register_structure_hook_func": mk_pred(),
                                    "register_structure_hook_factory": mk_fac("structure"),
                                    "register_unstructure_hook_factory": mk_fac("unstructure")})

    # the resolver touches attrs and a lock; it is folded on its own (C03) and only its position matters here
    if "_resolve_forward_references" in hm.functions:
        it.globals["_resolve_forward_references"] = ("host", lambda: events.append("resolve"))
    whole_err = None
    try:
        it.call(hm.functions["register_hooks"], [make_conv(_Here())])
        whole = True
    except Raised as e:
        whole, whole_err = False, f"register_hooks raises {e.exc_name} when folded"
    except AnalysisError as e:
        whole, whole_err = False, str(e)
    if whole:
        _fold_get_converter(hm, it, g, make_conv, _Here, regs, facs, preds)
        hm.resolver_first = "resolve" in events and events.index("resolve") == 0
        seen_fns = []
        for r_ in regs:
            if r_.register_fn not in seen_fns:
                seen_fns.append(r_.register_fn)
        if hm.register_hooks_calls is None:
            hm.register_order = (["_resolve_forward_references"] if hm.resolver_first else []) + seen_fns
        return regs, facs
    if hm.register_hooks_calls is None:
        raise AnalysisError(f"{hm.rel}: {whole_err}")
    del regs[:], facs[:], preds[:], events[:]
    for fn_name, args in hm.register_hooks_calls:
        if not args:
            continue
        fn = hm.functions[fn_name]
        try:
            it.call(fn, [make_conv(_Here(fn))])
        except Raised as e:
            raise AnalysisError(f"{hm.rel}: {fn_name} raises {e.exc_name} when folded")
    return regs, facs
