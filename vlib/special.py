"""Null-versus-omitted machinery shared by C01, C02 and C10: the special-property table, the folded
is_special_property/_omit helpers and the wiring of the two per-class factories."""
from __future__ import annotations

import ast

from .common import AnalysisError, P_HOOKS, P_TYPES
from .pymodel import dotted, MISSING
from .image import Image
from . import microeval


def expected_special(im: Image) -> dict[str, str]:
    """'Class.attr' -> reason, for every attribute that must never be omitted."""
    out: dict[str, str] = {}
    for p in im.pairs:
        if p.prop.literal:
            out[f"{p.cls.name}.{p.field.name}"] = "string literal"
        elif p.prop.null_admitting:
            out[f"{p.cls.name}.{p.field.name}"] = "null-admitting"
    for name, (kind, msg) in im.envelope_names().items():
        if kind in ("request", "notification"):
            out[f"{name}.method"] = "envelope method"
            out[f"{name}.jsonrpc"] = "envelope jsonrpc"
        else:
            out[f"{name}.result"] = "response result"
            out[f"{name}.jsonrpc"] = "envelope jsonrpc"
    out["ResponseErrorMessage.error"] = "error response"
    out["ResponseErrorMessage.jsonrpc"] = "envelope jsonrpc"
    return out


def special_table(im: Image) -> list[str]:
    return im.types.table_list_of_names("_SPECIAL_PROPERTIES")


def fold_omit(im: Image):
    """-> function (class name, attr name) -> bool computed by the package's own _omit /
    is_special_property, constant-folded by E5."""
    t, h = im.types, im.hooks
    tit = microeval.Interp(name=t.rel)
    for name in ("_SPECIAL_PROPERTIES",):
        node = t.tables.get(name)
        if node is None:
            raise AnalysisError(f"{t.rel}: {name} not found")
        tit.globals[name] = tit.eval(node, {})
    fn = t.functions.get("is_special_property")
    if fn is None:
        raise AnalysisError(f"{t.rel}: is_special_property not found")
    tit.globals["is_special_property"] = microeval.Closure(fn, None, tit)
    types_mod = microeval.ModuleRef("types", interp=tit)
    reg = h.functions.get("_register_custom_property_hooks")
    if reg is None:
        raise AnalysisError(f"{h.rel}: _register_custom_property_hooks not found")
    omit = next((s for s in reg.body if isinstance(s, ast.FunctionDef) and s.name == "_omit"), None)
    if omit is None:
        raise AnalysisError(f"{h.rel}: _omit not found")
    hit = microeval.Interp(name=h.rel, extra_globals={h.types_alias: types_mod})

    def f(cname: str, attr: str) -> bool:
        try:
            r = hit.call(omit, [microeval.ClassRef(cname), attr])
        except microeval.Raised as e:
            raise AnalysisError(f"{h.rel}: _omit({cname}, {attr!r}) raises {e.exc_name}")
        if not isinstance(r, bool):
            raise AnalysisError(f"{h.rel}: _omit does not return a bool")
        return r
    return f


def factory_wiring(im: Image) -> list[tuple[str, str, int]]:
    """Dataflow-shape check of the two per-class factories.  -> list of (construct, problem, lineno)."""
    h = im.hooks
    problems = []
    facs = {f.direction: f for f in h.factories}
    for direction, maker in (("unstructure", "make_dict_unstructure_fn"), ("structure", "make_dict_structure_fn")):
        fr = facs.get(direction)
        if fr is None:
            problems.append((f"{direction}-factory", f"no {direction} hook factory is registered", 0))
            continue
        if fr.predicate not in ("attrs.has", "attr.has"):
            problems.append((f"{direction}-factory", f"factory predicate is {fr.predicate}, not attrs.has", fr.lineno))
        fn = fr.factory
        if len(fn.args.args) != 1:
            problems.append((fn.name, "factory does not take exactly the class", fn.lineno))
            continue
        cls = fn.args.args[0].arg
        body = [s for s in fn.body if not (isinstance(s, ast.Expr) and isinstance(s.value, ast.Constant))]
        if len(body) != 2 or not isinstance(body[0], ast.Assign) or not isinstance(body[1], ast.Return):
            raise AnalysisError(f"{h.rel}:{fn.lineno}: {fn.name} no longer has the shape "
                                "`attributes = {...}; return make_dict_..._fn(...)`")
        tgt = body[0].targets[0]
        comp = body[0].value
        if not (isinstance(tgt, ast.Name) and isinstance(comp, ast.DictComp) and len(comp.generators) == 1):
            raise AnalysisError(f"{h.rel}:{fn.lineno}: {fn.name}: overrides are not built by one dict comprehension")
        g = comp.generators[0]
        var = g.target.id if isinstance(g.target, ast.Name) else None
        it_ok = isinstance(g.iter, ast.Call) and dotted(g.iter.func) in ("attrs.fields", "attr.fields") \
            and len(g.iter.args) == 1 and dotted(g.iter.args[0]) == cls
        if not it_ok or var is None:
            problems.append((fn.name, "overrides are not computed for every entry of attrs.fields(cls)", fn.lineno))
            continue
        if g.ifs:
            problems.append((fn.name, "the override comprehension filters attributes", fn.lineno))
        if dotted(comp.key) != f"{var}.name":
            problems.append((fn.name, "override key is not the attribute name", fn.lineno))
        val = comp.value
        if not (isinstance(val, ast.Call) and (dotted(val.func) or "").endswith("override")):
            problems.append((fn.name, "override value is not cattrs.gen.override(...)", fn.lineno))
            continue
        kws = {k.arg: k.value for k in val.keywords}
        rn = kws.get("rename")
        if not (isinstance(rn, ast.Call) and dotted(rn.func) == "_to_camel_case" and len(rn.args) == 1
                and dotted(rn.args[0]) == f"{var}.name"):
            problems.append((fn.name, "rename= is not _to_camel_case(<attribute>.name)", fn.lineno))
        om = kws.get("omit_if_default")
        if not (isinstance(om, ast.Call) and dotted(om.func) == "_omit" and len(om.args) == 2
                and dotted(om.args[0]) == cls and dotted(om.args[1]) == f"{var}.name"):
            problems.append((fn.name, "omit_if_default= is not _omit(cls, <attribute>.name)", fn.lineno))
        extra = set(kws) - {"rename", "omit_if_default"}
        if extra:
            problems.append((fn.name, f"override carries extra keywords {sorted(extra)}", fn.lineno))
        ret = body[1].value
        ok = isinstance(ret, ast.Call) and (dotted(ret.func) or "").endswith(maker) and len(ret.args) == 2 \
            and dotted(ret.args[0]) == cls and dotted(ret.args[1]) == fr.conv_name \
            and len(ret.keywords) == 1 and ret.keywords[0].arg is None and dotted(ret.keywords[0].value) == tgt.id
        if not ok:
            problems.append((fn.name, f"does not return {maker}(cls, converter, **{tgt.id})", fn.lineno))
    return problems
