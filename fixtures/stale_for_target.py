# Positive fixture for the for-target liveness rule (C08): must be reported on every run.
def emit(spec):
    out = []
    for request in spec.requests:
        out.append(request.method)
    for notification in spec.notifications:
        out.append((notification.method, request.messageDirection))  # stale read of `request`
    return out


def fine(spec):
    out = []
    for request in spec.requests:
        out.append(request.method)
    for request in spec.notifications:   # re-bound: not stale
        out.append(request.method)
    request = None
    return out, request
