"""C08 -- .NET classes declare the metamodel's wire schema and message metadata."""
import ast
import os

from ..common import Ctx, P_HOOKS, AnalysisError, VERIF_ROOT
from ..genlint import Index, Module, dotted, stale_for_target_reads, _targets, calls_in

P_CLASSES = "generator/plugins/dotnet/dotnet_classes.py"
P_ENUMS = "generator/plugins/dotnet/dotnet_enums.py"

META = {
    "level": "other",
    "explanation": (
        "No C# is committed, so the plugin source is analysed. Decided clauses: (1) for-target liveness, armed "
        "over all of generator/ and _hooks.py: no read of a `for` target after its loop has ended (the rule that "
        "exposes metadata taken from the last element of an earlier loop); a positive fixture under "
        "/verif/fixtures must be reported on every run. (2) metadata comes from the message being emitted: in "
        "generate_all_classes every interpolation inside a Direction(...), LSPRequest(...), LSPResponse(...) "
        "attribute template is def-use-derived from the target of the innermost enclosing `for` over "
        "spec.requests / spec.notifications (get_name(x), x.method, x.messageDirection, names assigned from those "
        "inside the loop). (3) wire data reaches its template verbatim: the value interpolated right after "
        "`DataMember(Name = \"`, `EnumMember(Value = \"`, `<member> = ` of integer enums, `LSPRequest(\"` and the "
        "LSPMethods constants is the plain attribute .name / .value / .method of the property / enum item / "
        "message being emitted, with no intervening call. (4) the response typeof in LSPRequest and the request "
        "typeof in LSPResponse derive from get_name of the same loop variable. (5) member fold: generate_property "
        "and the constructor generator are evaluated (E5, the type-name helper stubbed) on a synthetic property for "
        "each type kind x optional x null-admitting: the member is nullable iff optional or null-admitting, carries "
        "NullValueHandling.Ignore iff optional and not null-admitting, its DataMember name is the wire name verbatim, "
        "the JSON constructor assigns it and gives it a default iff it may be absent. (6) message fold: the bodies of "
        "both message loops of generate_all_classes are evaluated for each of the 95 metamodel messages with the "
        "class emitter stubbed: LSPRequest carries the exact method string and typeof(the response class emitted for "
        "the same request), LSPResponse the request class, Direction the metamodel's direction of that method. "
        "(7) the dotnet flattening (own / extends / mixins, nearest declaration wins) is folded on the synthetic "
        "inheritance lattice of C06 and compared with the reference flattening. (8) type mapping: get_type_name is "
        "folded on one synthetic type per kind (9 base types, struct / closed / open-string / open-integer enum "
        "references, arrays, maps, tuples, string literals, unions with and without null, nested forms) and must give "
        "the C# type of the mapping stated in the checker; generate_property declares the member with exactly that "
        "name."),
    "trusted_base": ["Python scoping: a for target keeps its last value after the loop",
                     "E5 evaluates the plugin's string-building code as CPython would"],
    "assumptions": [],
    "not_decided": ["C# names generated for anonymous literal types and for `or`-valued map values (fresh class names)",
                    "the emitted .cs files for evolved metamodels (needs running the plugin)"],
}


def fstrings(fn):
    for n in ast.walk(fn):
        if isinstance(n, ast.JoinedStr):
            yield n


def following_value(js: ast.JoinedStr, marker: str):
    """FormattedValue nodes that directly follow a constant chunk ending with `marker`."""
    out = []
    vals = js.values
    for i, v in enumerate(vals):
        if isinstance(v, ast.Constant) and isinstance(v.value, str) and v.value.endswith(marker) and i + 1 < len(vals) \
                and isinstance(vals[i + 1], ast.FormattedValue):
            out.append(vals[i + 1])
    return out


def derived_names(loop: ast.For):
    """Names def-use-derived from the loop target inside the loop body (fixpoint over simple assignments)."""
    base = set(_targets(loop.target))
    derived = set(base)
    changed = True
    while changed:
        changed = False
        for st in ast.walk(loop):
            if isinstance(st, ast.Assign):
                used = {n.id for n in ast.walk(st.value) if isinstance(n, ast.Name)}
                if used & derived:
                    for t in st.targets:
                        for nm in _targets(t):
                            if nm not in derived:
                                derived.add(nm)
                                changed = True
    return base, derived


def fold_directions(ctx: Ctx, idx, cm, gac, msg_loops) -> int:
    """Semantic form of `direction-of-own-message`: the attribute expressions handed to
    generate_class_from_struct inside each message loop are constant-folded (E5) with the loop variable
    bound to an abstract message of each direction; exactly one of them must fold to
    [Direction(MessageDirection.<UpperCamel(direction)>)].  Robust against moving the template into a helper."""
    from .. import microeval
    from ..microeval import Record, Raised
    hm = idx.get("generator/plugins/dotnet/dotnet_helpers.py")
    hit = microeval.Interp(hm.tree, name=hm.rel)
    it = microeval.Interp(cm.tree, name=P_CLASSES)
    for nm, v in hit.globals.items():
        it.globals.setdefault(nm, v)
    it.globals["get_type_name"] = ("host", lambda *a, **k: "SomeType")
    n = 0
    for loop in msg_loops:
        lv = _targets(loop.target)[0]
        which = dotted(loop.iter)
        attr_lists = []
        for c in calls_in(loop):
            if dotted(c.func) == "generate_class_from_struct":
                cand = [a for a in list(c.args[3:]) + [k.value for k in c.keywords] if isinstance(a, ast.List)]
                attr_lists += cand
        if not attr_lists:
            # the attribute templates were moved out of the loop body: the per-message fold (_fold_message_loops) executes
            # the loop body as a whole and decides the same clause for every method
            continue
        for d in ("clientToServer", "serverToClient", "both"):
            want = f"[Direction(MessageDirection.{d[0].upper() + d[1:]})]"
            msg = Record("Message", {"messageDirection": d, "method": "some/method", "params": None, "result": None,
                                     "partialResult": None, "typeName": "SomeRequest", "documentation": None,
                                     "since": None, "proposed": None, "deprecated": None, "registrationOptions": None})
            env = {lv: msg, "request_name": "SomeRequest", "response_name": "SomeResponse",
                   "partial_result_name": None, "__parent__": None}
            folded = []
            for lst in attr_lists:
                for e in lst.elts:
                    try:
                        v = it.eval(e, env)
                    except Raised as ex:
                        raise AnalysisError(f"{P_CLASSES}:{e.lineno}: attribute expression raises {ex.exc_name} when folded")
                    except AnalysisError as ex:
                        free = sorted({n_.id for n_ in ast.walk(e) if isinstance(n_, ast.Name)} - set(env) - set(it.globals))
                        if free:
                            # the expression reads a variable that this loop does not bind: at run time it holds
                            # whatever an earlier loop left there
                            ctx.fail("direction-folded", f"generate_all_classes:{which}:{d}:reads:{','.join(free)}",
                                     f"a class attribute emitted for each element of {which} reads {free}, which the loop over "
                                     f"{which} does not bind (left over from an earlier loop)", P_CLASSES, e.lineno)
                            continue
                        raise
                    if isinstance(v, str):
                        folded.append(v)
            dirs = [v for v in folded if v.startswith("[Direction(")]
            n += 1
            ctx.check(dirs == [want], "direction-folded", f"generate_all_classes:{which}:{d}",
                      f"for a message with messageDirection '{d}' in {which} the emitted class attributes fold to {dirs or folded}; "
                      f"expected exactly {want}", P_CLASSES, loop.lineno, sample={"loop": which, "direction": d, "attributes": folded})
    return n


def run(ctx: Ctx):
    idx = Index(ctx.src, dirs=("generator",), extra=(P_HOOKS,))
    # ---- (1) for-target liveness, repo-wide
    nfn = nloops = 0
    for rel, m in sorted(idx.modules.items()):
        for fn in m.all_functions():
            nfn += 1
            nloops += sum(1 for n in ast.walk(fn) if isinstance(n, ast.For))
            hits = stale_for_target_reads(fn)
            if not hits:
                ctx.ok("no-stale-for-target")
            for name, node, loop in hits:
                ctx.fail("no-stale-for-target", f"{rel}:{fn.name}:{name}",
                         f"`{name}` is read after the loop that binds it has ended (line {loop.lineno}): the value of the "
                         f"last iteration is used for every later item", rel, node.lineno)
            ctx.fn(f"{rel}:{fn.name}")
    ctx.floor("functions scanned for stale for-targets", nfn, 150)
    ctx.floor("for loops scanned", nloops, 100)
    # positive fixture
    fx = os.path.join(VERIF_ROOT, "fixtures", "stale_for_target.py")
    try:
        with open(fx, encoding="utf-8") as f:
            fm = Module("fixtures/stale_for_target.py", f.read())
    except OSError as e:
        raise AnalysisError(f"positive fixture missing: {e}")
    fhits = [(fn.name, n) for fn in fm.all_functions() for n, _, _ in stale_for_target_reads(fn)]
    if fhits != [("emit", "request")]:
        raise AnalysisError(f"for-target liveness rule no longer matches its positive fixture exactly: {fhits}")
    ctx.extra["positive_fixture"] = "fixtures/stale_for_target.py: reported emit/request, silent on fine()"

    # ---- (2)+(4) metadata templates in generate_all_classes
    cm = idx.get(P_CLASSES)
    gac = cm.functions.get("generate_all_classes")
    if gac is None:
        raise AnalysisError(f"{P_CLASSES}: generate_all_classes not found")
    ctx.fn("dotnet_classes.py:generate_all_classes")
    msg_loops = []
    for n in ast.walk(gac):
        if isinstance(n, ast.For) and dotted(n.iter) in ("spec.requests", "spec.notifications"):
            msg_loops.append(n)
    ctx.floor("message loops in generate_all_classes", len(msg_loops), 2)
    n_templates = 0
    for loop in msg_loops:
        base, derived = derived_names(loop)
        which = dotted(loop.iter)
        for js in fstrings(loop):
            text = "".join(v.value for v in js.values if isinstance(v, ast.Constant) and isinstance(v.value, str))
            kind = None
            for marker in ("Direction(", "LSPRequest(", "LSPResponse("):
                if marker in text:
                    kind = marker.rstrip("(")
            if kind is None:
                continue
            n_templates += 1
            for fv in (v for v in js.values if isinstance(v, ast.FormattedValue)):
                names = {n.id for n in ast.walk(fv.value) if isinstance(n, ast.Name)}
                free = {n for n in names if n not in ("to_upper_camel_case", "get_name", "get_type_name", "types", "spec")}
                bad = sorted(free - derived)
                ctx.check(not bad, "metadata-from-emitted-message", f"generate_all_classes:{which}:{kind}:{ast.unparse(fv.value)[:40]}",
                          f"the {kind} attribute of the class emitted for each element of {which} interpolates "
                          f"`{ast.unparse(fv.value)}`, which reads {bad}: not the message being emitted", P_CLASSES, fv.value.lineno,
                          sample={"loop": which, "template": kind, "expr": ast.unparse(fv.value)})
            if kind == "Direction":
                exprs = [v.value for v in js.values if isinstance(v, ast.FormattedValue)]
                ok = any(isinstance(a, ast.Attribute) and a.attr == "messageDirection" and isinstance(a.value, ast.Name)
                         and a.value.id in base for e in exprs for a in ast.walk(e))
                ctx.check(ok, "direction-of-own-message", f"generate_all_classes:{which}:Direction",
                          f"Direction(...) for {which} does not read <loop variable>.messageDirection", P_CLASSES, js.lineno)
            if kind == "LSPRequest":
                fvs = following_value(js, 'LSPRequest("')
                ok = any(isinstance(fv.value, ast.Attribute) and fv.value.attr == "method" and dotted(fv.value.value) in base for fv in fvs)
                ctx.check(ok, "verbatim-wire-data", f"generate_all_classes:{which}:LSPRequest:method",
                          "LSPRequest(\"...\") does not interpolate <loop variable>.method verbatim", P_CLASSES, js.lineno)
    n_folded = fold_directions(ctx, idx, cm, gac, msg_loops)
    if n_templates + n_folded < 4:
        ctx.notes.append("metadata templates are not in the pinned place; decided by the per-message fold only")
    # pairing: response_name/request_name derive from get_name(<loop var>)
    for loop in msg_loops:
        if dotted(loop.iter) != "spec.requests":
            continue
        base, _ = derived_names(loop)
        lv = next(iter(base))
        got = {}
        for st in loop.body:
            if isinstance(st, ast.Assign) and isinstance(st.value, ast.Call) and dotted(st.value.func) == "get_name":
                got[dotted(st.targets[0])] = dotted(st.value.args[0]) if st.value.args else None
        # syntactic form, applied only where the loop has the pinned shape (plain name bindings); the per-message fold
        # (_fold_message_loops) decides the pairing on the emitted attributes whatever the shape
        if "request_name" in got:
            ctx.check(got.get("request_name") == lv, "request-response-pairing", "generate_all_classes:request_name",
                      f"request_name is not get_name({lv})", P_CLASSES, loop.lineno)
        rn = [st for st in loop.body if isinstance(st, ast.Assign) and dotted(st.targets[0]) == "response_name"]
        if rn and isinstance(rn[0].value, ast.Name):
            ctx.check(dotted(rn[0].value) == "request_name", "request-response-pairing", "generate_all_classes:response_name",
                      "response_name is not derived from request_name", P_CLASSES, loop.lineno)
        tmpl = {"LSPRequest(": "response_name", "LSPResponse(": "request_name"}
        for js in fstrings(loop):
            text = "".join(v.value for v in js.values if isinstance(v, ast.Constant) and isinstance(v.value, str))
            for marker, want in tmpl.items():
                if marker in text:
                    fvs = following_value(js, "typeof(")
                    names = [dotted(fv.value) for fv in fvs]
                    ctx.check(want in names, "request-response-pairing", f"generate_all_classes:{marker}typeof",
                              f"{marker}...) does not reference typeof({{{want}}}) (found {names})", P_CLASSES, js.lineno)

    # ---- (3) verbatim wire data: syntactic form of the rule, applied where the templates have the pinned shape; the
    # folds (_fold_members, _fold_enums, _fold_method_constants) decide the same clause on the emitted text whatever
    # the shape of the code
    gp = cm.functions.get("generate_property")
    if gp is None:
        raise AnalysisError(f"{P_CLASSES}: generate_property not found")
    ctx.fn("dotnet_classes.py:generate_property")
    prop_param = gp.args.args[0].arg
    hits = [fv for js in fstrings(gp) for fv in following_value(js, 'DataMember(Name = "')]
    for fv in hits:
        ok = isinstance(fv.value, ast.Attribute) and fv.value.attr == "name" and dotted(fv.value.value) == prop_param \
            and fv.conversion == -1 and fv.format_spec is None
        ctx.check(ok, "verbatim-wire-data", "generate_property:DataMember",
                  f"DataMember(Name = ...) interpolates `{ast.unparse(fv.value)}`, not {prop_param}.name verbatim",
                  P_CLASSES, fv.value.lineno, sample={"template": "DataMember", "expr": ast.unparse(fv.value)})
    em = idx.get(P_ENUMS)
    ge = em.functions.get("generate_enum")
    if ge is None:
        raise AnalysisError(f"{P_ENUMS}: generate_enum not found")
    ctx.fn("dotnet_enums.py:generate_enum")
    item_loops = [n for n in ast.walk(ge) if isinstance(n, ast.For) and isinstance(n.iter, ast.Attribute) and n.iter.attr == "values"]
    if len(item_loops) == 1:
        item = _targets(item_loops[0].target)[0]
        h1 = [fv for js in fstrings(item_loops[0]) for fv in following_value(js, 'EnumMember(Value = "')]
        h2 = [fv for js in fstrings(item_loops[0]) for fv in following_value(js, " = ")]
        for tag, fvs in (("EnumMember", h1), ("int-member", h2)):
            for fv in fvs:
                ok = isinstance(fv.value, ast.Attribute) and fv.value.attr == "value" and dotted(fv.value.value) == item \
                    and fv.conversion == -1
                ctx.check(ok, "verbatim-wire-data", f"generate_enum:{tag}",
                          f"{tag} interpolates `{ast.unparse(fv.value)}`, not {item}.value verbatim", P_ENUMS, fv.value.lineno)
    for fname in ("generate_code_for_request", "generate_code_for_notification"):
        fn = cm.functions.get(fname)
        if fn is None:
            continue
        ctx.fn(f"dotnet_classes.py:{fname}")
        par = fn.args.args[0].arg
        hv = [fv for js in fstrings(fn) for fv in following_value(js, ' { get; } = "')]
        for fv in hv:
            ok = isinstance(fv.value, ast.Attribute) and fv.value.attr == "method" and dotted(fv.value.value) == par
            ctx.check(ok, "verbatim-wire-data", f"{fname}:LSPMethods",
                      f"method constant interpolates `{ast.unparse(fv.value)}`, not {par}.method", P_CLASSES, fv.value.lineno)


def _fold_enums(ctx: Ctx, idx):
    """generate_enum evaluated (E5) on synthetic enumerations: the emitted members carry exactly the values given,
    corner values included (empty string, '$/', dots, zero, negatives)."""
    import re as _re
    from .. import microeval
    from ..microeval import Record, Raised
    em = idx.get(P_ENUMS)
    hm = idx.get("generator/plugins/dotnet/dotnet_helpers.py")
    hit = microeval.Interp(hm.tree, name=hm.rel)
    it = microeval.Interp(em.tree, name=P_ENUMS)
    for nm, v in hit.globals.items():
        it.globals.setdefault(nm, v)
    it.globals.setdefault("NAMESPACE", "Ns")
    ge = em.functions.get("generate_enum")

    doc = "first line\rSecond = 2,\u2028third"

    def enum(name, items):
        return Record("Enum", {"name": name, "documentation": doc, "since": None, "proposed": None, "deprecated": None,
                               "supportsCustomValues": None, "type": Record("Type", {"kind": "base", "name": "string"}),
                               "values": [Record("EnumItem", {"name": n, "value": v, "documentation": doc, "since": None,
                                                              "proposed": None, "deprecated": None}) for n, v in items]})
    cases = {
        "string": [("Empty", ""), ("QuickFix", "quickfix"), ("SourceFixAll", "source.fixAll"), ("Dollar", "$/x"), ("Upper", "UPPER")],
        "integer": [("One", 1), ("Zero", 0), ("Negative", -1), ("Big", 2147483647)],
        # two entries may stand for one value (LanguageKind.Delphi and .Pascal are both "pascal"): both are declared
        "string with a repeated value": [("Delphi", "pascal"), ("Other", "other"), ("Pascal", "pascal")],
        "integer with a repeated value": [("First", 1), ("Alias", 1), ("Second", 2)],
    }
    n = 0
    for label, items in cases.items():
        try:
            lines = it.call(ge, [enum("SomeKind", items)])
        except Raised as e:
            raise AnalysisError(f"{P_ENUMS}: generate_enum raises {e.exc_name} when folded on a {label} enumeration")
        text = "\n".join(x for x in lines if isinstance(x, str))
        if label.startswith("string"):
            got = _re.findall(r'EnumMember\(Value = "([^"]*)"\)', text)
        else:
            got = [int(x) for x in _re.findall(r"^\s*\w+ = (-?\d+),", text, _re.M)]
        want = [v for _n, v in items]
        n += 1
        multi = [x for x in lines if isinstance(x, str) and len(x.splitlines()) > 1]
        ctx.check(not multi, "emits-single-lines", f"generate_enum:{label}",
                  f"an emitted line contains a line terminator (documentation is not split on every line boundary): {multi[:1]!r}: "
                  "C# treats it as the end of the doc comment, what follows is compiled as code (extra enum members)",
                  P_ENUMS, ge.lineno)
        ctx.check(sorted(map(str, got)) == sorted(map(str, want)), "enum-values-verbatim", f"generate_enum:{label}",
                  f"a {label} enumeration with the values {want} is emitted with the member values {got}", P_ENUMS, ge.lineno,
                  sample={"enum": label, "values": got})
    ctx.floor("enumeration kinds folded through generate_enum", n, 2)


def _fold_method_constants(ctx: Ctx, idx):
    """The LSPMethods class: generate_request_notification_methods evaluated (E5) on a synthetic spec; every method
    string of every request and notification appears verbatim as the value of exactly one constant."""
    import re as _re
    from .. import microeval
    from ..microeval import Record, Raised, ClassRef
    cm = idx.get(P_CLASSES)
    hm = idx.get("generator/plugins/dotnet/dotnet_helpers.py")
    hit = microeval.Interp(hm.tree, name=hm.rel)
    it = microeval.Interp(cm.tree, name=P_CLASSES)
    for nm, v in hit.globals.items():
        it.globals.setdefault(nm, v)
    it.globals.setdefault("NAMESPACE", "Ns")
    it.globals["get_doc"] = ("host", lambda *a, **k: [])
    it.globals["generate_extras"] = ("host", lambda *a, **k: [])
    it.globals["model"] = microeval.ModuleRef("model", attrs={"Enum": ("host", lambda **kw: Record("Enum", kw))})
    fn = cm.functions.get("generate_request_notification_methods")
    if fn is None:
        raise AnalysisError(f"{P_CLASSES}: generate_request_notification_methods not found")
    ctx.fn("dotnet_classes.py:generate_request_notification_methods")

    def msg(m):
        return Record("Message", {"method": m, "documentation": None, "since": None, "proposed": None, "deprecated": None,
                                  "messageDirection": "both", "typeName": None})
    reqs = ["textDocument/hover", "$/cancelRequestLike", "workspace/symbol", "shutdown"]
    nots = ["$/setTrace", "initialized", "textDocument/didOpen", "$/progress"]
    spec = Record("Spec", {"requests": [msg(m) for m in reqs], "notifications": [msg(m) for m in nots]})
    captured = []
    types = Record("TypeData", {"add_type_info": ("host", lambda t, name, lines: captured.append(lines))})
    try:
        it.call(fn, [spec, types])
    except Raised as e:
        raise AnalysisError(f"{P_CLASSES}: generate_request_notification_methods raises {e.exc_name} when folded")
    text = "\n".join(x for ls in captured for x in ls if isinstance(x, str))
    got = _re.findall(r'public static string (\w+) \{ get; \} = "([^"]*)";', text)
    want = reqs + nots
    ctx.check(sorted(v for _n, v in got) == sorted(want), "verbatim-wire-data", "LSPMethods:values",
              f"for the methods {want} the LSPMethods constants hold {[v for _n, v in got]}", P_CLASSES, fn.lineno,
              sample={"constants": got[:4]})
    names = [n_ for n_, _v in got]
    ctx.check(len(set(names)) == len(names), "verbatim-wire-data", "LSPMethods:names",
              f"two methods share a constant name: {names}", P_CLASSES, fn.lineno)


# ------------------------------------------------------------------------------------------------
# member nullability / null-ignoring / constructor assignment: generate_property and generate_constructor
# folded (E5) over a finite abstraction of their input

def _fold_members(ctx: Ctx, idx):
    from .. import microeval
    from ..microeval import Record, Raised

    cm = idx.get(P_CLASSES)
    hm = idx.get("generator/plugins/dotnet/dotnet_helpers.py")
    hit = microeval.Interp(hm.tree, name=hm.rel)
    # every function of the module is available to the fold (helpers extracted by refactorings included); the
    # collaborators that need the whole model are stubbed below
    it = microeval.Interp(cm.tree, name=P_CLASSES)
    for nm, v in hit.globals.items():
        it.globals.setdefault(nm, v)
    gp, gc = cm.functions.get("generate_property"), cm.functions.get("generate_constructor")
    if gp is None or gc is None:
        raise AnalysisError(f"{P_CLASSES}: generate_property / generate_constructor not found")
    current = {}
    it.globals["get_type_name"] = ("host", lambda *a, **k: current["type_name"])
    it.globals["get_converter"] = ("host", lambda *a, **k: None)
    it.globals["get_doc"] = ("host", lambda *a, **k: [])
    it.globals["generate_extras"] = ("host", lambda *a, **k: [])

    class Types:
        pass
    types_rec = Record("TypeData", {"add_ctor": ("host", lambda *a, **k: None)})

    def T(kind, **kw):
        return Record("Type", {"kind": kind, **kw})
    null = T("base", name="null")
    shapes = {
        "string": (T("base", name="string"), "string"),
        "struct": (T("reference", name="Range"), "Range"),
        # the kinds generate_property gives a declaration of their own
        "stringLiteral": (T("stringLiteral", value="create"), "string"),
        "uinteger": (T("base", name="uinteger"), "long"),
        "integer": (T("base", name="integer"), "int"),
        "boolean": (T("base", name="boolean"), "bool"),
        "uinteger|null": (T("or", items=[T("base", name="uinteger"), null]), "long"),
        "array": (T("array", element=T("base", name="string")), "ImmutableArray<string>"),
        "map": (T("map", key=T("base", name="string"), value=T("base", name="string")), "ImmutableDictionary<string, string>"),
        "string|null": (T("or", items=[T("base", name="string"), null]), "string"),
        "array|null": (T("or", items=[T("array", element=T("base", name="string")), null]), "ImmutableArray<string>"),
        # a union that merely *contains* a collection is an ordinary reference type
        "union-with-array": (T("or", items=[T("array", element=T("base", name="string")), T("reference", name="Range")]),
                             "OrType<ImmutableArray<string>, Range>"),
        "union-with-map|null": (T("or", items=[T("map", key=T("base", name="string"), value=T("base", name="string")),
                                               T("base", name="boolean"), null]),
                                "OrType<ImmutableDictionary<string, string>, bool>"),
    }
    n = 0
    for sname, (ty, tname) in shapes.items():
        for optional in (False, True):
            current["type_name"] = tname
            prop = Record("Property", {"name": "someProp", "type": ty, "optional": optional, "documentation": None,
                                       "since": None, "proposed": None, "deprecated": None})
            try:
                lines, got_type = it.call(gp, [prop, None, types_rec, [], "SomeClass"])
            except Raised as e:
                raise AnalysisError(f"{P_CLASSES}: generate_property raises {e.exc_name} when folded for {sname}")
            n += 1
            null_adm = sname.endswith("|null")
            member = next((l for l in lines if l.startswith("public ")), "")
            nullable = member.startswith(f"public {tname}? ")
            ignoring = any("NullValueHandling.Ignore" in l for l in lines)
            wire = [l for l in lines if "DataMember" in l]
            case = f"generate_property:type={sname}:optional={optional}"
            ctx.check(nullable == (optional or null_adm), "member-nullable-iff-optional", case,
                      f"a property of type {sname} (optional={optional}, null-admitting={null_adm}) is emitted as "
                      f"`{member}`: it must be nullable exactly when optional or null-admitting", P_CLASSES, gp.lineno,
                      sample={"case": case, "member": member})
            ctx.check(ignoring == (optional and not null_adm), "member-null-ignoring-iff-optional", case,
                      f"a property of type {sname} (optional={optional}, null-admitting={null_adm}) "
                      f"{'carries' if ignoring else 'lacks'} NullValueHandling.Ignore: an unset optional property must be "
                      f"left out of the JSON, a null-admitting one must be written", P_CLASSES, gp.lineno)
            ctx.check(wire == ['[DataMember(Name = "someProp")]'], "verbatim-wire-data", case + ":DataMember",
                      f"DataMember line is {wire}", P_CLASSES, gp.lineno)
            # constructor
            struct = Record("Structure", {"name": "SomeClass"})
            try:
                ctor = it.call(gc, [struct, types_rec, [(prop, tname)]])
            except Raised as e:
                raise AnalysisError(f"{P_CLASSES}: generate_constructor raises {e.exc_name} when folded for {sname}")
            ctx.check(any(l.strip() == "SomeProp = someProp;" for l in ctor), "ctor-assigns-member", case,
                      f"the JSON constructor does not assign the member: {ctor}", P_CLASSES, gc.lineno)
            has_default = any(l.strip().startswith(f"{tname}") and "=" in l for l in ctor if "someProp" in l and "SomeProp" not in l)
            ctx.check(has_default == (optional or null_adm), "ctor-optional-has-default", case,
                      f"constructor parameter for an {'optional' if optional or null_adm else 'required'} property: {ctor}",
                      P_CLASSES, gc.lineno)
    ctx.floor("generate_property cases folded", n, 20)


# the C# type of a member: get_type_name folded (E5) on one synthetic type per kind and compared with the mapping
# stated here (the reference is the mapping confirmed on the pinned tree; DESIGN 3/C08)
CS_BASE = {"string": "string", "RegExp": "string", "DocumentUri": "Uri", "URI": "Uri", "decimal": "float",
           "integer": "int", "uinteger": "long", "boolean": "bool", "null": "object"}


def _fold_type_names(ctx: Ctx, idx):
    from .. import microeval
    from ..microeval import Record, Raised
    cm = idx.get(P_CLASSES)
    hm = idx.get("generator/plugins/dotnet/dotnet_helpers.py")
    hit = microeval.Interp(hm.tree, name=hm.rel)
    it = microeval.Interp(cm.tree, name=P_CLASSES)
    for nm, v in hit.globals.items():
        it.globals.setdefault(nm, v)
    gtn = cm.functions.get("get_type_name")
    if gtn is None:
        raise AnalysisError(f"{P_CLASSES}: get_type_name not found")
    ctx.fn("dotnet_classes.py:get_type_name")

    def T(kind, **kw):
        return Record("Type", {"kind": kind, **kw})

    def item(v):
        return Record("EnumItem", {"name": f"M{v}", "value": v, "proposed": None})

    def enum(name, values, custom):
        return Record("Enum", {"name": name, "values": [item(v) for v in values], "supportsCustomValues": custom,
                               "type": T("base", name="string" if isinstance(values[0], str) else "integer"),
                               "proposed": None})
    spec = Record("Spec", {
        "enumerations": [enum("ClosedKind", ["a", "b"], None), enum("ClosedFlag", ["a", "b"], False),
                         enum("OpenStrKind", ["a", "b"], True), enum("OpenIntKind", [1, 2], True),
                         enum("ClosedIntKind", [1, 2], None)],
        "structures": [Record("Structure", {"name": "Range", "properties": []}), Record("Structure", {"name": "Command", "properties": []})],
        "typeAliases": [], "requests": [], "notifications": []})
    types = Record("TypeData", {"get_by_name": ("host", lambda *a, **k: None), "add_type_info": ("host", lambda *a, **k: None)})
    null = T("base", name="null")
    b = lambda n: T("base", name=n)   # noqa: E731
    ref = lambda n: T("reference", name=n)   # noqa: E731
    cases = [(f"base:{n}", b(n), cs) for n, cs in CS_BASE.items()]
    cases += [
        ("reference:structure", ref("Range"), "Range"),
        ("reference:Command", ref("Command"), "CommandAction"),
        ("reference:closed-enum", ref("ClosedKind"), "ClosedKind"),
        ("reference:closed-enum-explicit-false", ref("ClosedFlag"), "ClosedFlag"),
        ("reference:closed-int-enum", ref("ClosedIntKind"), "ClosedIntKind"),
        ("reference:open-string-enum", ref("OpenStrKind"), "string"),
        ("reference:open-integer-enum", ref("OpenIntKind"), "int"),
        ("array:string", T("array", element=b("string")), "ImmutableArray<string>"),
        ("array:uinteger", T("array", element=b("uinteger")), "ImmutableArray<long>"),
        ("array:reference", T("array", element=ref("Range")), "ImmutableArray<Range>"),
        ("array:array", T("array", element=T("array", element=b("integer"))), "ImmutableArray<ImmutableArray<int>>"),
        ("map:string->integer", T("map", key=b("string"), value=b("integer")), "ImmutableDictionary<string, int>"),
        ("map:DocumentUri->array", T("map", key=b("DocumentUri"), value=T("array", element=ref("Range"))),
         "ImmutableDictionary<Uri, ImmutableArray<Range>>"),
        ("stringLiteral", T("stringLiteral", value="create"), "string"),
        ("tuple:(uinteger,string)", T("tuple", items=[b("uinteger"), b("string")]), "(long, string)"),
        ("or:string|null", T("or", items=[b("string"), null]), "string"),
        ("or:null|reference", T("or", items=[null, ref("Range")]), "Range"),
        ("or:string|integer", T("or", items=[b("string"), b("integer")]), "OrType<string, int>"),
        ("or:string|integer|null", T("or", items=[b("string"), b("integer"), null]), "OrType<string, int>"),
        ("or:reference|boolean", T("or", items=[ref("Range"), b("boolean")]), "OrType<Range, bool>"),
        ("array:or", T("array", element=T("or", items=[b("string"), ref("Range")])), "ImmutableArray<OrType<string, Range>>"),
        ("or:array|reference", T("or", items=[T("array", element=b("string")), ref("Range")]), "OrType<ImmutableArray<string>, Range>"),
    ]
    n = 0
    for label, ty, want in cases:
        try:
            got = it.call(gtn, [ty, types, spec, "SomeClass_someProp"])
        except Raised as e:
            got = f"<raises {e.exc_name}>"
        n += 1
        ctx.check(got == want, "member-type-mapped", f"get_type_name:{label}",
                  f"a property of type {label} gets the C# type `{got}`; the mapping is `{want}`", P_CLASSES, gtn.lineno,
                  sample={"type": label, "cs": got})
    ctx.floor("type kinds folded through get_type_name", n, 25)
    # the member line uses that name: generate_property hands the result of get_type_name to the member template
    gp = cm.functions.get("generate_property")
    marker = {}
    it2 = microeval.Interp(cm.tree, name=P_CLASSES)
    for nm, v in hit.globals.items():
        it2.globals.setdefault(nm, v)
    it2.globals["get_type_name"] = ("host", lambda ty, *a, **k: marker.setdefault("seen", ty) and "MarkerType")
    for nm in ("get_doc", "generate_extras"):
        it2.globals[nm] = ("host", lambda *a, **k: [])
    it2.globals["get_converter"] = ("host", lambda *a, **k: None)
    pty = ref("Range")
    prop = Record("Property", {"name": "someProp", "type": pty, "optional": False, "documentation": None, "since": None,
                               "proposed": None, "deprecated": None})
    try:
        lines, tn = it2.call(gp, [prop, spec, types, [], "SomeClass"])
    except Raised as e:
        raise AnalysisError(f"{P_CLASSES}: generate_property raises {e.exc_name} when folded")
    member = next((l for l in lines if l.startswith("public ")), "")
    ctx.check(marker.get("seen") is pty and member.startswith("public MarkerType ") and tn == "MarkerType",
              "member-type-mapped", "generate_property:uses-get_type_name",
              f"the member line `{member}` is not declared with get_type_name(<the property's own type>)", P_CLASSES, gp.lineno)


_run_base = run


def run(ctx: Ctx):  # noqa: F811
    _run_base(ctx)
    idx = Index(ctx.src, dirs=("generator/plugins/dotnet",))
    _fold_type_names(ctx, idx)
    _fold_enums(ctx, idx)
    _fold_method_constants(ctx, idx)
    # the property quantifies over every metamodel handed to the plugin: nothing computed for one model may leak into
    # the classes emitted for the next (lookup caches, memo decorators, module-level registries)
    from ..genlint import cross_run_state
    nstate, hits = cross_run_state(idx, "generator/plugins/dotnet/")
    for rel, construct, msg, ln in hits:
        ctx.fail("generator-no-cross-run-state", construct, msg, rel, ln)
    ctx.ok("generator-no-cross-run-state", {"containers_examined": nstate})
    _fold_members(ctx, idx)


def _fold_message_loops(ctx: Ctx):
    """The bodies of the two message loops of generate_all_classes are executed in the micro-evaluator for every
    message of lsp.json (generate_class_from_struct / type naming stubbed).  From the captured calls: the class a
    request is emitted as, the class its response is emitted as, and the attributes of both.  LSPRequest must carry
    the exact method string and typeof(<the response class that is actually emitted>), LSPResponse must carry
    typeof(<the request class that is actually emitted>), Direction the message's own direction."""
    import re as _re
    from .. import microeval
    from ..microeval import Record, Raised, ModuleRef
    from ..common import P_LSPJSON
    idx = Index(ctx.src, dirs=("generator/plugins/dotnet",))
    cm = idx.get(P_CLASSES)
    hm = idx.get("generator/plugins/dotnet/dotnet_helpers.py")
    gac = cm.functions.get("generate_all_classes")
    loops = [n for n in ast.walk(gac) if isinstance(n, ast.For) and dotted(n.iter) in ("spec.requests", "spec.notifications")]
    data = ctx.src.json(P_LSPJSON)
    hit = microeval.Interp(hm.tree, name=hm.rel)
    n = 0
    for loop in loops:
        which = dotted(loop.iter)
        lv = _targets(loop.target)[0]
        msgs = data["requests"] if which == "spec.requests" else data["notifications"]
        for raw in msgs:
            it = microeval.Interp(cm.tree, name=P_CLASSES)
            for nm, v in hit.globals.items():
                it.globals.setdefault(nm, v)
            calls = []
            it.globals["generate_class_from_struct"] = ("host", lambda *a, **k: calls.append((a, k)))
            it.globals["get_type_name"] = ("host", lambda *a, **k: "SomeType")
            it.globals["get_registration_options_template"] = ("host", lambda *a, **k: None)
            it.globals["cattrs"] = ModuleRef("cattrs", attrs={"unstructure": ("host", lambda x, *a: x)})
            it.globals["model"] = ModuleRef("model", attrs={"Structure": ("host", lambda **kw: Record("Structure", kw))})

            def T(d):
                return Record("Type", {k: (T(v) if isinstance(v, dict) else v) for k, v in d.items()}) if isinstance(d, dict) else d
            fields = {k: raw.get(k) for k in ("method", "messageDirection", "typeName", "documentation", "since", "proposed",
                                               "deprecated", "registrationMethod")}
            for k in ("params", "result", "partialResult", "registrationOptions", "errorData"):
                fields[k] = T(raw[k]) if raw.get(k) else None
            msg = Record("Message", fields)
            env = {lv: msg, "spec": Record("Spec", {}), "types": Record("Types", {}), "__parent__": None}
            try:
                it.exec_block(loop.body, env)
            except Raised as e:
                raise AnalysisError(f"{P_CLASSES}: the body of the loop over {which} raises {e.exc_name} when folded for "
                                    f"{raw['method']}")
            except AnalysisError as e:
                bound = set(env) | set(it.globals)
                for st_ in ast.walk(loop):
                    if isinstance(st_, ast.Name) and isinstance(st_.ctx, ast.Store):
                        bound.add(st_.id)
                free = sorted({n_.id for n_ in ast.walk(loop) if isinstance(n_, ast.Name) and isinstance(n_.ctx, ast.Load)}
                              - bound - {"True", "False", "None"} - set(dir(__builtins__)))
                free = [f_ for f_ in free if f"'{f_}'" in str(e)]
                if free:
                    ctx.fail("direction-of-own-message", f"generate_all_classes:{which}:reads:{','.join(free)}",
                             f"the body of the loop over {which} reads {free}, which that loop does not bind (left over from an "
                             "earlier loop)", P_CLASSES, loop.lineno)
                    break
                raise
            n += 1
            emitted = []
            for a, k in calls:
                struct = a[0] if a else k.get("struct")
                attrs_ = (a[4] if len(a) > 4 else k.get("attributes")) or []
                name = struct.fields.get("name") if isinstance(struct, Record) else None
                emitted.append((name, [x for x in attrs_ if isinstance(x, str)]))
            m = raw["method"]
            want_dir = f"[Direction(MessageDirection.{raw['messageDirection'][0].upper() + raw['messageDirection'][1:]})]"
            if which == "spec.requests":
                req = next(((nm, at) for nm, at in emitted if any(x.startswith("[LSPRequest(") for x in at)), None)
                resp = next(((nm, at) for nm, at in emitted if any(x.startswith("[LSPResponse(") for x in at)), None)
                if not ctx.check(req is not None and resp is not None, "message-classes-emitted", f"method={m}",
                                 f"no request / response class with LSPRequest / LSPResponse metadata is emitted for {m}",
                                 P_CLASSES, loop.lineno):
                    continue
                lr = next(x for x in req[1] if x.startswith("[LSPRequest("))
                mm_ = _re.match(r'\[LSPRequest\("([^"]*)", typeof\(([^)]*)\)', lr)
                ctx.check(bool(mm_) and mm_.group(1) == m, "verbatim-wire-data", f"method={m}:LSPRequest",
                          f"LSPRequest attribute folds to {lr}; the method string is {m!r}", P_CLASSES, loop.lineno)
                ctx.check(bool(mm_) and mm_.group(2) == resp[0], "request-response-pairing", f"method={m}:LSPRequest.typeof",
                          f"{req[0]} is tagged {lr} but the response class emitted for it is {resp[0]}", P_CLASSES, loop.lineno,
                          sample={"method": m, "request": req[0], "response": resp[0], "attribute": lr})
                ls = next(x for x in resp[1] if x.startswith("[LSPResponse("))
                mm2 = _re.match(r'\[LSPResponse\(typeof\(([^)]*)\)', ls)
                ctx.check(bool(mm2) and mm2.group(1) == req[0], "request-response-pairing", f"method={m}:LSPResponse.typeof",
                          f"{resp[0]} is tagged {ls} but the request class emitted is {req[0]}", P_CLASSES, loop.lineno)
                dirs = [x for x in req[1] if x.startswith("[Direction(")]
            else:
                cls_ = emitted[0] if emitted else (None, [])
                ctx.check(bool(emitted), "message-classes-emitted", f"method={m}", f"no class is emitted for {m}", P_CLASSES, loop.lineno)
                dirs = [x for x in cls_[1] if x.startswith("[Direction(")]
            ctx.check(dirs == [want_dir], "direction-of-own-message", f"method={m}:Direction",
                      f"the class emitted for {m} carries {dirs}; the metamodel says {want_dir}", P_CLASSES, loop.lineno)
    ctx.floor("messages folded through generate_all_classes", n, 90)


def _dotnet_flatten(ctx: Ctx):
    from .. import flatten
    idx = Index(ctx.src, dirs=("generator/plugins/dotnet",))
    spec, structs = flatten.lattice()
    for sname in ("A", "B", "C"):
        exp = flatten.expected(structs, sname)
        got = flatten.fold_plain(idx, flatten.P_DN, spec, structs, sname)
        for k in sorted(set(exp) | set(got)):
            ctx.check(exp.get(k) == got.get(k), "one-member-per-flattened-property", f"struct={sname} prop={k}",
                      f"dotnet get_all_properties gives {sname}.{k} the declaration of {got.get(k)!r}; the nearest declaration is "
                      f"{exp.get(k)!r}: the member gets the base structure's type / nullability", flatten.P_DN, None)


_run_c08b = run


def run(ctx: Ctx):  # noqa: F811
    _run_c08b(ctx)
    _fold_message_loops(ctx)
    _dotnet_flatten(ctx)
