"""Shared driver for the checks that read the union-site analysis (C01, C03, C13, C14, C15, C19)."""
from __future__ import annotations

from ..common import Ctx, P_HOOKS
from ..pymodel import show
from ..sites import SiteAnalysis

def analysis(ctx: Ctx) -> SiteAnalysis:
    # cached on the Sources object itself (never keyed by id(): ids are reused after garbage collection)
    sa = getattr(ctx.src, "_site_analysis", None)
    if sa is None:
        sa = SiteAnalysis(ctx.src).run()
        ctx.src._site_analysis = sa
    return sa


def floors(ctx: Ctx, sa: SiteAnalysis):
    ctx.floor("union dispatch sites", len(sa.sites), 60)
    ctx.floor("registered union hook keys", len(sa.disp.registry), 60)
    ctx.floor("hook functions analysed", len(sa.hooks.all_hook_functions()), 40)
    ctx.floor("alternative x world outcomes", len(sa.outcomes), 150)
    converter_precondition(ctx)


def converter_precondition(ctx: Ctx):
    """What the site analysis says about "the converter" holds for every converter get_converter hands out only if each
    call yields a converter of its own that went through register_hooks (a cached / shared default converter lets one
    caller's customisation change another caller's results; a caller-supplied converter must get the hooks too).  Decided
    by the fold of get_converter in C19; its findings are taken over."""
    if getattr(ctx, "_conv_pre_done", False):
        return
    ctx._conv_pre_done = True
    from ..common import Ctx as _Ctx, AnalysisError as _AE
    from . import c19 as _c19
    sub = _Ctx(ctx.prop, ctx.tier, ctx.seed, ctx.src, quiet=True)
    try:
        _c19.run(sub)
    except _AE:
        pass
    hits = [f for f in sub.findings if f.rule == "fresh-converter"]
    for f in hits:
        ctx.fail("converter-is-own-and-hooked", f.construct, f.message, f.file, f.line)
    if not hits:
        ctx.ok("converter-is-own-and-hooked")


def report(ctx: Ctx, sa: SiteAnalysis, cats: dict[str, str], site_cats: dict[str, str]):
    """cats: outcome category -> rule name;  site_cats: site-level category -> rule name."""
    for fn in sa.hooks.all_hook_functions():
        ctx.fn(f"_hooks.py:{fn.hook_name}")
    for site, handler, alt, issues in sa.imprecise:
        rel = [(c, m) for c, m in issues if c in cats]
        if rel:
            from ..common import AnalysisError
            raise AnalysisError(f"{handler} decides with a test on the whole value (key set / size); the analysis cannot "
                                f"tell which branch a valid {show(alt)} takes, so `{rel[0][0]}` is undetermined for "
                                f"{show(site.ty)} (C15 reports the test itself)")
    by_site: dict = {}
    for s, cat, msg in sa.site_issues:
        by_site.setdefault(id(s), []).append((cat, msg))
    for s in sa.sites.values():
        for rule in sorted(set(site_cats.values())):
            rel = [(c, m) for c, m in by_site.get(id(s), []) if site_cats.get(c) == rule]
            if not rel:
                ctx.ok(rule, {"site": show(s.ty), "handler": s.handler_kind, "first_use": s.origins[0]})
            for c, m in rel:
                ctx.fail(rule, f"site={show(s.ty)}", f"{m} (first use: {s.origins[0]})",
                         P_HOOKS, None, {"origins": s.origins[:10], "category": c})
    for o in sa.outcomes:
        mine = [(c, m) for c, m in o.issues if c in cats]
        for rule in sorted(set(cats.values())):
            rel = [(c, m) for c, m in mine if cats[c] == rule]
            if rel:
                for c, m in rel:
                    ctx.fail(rule, f"{o.handler} alt={show(o.alt)} world={o.world} leaf={o.leaf}",
                             f"{m} (site {o.site.label()})", P_HOOKS,
                             getattr(getattr(o, 'node', None), 'lineno', None),
                             {"site": show(o.site.ty), "origins": o.site.origins[:10], "category": c})
            else:
                ctx.ok(rule, {"site": show(o.site.ty), "handler": o.handler, "alt": show(o.alt),
                              "world": o.world, "leaf": o.leaf})
