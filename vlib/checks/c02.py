"""C02 -- objects built with the public constructors serialise to the exact spec JSON."""
import ast
import keyword

from ..common import Ctx, P_HOOKS, P_TYPES, P_PYUTILS, AnalysisError
from ..metamodel import camel_to_snake
from .. import special, microeval
from . import _imgbase, _sitebase
from ..pymodel import show

META = {
    "level": "other",
    "explanation": (
        "Static. The constructor path writes, for each attribute a of class C, the key rename(a) unless omitted. "
        "Decided clauses: (a) for every attribute of every generated attrs class the package's own "
        "_to_camel_case, constant-folded from _hooks.py by the micro-evaluator, yields exactly the metamodel "
        "property name paired with that attribute (envelope attributes: their JSON-RPC names), injectively per "
        "class, and every metamodel property has such an attribute; (b) the generator-side inverse _to_snake_case "
        "(folded from generator/plugins/python/utils.py) maps every metamodel property name and every Python "
        "keyword to the committed attribute name, agrees with an independently written camel->snake rule, and "
        "camel(snake(k)) == k for all of them; (c) the unstructure factory is wired so that exactly these "
        "renames and the omit rule reach cattrs (dataflow shape of _with_custom_unstructure, predicate attrs.has); "
        "(d) literal discriminators and null-admitting attributes are never omitted (the C10 table rule restated "
        "for the constructor path). Nested objects / arrays / maps keep their shape by axiom A4."),
    "trusted_base": ["A4: generated unstructure fn writes key=rename, recurses by annotation / runtime class",
                     "str methods and re.sub semantics of the host Python (used by the folded helpers)"],
    "assumptions": ["users pass the class of the intended union alternative (premise of the property)"],
    "not_decided": ["numeric identity of decimals"],
}

ENVELOPE_WIRE = {"id", "params", "method", "jsonrpc", "result", "error", "code", "message", "data"}


def run(ctx: Ctx):
    im = _imgbase.image(ctx)
    t, mm = im.types, im.mm
    ctx.fn("_hooks.py:_to_camel_case")
    ctx.floor("attribute/property pairs", len(im.pairs), 1000)
    # (a) wire names
    for p in im.pairs:
        w = im.camel(p.field.name)
        ctx.check(w == p.wire, "wire-name", f"{p.cls.name}.{p.field.name}",
                  f"serialises as '{w}' but the metamodel property is '{p.wire}'", P_TYPES, p.field.lineno,
                  sample={"attr": f"{p.cls.name}.{p.field.name}", "wire": w})
    for cname, w in im.missing_props:
        ctx.fail("property-serialised", f"{cname}.{w}", f"no attribute of {cname} serialises as '{w}'", P_TYPES)
    for cname, a in im.extra_attrs:
        ctx.fail("wire-name", f"{cname}.{a}", f"attribute {a} serialises as '{im.camel(a)}', not a property of {cname}", P_TYPES)
    for cname, w, names in im.dup_wire:
        ctx.fail("wire-name-injective", f"{cname}.{w}", f"attributes {names} all serialise as '{w}'", P_TYPES)
    # a custom value of an open enumeration (a plain str / int handed to the constructor) must serialise as itself: the
    # generated unstructure function handles the annotated type, and a position annotated with the bare enumeration is
    # unstructured through `.value`, which a plain value does not have
    for c in t.attrs_classes():
        for f in c.fields:
            for en in _imgbase.open_enum_without_base(mm, f.resolved):
                ctx.fail("custom-enum-value-serialises", f"{c.name}.{f.name}:{en}",
                         f"{en} supports custom values, but {c.name}.{f.name} is annotated {show(f.resolved)}: an object built "
                         f"with a custom value cannot be serialised (the value is unstructured as a member of {en})",
                         P_TYPES, f.lineno)
    ctx.ok("custom-enum-value-serialises")
    env = im.envelope_names()
    n_env = 0
    for cname in list(env) + ["ResponseError", "ResponseErrorMessage"]:
        c = t.classes.get(cname)
        if c is None:
            continue
        seen = {}
        for f in c.fields:
            n_env += 1
            w = im.camel(f.name)
            ctx.check(w == f.name and w in ENVELOPE_WIRE, "wire-name", f"{cname}.{f.name}",
                      f"envelope attribute {f.name} serialises as '{w}'", P_TYPES, f.lineno)
            ctx.check(w not in seen, "wire-name-injective", f"{cname}.{w}", "duplicate envelope key", P_TYPES)
            seen[w] = f
    ctx.floor("envelope attributes", n_env, 400)

    # (b) generator-side inverse
    try:
        utree = ast.parse(ctx.src.text(P_PYUTILS))
    except SyntaxError as e:
        raise AnalysisError(f"{P_PYUTILS}: {e}")
    uit = microeval.Interp(utree, name=P_PYUTILS)
    snake_fn = uit.globals.get("_to_snake_case")
    if not isinstance(snake_fn, microeval.Closure):
        raise AnalysisError(f"{P_PYUTILS}: _to_snake_case not found")
    ctx.fn("utils.py:_to_snake_case")

    def snake(n):
        try:
            return snake_fn(n)
        except microeval.Raised as e:
            raise AnalysisError(f"{P_PYUTILS}: _to_snake_case({n!r}) raises {e.exc_name}")
    names = sorted({p.wire for p in im.pairs})
    ctx.floor("distinct metamodel property names", len(names), 300)
    attr_by_wire = {}
    for p in im.pairs:
        attr_by_wire.setdefault(p.wire, set()).add(p.field.name)
    for n in names:
        s = snake(n)
        ctx.check(attr_by_wire[n] == {s}, "snake-matches-committed", f"property={n}",
                  f"generator maps '{n}' to attribute {s!r} but types.py has {sorted(attr_by_wire[n])}", P_PYUTILS)
        ctx.check(s == camel_to_snake(n), "snake-independent-rule", f"property={n}",
                  f"_to_snake_case({n!r}) = {s!r} but the documented rule gives {camel_to_snake(n)!r}", P_PYUTILS)
        ctx.check(im.camel(s) == n, "camel-inverts-snake", f"property={n}",
                  f"_to_camel_case(_to_snake_case({n!r})) = {im.camel(s)!r}", P_HOOKS)
    # lower-case hard keywords only: metamodel property names are lowerCamelCase, so True/False/None
    # cannot occur, and soft keywords are valid identifiers
    for k in [k for k in keyword.kwlist if k.islower()]:
        s = snake(k)
        if keyword.iskeyword(k):
            ctx.check(s == k + "_", "keyword-suffix", f"keyword={k}",
                      f"property named like the keyword {k!r} would become attribute {s!r}", P_PYUTILS)
        ctx.check(im.camel(s) == k, "camel-inverts-snake", f"keyword={k}",
                  f"_to_camel_case({s!r}) = {im.camel(s)!r}, expected {k!r}", P_HOOKS,
                  sample={"keyword": k, "attr": s, "wire": im.camel(s)})
    # (a') what cattrs is actually handed: rename= of both factories for every attribute
    for direction in ("unstructure", "structure"):
        ren = special.folded_rename(im, direction)
        for c in t.attrs_classes():
            for f in c.fields:
                want = im.camel(f.name)
                got = ren(c.name, f.name)
                ctx.check(got == want, "factory-rename", f"{direction}:{c.name}.{f.name}",
                          f"the {direction} factory hands cattrs rename={got!r} for {c.name}.{f.name}; _to_camel_case gives {want!r}",
                          P_HOOKS, f.lineno)
    # (c) wiring
    probs = [p for p in special.factory_wiring(im)]
    for construct, msg, ln in probs:
        ctx.fail("factory-wiring", construct, msg, P_HOOKS, ln)
    if not probs:
        ctx.ok("factory-wiring")
    # (e) "structuring that output and serialising again returns the same JSON": the constructor output of an
    # alternative must be parsed back as that alternative without loss (union dispatch, shared with C01/C14)
    sa = _sitebase.analysis(ctx)
    _sitebase.floors(ctx, sa)
    _sitebase.report(ctx, sa, {"unsupported": "reparse-supported", "unsound": "reparse-sound", "lossy": "reparse-lossless"},
                     {"unsupported": "reparse-has-handler"})
    # (d) always-present
    exp = special.expected_special(im)
    omit = special.folded_omit(im)
    for q, why in sorted(exp.items()):
        c, a = q.split(".", 1)
        if c not in t.classes or t.classes[c].field(a) is None:
            continue
        ctx.check(omit(c, a) is False, "always-present", q,
                  f"{q} ({why}) would be omitted when it equals its default", P_HOOKS)
