"""C16 -- generation is a deterministic function of the model files alone."""
import ast

from ..common import Ctx, P_MODEL, AnalysisError
from ..genlint import Index, Module, dotted, calls_in, statement_order, _targets, _loads

META = {
    "level": "other",
    "explanation": (
        "Static source inventory over every module of generator/. (1) every set construction (set(...), set "
        "display, set comprehension) is followed through assignments, list()/concatenation, returns (to every "
        "resolved call site) and call arguments (one-level parameter summaries) and must only be consumed by "
        "order-insensitive sinks: sorted/len/min/max/any/all/set, membership tests, or a comprehension that is "
        "itself consumed that way; reaching anything else (iteration into emitted lines, join, indexing) is "
        "reported. (2) the random uuid `id_` of model nodes is read only as a mapping key, a membership operand "
        "or inside the message of a raise; uuid is imported only by model.py and used only in id_ converters. (3) "
        "wall-clock, randomness, environment, object-identity and hash() sources are absent from generator/. (4) "
        "directory enumeration (glob/iterdir/listdir/walk) feeds only per-file independent actions (no value "
        "accumulates across iterations). (5) write discipline per plugin entry point: the written file names are "
        "model-independent constants, or a cleanup() whose glob suffix equals the suffix of every written name "
        "precedes all writes in the entry function (so files owned by the plugin from an earlier model do not "
        "survive)."
        "(6) the rust plugin's update of an existing test harness (generate_test_code) is folded on a synthetic file: markers and surroundings survive, and the result for a model does not depend on what an earlier run left between the markers. A write that is skipped under a condition is reported for constant names too; the uuid call may sit in a function / partial that is only ever used to define id_ fields."),
    "trusted_base": ["dict preserves insertion order; sorted() is deterministic; hashlib digests depend on content only"],
    "assumptions": ["functions are resolved by name across generator/ (names are unique there; ambiguity is an analysis error)"],
    "not_decided": ["byte-identity of the output itself (needs running the plugins)"],
}

ORDER_FREE_CALLS = {"sorted", "len", "min", "max", "any", "all", "set", "frozenset", "sum", "bool"}
BANNED_MODULES = {"random", "time", "datetime", "secrets", "uuid", "socket", "platform", "getpass", "tempfile"}
BANNED_CALLS = {"hash", "id", "os.getenv", "os.getpid", "os.urandom", "os.times", "time.time", "object.__hash__"}
DIR_ENUM = {"glob", "rglob", "iterdir", "listdir", "scandir", "walk"}
WRITE_ATTRS = {"write_text", "write_bytes"}


class Flow:
    def __init__(self, ctx: Ctx, idx: Index):
        self.ctx = ctx
        self.idx = idx
        self.fn_by_name: dict[str, list] = {}
        for rel, m in idx.modules.items():
            for fn in m.all_functions():
                self.fn_by_name.setdefault(fn.name, []).append((m, fn))
        self.param_summary_cache = {}
        self.visiting = set()

    # -- is the value of `node` consumed only by order-insensitive sinks?  returns None if fine else a reason
    def consumed_ok(self, m: Module, node, depth=0) -> str | None:
        if depth > 8:
            return "flow too deep to follow"
        p = m.parents.get(node)
        if p is None:
            return "value is unused"
        if isinstance(p, ast.Call):
            fname = dotted(p.func)
            if node in p.args or any(k.value is node for k in p.keywords):
                if fname in ORDER_FREE_CALLS:
                    # sorted / min / max with a key= function are stable: ties keep the iteration order of
                    # their argument, so the order of a set does reach the result
                    if fname in ("sorted", "min", "max") and any(k.arg == "key" for k in p.keywords):
                        kfn = next(k.value for k in p.keywords if k.arg == "key")
                        return (f"{fname}(..., key={ast.unparse(kfn)[:30]}) breaks ties by iteration order, "
                                "which for a set depends on the hash seed")
                    return None
                if fname in ("list", "tuple", "iter", "reversed", "copy.copy", "copy.deepcopy"):
                    return self.consumed_ok(m, p, depth + 1)
                if fname in ("enumerate", "zip", "map", "filter"):
                    return self.consumed_ok(m, p, depth + 1)
                # user function: parameter summary
                short = (fname or "").split(".")[-1]
                if short in self.fn_by_name:
                    idx = p.args.index(node) if node in p.args else None
                    kw = next((k.arg for k in p.keywords if k.value is node), None)
                    return self.param_ok(short, idx, kw, depth + 1)
                if isinstance(p.func, ast.Attribute) and p.func.attr == "join":
                    return "joined into a string in set order"
                if isinstance(p.func, ast.Attribute) and p.func.attr in ("extend", "update", "append", "add", "union",
                                                                         "intersection", "difference", "issubset", "issuperset"):
                    if p.func.attr in ("union", "intersection", "difference"):
                        return self.consumed_ok(m, p, depth + 1)
                    if p.func.attr in ("issubset", "issuperset", "add", "update"):
                        recv = p.func.value
                        return self.name_ok(m, recv, depth + 1) if isinstance(recv, ast.Name) else None
                    recv = p.func.value
                    if isinstance(recv, ast.Name):
                        return self.name_ok(m, recv, depth + 1)
                    return f"flows into {ast.unparse(p.func)}"
                return f"passed to {fname or ast.unparse(p.func)}, whose use of it is unknown"
            if p.func is node or (isinstance(p.func, ast.Attribute) and p.func.value is node):
                return None
        if isinstance(p, ast.Attribute) and p.value is node:
            # method call on the set: membership-like methods are fine
            if p.attr in ("add", "discard", "remove", "update", "issubset", "issuperset", "isdisjoint", "__contains__",
                          "clear", "copy", "union", "intersection", "difference"):
                gp = m.parents.get(p)
                if p.attr in ("copy", "union", "intersection", "difference") and isinstance(gp, ast.Call):
                    return self.consumed_ok(m, gp, depth + 1)
                return None
            if p.attr == "pop":
                return "set.pop() returns an arbitrary element"
            return f".{p.attr} on an unordered collection"
        if isinstance(p, ast.Compare):
            ops_ok = all(isinstance(o, (ast.In, ast.NotIn, ast.Eq, ast.NotEq, ast.LtE, ast.GtE, ast.Lt, ast.Gt)) for o in p.ops)
            return None if ops_ok else "compared"
        if isinstance(p, ast.comprehension) and p.iter is node:
            comp = m.parents.get(p)
            return self.consumed_ok(m, comp, depth + 1)
        if isinstance(p, ast.For) and p.iter is node:
            return "iterated by a for statement in set order"
        if isinstance(p, ast.BinOp):
            return self.consumed_ok(m, p, depth + 1)
        if isinstance(p, (ast.BoolOp, ast.IfExp)):
            if isinstance(p, ast.IfExp) and p.test is node:
                return None
            return self.consumed_ok(m, p, depth + 1)
        if isinstance(p, (ast.UnaryOp,)):
            return None
        if isinstance(p, (ast.If, ast.While, ast.Assert)):
            return None
        if isinstance(p, ast.Starred):
            return self.consumed_ok(m, p, depth + 1)
        if isinstance(p, (ast.List, ast.Tuple, ast.Set)):
            return self.consumed_ok(m, p, depth + 1)
        if isinstance(p, ast.Subscript):
            if p.value is node:
                return "indexed"
            return None
        if isinstance(p, (ast.Assign, ast.AnnAssign)):
            tgts = p.targets if isinstance(p, ast.Assign) else [p.target]
            for t in tgts:
                if isinstance(t, ast.Name):
                    r = self.name_ok(m, t, depth + 1)
                    if r:
                        return r
                elif isinstance(t, ast.Attribute):
                    r = self.attr_ok(m, t, depth + 1)
                    if r:
                        return r
                else:
                    return "assigned to a complex target"
            return None
        if isinstance(p, ast.AugAssign):
            if isinstance(p.target, ast.Name):
                return self.name_ok(m, p.target, depth + 1)
            return "augmented assignment to a complex target"
        if isinstance(p, ast.Return):
            fn = m.enclosing_function(p)
            return self.callers_ok(fn, depth + 1)
        if isinstance(p, ast.Expr):
            return None
        if isinstance(p, ast.keyword):
            return self.consumed_ok(m, p, depth + 1) if False else self._kw(m, p, depth)
        if isinstance(p, (ast.JoinedStr, ast.FormattedValue)):
            return "interpolated into a string in set order"
        if isinstance(p, (ast.Yield, ast.YieldFrom)):
            return "yielded"
        if isinstance(p, ast.DictComp) or isinstance(p, ast.Dict):
            return self.consumed_ok(m, p, depth + 1)
        return f"reaches {type(p).__name__}"

    def _kw(self, m, kw, depth):
        call = m.parents.get(kw)
        if isinstance(call, ast.Call):
            fname = (dotted(call.func) or "").split(".")[-1]
            if fname in ORDER_FREE_CALLS:
                return None
            if fname in self.fn_by_name:
                return self.param_ok(fname, None, kw.arg, depth + 1)
        return "passed as keyword to an unknown callee"

    def name_ok(self, m: Module, name_node: ast.Name, depth) -> str | None:
        """All loads of this variable (in its function / module scope) must be order-insensitive."""
        fn = m.enclosing_function(name_node)
        scope = fn if fn is not None else m.tree
        key = (m.rel, id(scope), name_node.id)
        if key in self.visiting:
            return None
        self.visiting.add(key)
        try:
            for n in ast.walk(scope):
                if isinstance(n, ast.Name) and n.id == name_node.id and isinstance(n.ctx, ast.Load):
                    if m.enclosing_function(n) is not fn and fn is not None:
                        # closure read in a nested function
                        pass
                    r = self.consumed_ok(m, n, depth + 1)
                    if r:
                        return f"{name_node.id}: {r} (line {n.lineno})"
            return None
        finally:
            self.visiting.discard(key)

    def attr_ok(self, m: Module, attr_node: ast.Attribute, depth) -> str | None:
        """self.x = <set>: every load of `.x` in the module must be order-insensitive."""
        key = (m.rel, "attr", attr_node.attr)
        if key in self.visiting:
            return None
        self.visiting.add(key)
        try:
            for n in ast.walk(m.tree):
                if isinstance(n, ast.Attribute) and n.attr == attr_node.attr and isinstance(n.ctx, ast.Load):
                    r = self.consumed_ok(m, n, depth + 1)
                    if r:
                        return f".{attr_node.attr}: {r} (line {n.lineno})"
            return None
        finally:
            self.visiting.discard(key)

    def callers_ok(self, fn, depth) -> str | None:
        if fn is None or isinstance(fn, ast.Lambda):
            return "returned from a lambda / module level"
        key = ("ret", fn.name)
        if key in self.visiting:
            return None
        self.visiting.add(key)
        try:
            n = 0
            for rel, m in self.idx.modules.items():
                for c in calls_in(m.tree):
                    d = dotted(c.func)
                    if d and d.split(".")[-1] == fn.name:
                        n += 1
                        r = self.consumed_ok(m, c, depth + 1)
                        if r:
                            return f"returned by {fn.name}, then at {rel}:{c.lineno}: {r}"
            return None
        finally:
            self.visiting.discard(key)

    def param_ok(self, fname, idx, kw, depth) -> str | None:
        cands = self.fn_by_name.get(fname, [])
        if len(cands) != 1:
            # several functions of that name: all must be fine
            pass
        for m, fn in cands:
            params = [a.arg for a in fn.args.args]
            if params and params[0] == "self" and idx is not None:
                idx2 = idx + 1
            else:
                idx2 = idx
            pname = kw if kw else (params[idx2] if idx2 is not None and idx2 < len(params) else None)
            if pname is None:
                return f"cannot match the argument to a parameter of {fname}"
            for n in ast.walk(fn):
                if isinstance(n, ast.Name) and n.id == pname and isinstance(n.ctx, ast.Load):
                    r = self.consumed_ok(m, n, depth + 1)
                    if r:
                        return f"parameter {pname} of {fname}: {r} (line {n.lineno})"
        return None


def _id_only_keys_a_memo(m, call) -> bool:
    """`id(x)` used as nothing but a key of a mapping that is local to the enclosing function (or a parameter of it) and is
    never enumerated there: `d[id(x)]`, `d.get(id(x))`, `d.setdefault(id(x), ...)`, `id(x) in d`."""
    par = m.parents.get(call)
    holder = None
    if isinstance(par, ast.Subscript) and par.slice is call and isinstance(par.value, ast.Name):
        holder = par.value.id
    elif isinstance(par, ast.Call) and isinstance(par.func, ast.Attribute) and par.func.attr in ("get", "setdefault", "pop") \
            and isinstance(par.func.value, ast.Name) and par.args and par.args[0] is call:
        holder = par.func.value.id
    elif isinstance(par, ast.Compare) and par.left is call and len(par.ops) == 1 and isinstance(par.ops[0], (ast.In, ast.NotIn)) \
            and isinstance(par.comparators[0], ast.Name):
        holder = par.comparators[0].id
    if holder is None:
        return False
    fn = m.enclosing_function(call)
    if fn is None:
        return False
    for n_ in ast.walk(fn):
        # any enumeration of the holder (iteration, items/keys/values, sorted/list/len-independent copies) lets order or keys out
        if isinstance(n_, (ast.For, ast.comprehension)) and (
                (isinstance(n_.iter, ast.Name) and n_.iter.id == holder)
                or (isinstance(n_.iter, ast.Call) and isinstance(n_.iter.func, ast.Attribute)
                    and isinstance(n_.iter.func.value, ast.Name) and n_.iter.func.value.id == holder)):
            return False
        # handed on to another function: only to this very function (recursion); anything else may enumerate it
        if isinstance(n_, ast.Call) and any(isinstance(a, ast.Name) and a.id == holder for a in list(n_.args) + [k.value for k in n_.keywords]):
            dn_ = dotted(n_.func) or ""
            if dn_ != fn.name and dn_ not in ("len", "bool", "isinstance"):
                return False
        if isinstance(n_, ast.Call):
            dn = dotted(n_.func) or ""
            if dn in (f"{holder}.items", f"{holder}.keys", f"{holder}.values", f"{holder}.popitem"):
                return False
            if dn in ("sorted", "list", "tuple", "set", "min", "max", "next", "iter", "str", "repr", "print") and any(
                    isinstance(a, ast.Name) and a.id == holder for a in n_.args):
                return False
        if isinstance(n_, (ast.Return, ast.Yield)) and isinstance(getattr(n_, "value", None), ast.Name) and n_.value.id == holder:
            return False
    return True


def run(ctx: Ctx):
    idx = Index(ctx.src, dirs=("generator",))
    ctx.floor("generator modules", len(idx.modules), 20)
    flow = Flow(ctx, idx)

    # ---------------------------------------------------------------- (1) sets
    nsets = 0
    for rel, m in sorted(idx.modules.items()):
        for node in ast.walk(m.tree):
            is_set = isinstance(node, (ast.Set, ast.SetComp)) or \
                (isinstance(node, ast.Call) and dotted(node.func) in ("set", "frozenset"))
            if not is_set:
                continue
            nsets += 1
            fn = m.enclosing_function(node)
            r = flow.consumed_ok(m, node)
            where = f"{rel}:{getattr(fn, 'name', '<module>')}:{ast.unparse(node)[:50]}"
            ctx.check(r is None, "set-order-confined", where,
                      f"the iteration order of `{ast.unparse(node)[:60]}` can reach the output: {r}", rel, node.lineno,
                      sample={"set": where})
    ctx.floor("set constructions in generator/", nsets, 4)     # obligations, not witnesses: fewer sets is fewer things to confine

    # ---------------------------------------------------------------- (2) id_ / uuid
    nid = 0
    for rel, m in sorted(idx.modules.items()):
        for node in ast.walk(m.tree):
            if isinstance(node, ast.Attribute) and node.attr == "id_" and isinstance(node.ctx, ast.Load):
                nid += 1
                p = m.parents.get(node)
                ok = False
                if isinstance(p, ast.Subscript) and p.slice is node:
                    ok = True
                elif isinstance(p, ast.Compare) and all(isinstance(o, (ast.In, ast.NotIn, ast.Eq, ast.NotEq)) for o in p.ops):
                    ok = True
                else:
                    q = p
                    while q is not None and not isinstance(q, ast.stmt):
                        q = m.parents.get(q)
                    if isinstance(q, ast.Raise):
                        ok = True
                fn = m.enclosing_function(node)
                ctx.check(ok, "uuid-confined", f"{rel}:{getattr(fn, 'name', '<module>')}:{ast.unparse(node)}",
                          f"the random id `{ast.unparse(node)}` is used other than as a mapping key / membership operand / "
                          "error message: it can reach the output", rel, node.lineno)
        for node in ast.walk(m.tree):
            if isinstance(node, (ast.Import, ast.ImportFrom)):
                mods = [a.name for a in node.names] if isinstance(node, ast.Import) else [node.module or ""]
                for mod in mods:
                    root = mod.split(".")[0]
                    if root == "uuid":
                        ctx.check(rel == P_MODEL, "uuid-confined", f"{rel}:import uuid",
                                  "uuid is imported outside model.py", rel, node.lineno)
                    elif root in BANNED_MODULES:
                        ctx.fail("no-ambient-sources", f"{rel}:import {root}",
                                 f"{root} (clock / randomness / host identity) is imported by the generator", rel, node.lineno)
                    else:
                        ctx.ok("no-ambient-sources")
            if isinstance(node, ast.Call):
                d = dotted(node.func) or ""
                if d == "id" and _id_only_keys_a_memo(m, node):
                    # `memo[id(obj)]`: the address only distinguishes objects inside one call; the memo is never
                    # enumerated, so neither its order nor the addresses can reach the output
                    ctx.ok("no-ambient-sources", {"construct": f"{rel}:id() as the key of a local memo"})
                elif d in BANNED_CALLS or d.startswith("os.environ") or d.startswith("random.") or d.startswith("datetime."):
                    ctx.fail("no-ambient-sources", f"{rel}:{d}", f"call of {d} in the generator", rel, node.lineno)
                if d.startswith("uuid."):
                    # the random value may only become the value of an `id_` field: the call sits inside the definition of an
                    # id_ field, or inside a function / partial that is only ever used to define id_ fields
                    def in_id_field(n_):
                        q = m.parents.get(n_)
                        while q is not None:
                            if isinstance(q, (ast.AnnAssign, ast.Assign)):
                                tg = [q.target] if isinstance(q, ast.AnnAssign) else q.targets
                                if any(isinstance(t_, ast.Name) and t_.id == "id_" for t_ in tg):
                                    return True
                            q = m.parents.get(q)
                        return False

                    def only_for_id(name, depth=0):
                        """every use of the module-level name (a function, a partial) ends up defining an id_ field"""
                        if depth > 3:
                            return False
                        uses = [n_ for n_ in ast.walk(m.tree) if isinstance(n_, ast.Name) and n_.id == name
                                and isinstance(n_.ctx, ast.Load)]
                        if not uses:
                            return True
                        for u in uses:
                            if in_id_field(u):
                                continue
                            # bound into another module-level helper (functools.partial(attrs.field, converter=F), a def)
                            q = m.parents.get(u)
                            holder = None
                            while q is not None:
                                if isinstance(q, (ast.Assign, ast.AnnAssign)) and m.parents.get(q) is m.tree:
                                    tg = [q.target] if isinstance(q, ast.AnnAssign) else q.targets
                                    if len(tg) == 1 and isinstance(tg[0], ast.Name):
                                        holder = tg[0].id
                                    break
                                if isinstance(q, ast.FunctionDef) and m.parents.get(q) is m.tree:
                                    holder = q.name
                                    break
                                q = m.parents.get(q)
                            if holder is None or holder == name or not only_for_id(holder, depth + 1):
                                return False
                        return True
                    inside_id = in_id_field(node)
                    if not inside_id:
                        fn_ = m.enclosing_function(node)
                        top = fn_
                        while top is not None and m.parents.get(top) is not m.tree:
                            top = m.enclosing_function(top)
                        if isinstance(top, ast.FunctionDef):
                            inside_id = only_for_id(top.name)
                    ctx.check(inside_id, "uuid-confined", f"{rel}:{d}", f"{d} is used outside an id_ converter", rel, node.lineno)
            if isinstance(node, ast.Attribute) and dotted(node) == "os.environ":
                ctx.fail("no-ambient-sources", f"{rel}:os.environ", "os.environ is read by the generator", rel, node.lineno)
    ctx.floor(".id_ reads", nid, 6)

    # ---------------------------------------------------------------- (3b) no state that survives a run
    from ..genlint import cross_run_state
    nstate, hits = cross_run_state(idx)
    for rel, construct, msg, ln in hits:
        ctx.fail("no-cross-run-state", construct, msg, rel, ln)
    ctx.ok("no-cross-run-state", {"module_or_class_level_containers_examined": nstate})

    # ---------------------------------------------------------------- (4) directory enumeration
    ndir = 0
    for rel, m in sorted(idx.modules.items()):
        for node in ast.walk(m.tree):
            if isinstance(node, ast.Call) and isinstance(node.func, ast.Attribute) and node.func.attr in DIR_ENUM \
                    and not (isinstance(node.func.value, ast.Name) and node.func.value.id in ("re", "fnmatch")):
                ndir += 1
                p = m.parents.get(node)
                fn = m.enclosing_function(node)
                where = f"{rel}:{getattr(fn, 'name', '<module>')}:{node.func.attr}"
                if isinstance(p, ast.Call) and dotted(p.func) == "sorted":
                    ctx.ok("dir-order-confined")
                    continue
                if not (isinstance(p, ast.For) and p.iter is node):
                    ctx.fail("dir-order-confined", where, "directory enumeration is not the iterable of a for loop "
                             "(nor sorted): its order can reach the output", rel, node.lineno)
                    continue
                tnames = set(_targets(p.target))
                bad = None
                for st in ast.walk(p):
                    if isinstance(st, (ast.Return, ast.Yield, ast.YieldFrom)):
                        bad = "returns/yields from inside the loop"
                    if isinstance(st, ast.AugAssign):
                        bad = "accumulates with an augmented assignment"
                    if isinstance(st, ast.Call) and isinstance(st.func, ast.Attribute) and \
                            st.func.attr in ("append", "extend", "add", "update", "insert", "setdefault"):
                        recv = st.func.value
                        local = {t for s2 in ast.walk(p) if isinstance(s2, ast.Assign) for t0 in s2.targets for t in _targets(t0)}
                        if not (isinstance(recv, ast.Name) and recv.id in local):
                            bad = f"accumulates into {ast.unparse(recv)}"
                ctx.check(bad is None, "dir-order-confined", where,
                          f"loop over a directory listing {bad}: listing order can reach the output", rel, p.lineno)
    ctx.floor("directory enumerations", ndir, 3)

    # ---------------------------------------------------------------- (5) write discipline
    entries = []
    for rel, m in sorted(idx.modules.items()):
        if rel.startswith("generator/plugins/") and "generate_from_spec" in m.functions:
            entries.append((rel, m, m.functions["generate_from_spec"]))
    ctx.floor("plugin entry points", len(entries), 4)
    for rel, m, fn in entries:
        ctx.fn(f"{rel}:generate_from_spec")
        plugin = rel.split("/")[2]
        order = statement_order(fn)
        writes = []
        for i, st, c in order:
            if isinstance(st, (ast.For, ast.If, ast.Try, ast.With, ast.While)):
                continue
            for call in calls_in(st):
                if isinstance(call.func, ast.Attribute) and call.func.attr in WRITE_ATTRS:
                    writes.append((i, st, c, call))
        cleanup_calls = [(i, st) for i, st, c in order if not isinstance(st, (ast.For, ast.If, ast.Try, ast.With, ast.While))
                         for call in calls_in(st) if (dotted(call.func) or "").split(".")[-1] == "cleanup" and not c]
        bindings = {}
        name_fn = fn
        if not writes:
            # the write loop was moved into a helper of the same module: followed one level, the helper's parameters
            # standing for the argument expressions of the call
            for i0, st0, c0 in order:
                if isinstance(st0, (ast.For, ast.If, ast.Try, ast.With, ast.While)):
                    continue
                for call0 in calls_in(st0):
                    h = m.functions.get(dotted(call0.func) or "")
                    if h is None or h is fn:
                        continue
                    for j, sth, ch in statement_order(h):
                        if isinstance(sth, (ast.For, ast.If, ast.Try, ast.With, ast.While)):
                            continue
                        for callh in calls_in(sth):
                            if isinstance(callh.func, ast.Attribute) and callh.func.attr in WRITE_ATTRS:
                                writes.append((i0, sth, tuple(c0) + tuple(ch), callh))
                                name_fn = h
                                bindings = {a.arg: v for a, v in zip(h.args.args, call0.args)}
                                bindings.update({k.arg: k.value for k in call0.keywords if k.arg})
        if not writes:
            raise AnalysisError(f"{rel}: no write call found in the plugin entry point or in a helper it calls directly "
                                "(writes moved elsewhere; not followed)")
        for i, st, c, call in writes:
            # destination: (<dir> / NAME).write_text(...)
            dest = call.func.value
            loops = [s for s, _ in c if isinstance(s, ast.For)]
            if isinstance(dest, ast.Name) and dest.id in bindings:
                dest = bindings[dest.id]          # the helper's path parameter: the caller's argument expression
            if isinstance(dest, ast.Name):
                # `file = output / file_name` earlier in the same block
                for blk_owner, _ in reversed(c):
                    for s2 in ast.walk(blk_owner):
                        if isinstance(s2, ast.Assign) and any(dotted(t) == dest.id for t in s2.targets):
                            dest = s2.value
                            break
                    if not isinstance(dest, ast.Name):
                        break
            name_expr = dest.right if isinstance(dest, ast.BinOp) and isinstance(dest.op, ast.Div) else None
            const_names = None
            suffix = None
            if name_expr is not None and isinstance(name_expr, ast.Name) and loops:
                # name comes from a loop over a dict/list produced by a function: are its keys constants?
                src_name = None
                for lp in loops:
                    if name_expr.id in _targets(lp.target):
                        src_name = lp.iter
                    else:
                        # name assigned inside the loop from an f-string
                        for s2 in lp.body:
                            if isinstance(s2, ast.Assign) and name_expr.id in [t for t0 in s2.targets for t in _targets(t0)]:
                                if isinstance(s2.value, ast.JoinedStr) and isinstance(s2.value.values[-1], ast.Constant):
                                    suffix = str(s2.value.values[-1].value)
                if src_name is not None:
                    const_names, suffix2 = produced_keys(idx, m, name_fn, src_name, bindings)
                    suffix = suffix or suffix2
            elif name_expr is not None and isinstance(name_expr, ast.Constant):
                const_names = [name_expr.value]
            elif name_expr is not None and _template_tail(name_expr) is not None:
                suffix = _template_tail(name_expr)        # f"{name}.cs" / "{}.cs".format(name) / "%s.cs" % name
            elif name_expr is not None and isinstance(name_expr, ast.Attribute) and name_expr.attr == "name":
                # copy of a packaged file under its own name (model independent)
                const_names = ["<packaged file name>"]
            if const_names is not None:
                # model-independent names: no stale file can survive, provided the write always happens
                g0 = [s for s, _ in c if isinstance(s, (ast.If, ast.While, ast.Try))]
                lg0 = None
                for lp in loops:
                    for s2 in lp.body:
                        if s2 is st:
                            break
                        if isinstance(s2, ast.If) and any(isinstance(x, (ast.Continue, ast.Break)) for x in ast.walk(s2)):
                            lg0 = s2
                ctx.check(not g0 and lg0 is None, "write-unconditional", f"{plugin}:write:{ast.unparse(dest)[:40]}",
                          "the write of an owned file is conditional (skipped for some files): content left by an earlier "
                          "run or placed by hand survives under a name the plugin owns", rel, call.lineno)
                ctx.ok("write-discipline", {"plugin": plugin, "names": const_names})
                continue
            # model-dependent names: cleanup with the same suffix must precede
            pre = [ci for ci, _ in cleanup_calls if ci < i]
            cl_suffix = cleanup_suffix(idx, m)
            ok = bool(pre) and suffix is not None and cl_suffix is not None and suffix.endswith(cl_suffix)
            # the write itself must be unconditional: a write that is skipped when the file already exists
            # takes over bytes from an earlier run
            guards = [s for s, _ in c if isinstance(s, (ast.If, ast.While, ast.Try))]
            lp_guard = None
            for lp in loops:
                for s2 in lp.body:
                    if s2 is st:
                        break
                    if isinstance(s2, ast.If) and any(isinstance(x, (ast.Continue, ast.Break)) for x in ast.walk(s2)):
                        lp_guard = s2
            ctx.check(not guards and lp_guard is None, "write-unconditional", f"{plugin}:write:{ast.unparse(dest)[:40]}",
                      "the write of an owned file is conditional (skipped for some files): content left by an earlier run "
                      "or placed by hand survives under a name the plugin owns", rel, call.lineno)
            ctx.check(ok, "write-discipline", f"{plugin}:write:{ast.unparse(dest)[:40]}",
                      f"file names depend on the model (suffix {suffix!r}) but no cleanup() of '*{cl_suffix}' precedes the "
                      "write: files from an earlier, different model survive", rel, call.lineno,
                      sample={"plugin": plugin, "written_suffix": suffix, "cleanup_glob": cl_suffix})
    # helper writes outside the entry function (copy_custom_classes): names are packaged file names
    ctx.extra["plugins"] = [e[0] for e in entries]


def _template_tail(e):
    """constant text after the last placeholder of a string template expression, or None"""
    import re as _re
    if isinstance(e, ast.JoinedStr):
        return str(e.values[-1].value) if e.values and isinstance(e.values[-1], ast.Constant) else None
    if isinstance(e, ast.Call) and isinstance(e.func, ast.Attribute) and e.func.attr == "format" \
            and isinstance(e.func.value, ast.Constant) and isinstance(e.func.value.value, str):
        parts = _re.split(r"\{[^{}]*\}", e.func.value.value)
        return parts[-1] if len(parts) > 1 and parts[-1] else None
    if isinstance(e, ast.BinOp) and isinstance(e.op, ast.Mod) and isinstance(e.left, ast.Constant) and isinstance(e.left.value, str):
        parts = _re.split(r"%[-#0 +]*\d*(?:\.\d+)?[sdrfxi]", e.left.value)
        return parts[-1] if len(parts) > 1 and parts[-1] else None
    if isinstance(e, ast.BinOp) and isinstance(e.op, ast.Add) and isinstance(e.right, ast.Constant) and isinstance(e.right.value, str):
        return e.right.value
    return None


def produced_keys(idx: Index, m: Module, fn, iter_expr, bindings=None):
    """for K in <iter_expr>: what are the keys?  -> (list of constant names | None, common suffix | None)"""
    name = dotted(iter_expr)
    call = None
    if isinstance(iter_expr, ast.Call):
        call = iter_expr
        if isinstance(iter_expr.func, ast.Attribute) and iter_expr.func.attr in ("items", "keys", "get_all") \
                and isinstance(iter_expr.func.value, ast.Name):
            name = iter_expr.func.value.id
            call = None
    if name and call is None:
        for st in ast.walk(fn):
            if isinstance(st, ast.Assign) and any(dotted(t) == name for t in st.targets) and isinstance(st.value, ast.Call):
                call = st.value
            if isinstance(st, ast.AnnAssign) and dotted(st.target) == name and isinstance(st.value, ast.Call):
                call = st.value
    if call is None and name and bindings and isinstance(bindings.get(name), ast.Call):
        call = bindings[name]          # the helper's parameter stands for the caller's argument expression
    if call is None:
        return None, None
    callee = call.func.attr if isinstance(call.func, ast.Attribute) else (dotted(call.func) or "")
    # follow `from .x import generate` style aliases by name across the index
    consts, suffix = None, None
    for rel2, m2 in idx.modules.items():
        for f2 in m2.all_functions():
            if f2.name != callee:
                continue
            for r in ast.walk(f2):
                if isinstance(r, ast.Return) and isinstance(r.value, ast.Dict) and r.value.keys and \
                        all(isinstance(k, ast.Constant) for k in r.value.keys):
                    consts = [k.value for k in r.value.keys]
            # dict built by subscript stores with f-string names (in the callee or in helpers it calls)
            sufs = set()
            scope = [f2]
            seen_fn = {id(f2)}
            by_name = {}
            for fx in m2.all_functions():
                by_name.setdefault(fx.name, fx)
            qi = 0
            while qi < len(scope):
                for cx in calls_in(scope[qi]):
                    dx = (dotted(cx.func) or "").split(".")[-1]
                    if dx in by_name and id(by_name[dx]) not in seen_fn:
                        seen_fn.add(id(by_name[dx]))
                        scope.append(by_name[dx])
                qi += 1
            owner = {}
            walk_nodes = []
            for fx in scope:
                for n_ in ast.walk(fx):
                    walk_nodes.append(n_)
                    owner.setdefault(id(n_), fx)
            returned = {dotted(r_.value) for r_ in ast.walk(f2) if isinstance(r_, ast.Return) and r_.value is not None}
            def str_suffix(e, fx, depth=0):
                """constant tail of a string-valued expression (f-string, concatenation, a name bound to such, a call to
                a helper all of whose returns have the same constant tail); None when unknown"""
                if depth > 4:
                    return None
                if isinstance(e, ast.JoinedStr):
                    return str(e.values[-1].value) if e.values and isinstance(e.values[-1], ast.Constant) else None
                if isinstance(e, ast.Constant) and isinstance(e.value, str):
                    return e.value
                if isinstance(e, ast.BinOp) and isinstance(e.op, ast.Add):
                    return str_suffix(e.right, fx, depth + 1)
                # "<template>".format(...) / "<template>" % (...): the constant text after the last placeholder
                tmpl = None
                if isinstance(e, ast.Call) and isinstance(e.func, ast.Attribute) and e.func.attr == "format":
                    tmpl, kind_ = e.func.value, "format"
                elif isinstance(e, ast.BinOp) and isinstance(e.op, ast.Mod):
                    tmpl, kind_ = e.left, "percent"
                if tmpl is not None:
                    if isinstance(tmpl, ast.Name):
                        for st_ in ast.walk(m2.tree):
                            if isinstance(st_, (ast.Assign, ast.AnnAssign)) and isinstance(getattr(st_, "value", None), ast.Constant):
                                tg_ = st_.targets if isinstance(st_, ast.Assign) else [st_.target]
                                if any(isinstance(t_, ast.Name) and t_.id == tmpl.id for t_ in tg_):
                                    tmpl = st_.value
                    if isinstance(tmpl, ast.Constant) and isinstance(tmpl.value, str):
                        import re as _re
                        parts = _re.split(r"\{[^{}]*\}" if kind_ == "format" else r"%[-#0 +]*\d*(?:\.\d+)?[sdrfxi]", tmpl.value)
                        return parts[-1] if len(parts) > 1 and parts[-1] else None
                    return None
                if isinstance(e, ast.NamedExpr):
                    return str_suffix(e.value, fx, depth + 1)
                if isinstance(e, ast.Name):
                    defs = [s3.value for s3 in ast.walk(fx)
                            if isinstance(s3, ast.Assign) and any(dotted(t) == e.id for t in s3.targets)]
                    defs += [s3.value for s3 in ast.walk(fx)
                             if isinstance(s3, ast.NamedExpr) and isinstance(s3.target, ast.Name) and s3.target.id == e.id]
                    got = {str_suffix(v, fx, depth + 1) for v in defs}
                    return next(iter(got)) if len(got) == 1 else None
                if isinstance(e, ast.Call):
                    dx = (dotted(e.func) or "").split(".")[-1]
                    g = by_name.get(dx)
                    if g is None:
                        return None
                    got = {str_suffix(r_.value, g, depth + 1) for r_ in ast.walk(g)
                           if isinstance(r_, ast.Return) and r_.value is not None}
                    return next(iter(got)) if len(got) == 1 else None
                return None
            # which names hold the mapping that is returned: the callee's own returned name(s), and helper parameters that
            # receive it (`_file_away(stem, samples, shelf)`); stores into any other mapping (a message being assembled)
            # are not file names
            result_names = {id(f2): set(n_ for n_ in returned if n_)}
            for _round in range(3):
                for fx in scope:
                    for cx in calls_in(fx):
                        dx = (dotted(cx.func) or "").split(".")[-1]
                        g = by_name.get(dx)
                        if g is None or id(g) not in seen_fn:
                            continue
                        prm = [a_.arg for a_ in g.args.args]
                        for pn, a_ in list(zip(prm, cx.args)) + [(k_.arg, k_.value) for k_ in cx.keywords if k_.arg]:
                            if isinstance(a_, ast.Name) and a_.id in result_names.get(id(fx), ()):
                                result_names.setdefault(id(g), set()).add(pn)
            for st in walk_nodes:
                if isinstance(st, ast.Assign) and isinstance(st.targets[0], ast.Subscript):
                    key = st.targets[0].slice
                    base_is_result = dotted(st.targets[0].value) in returned
                    if dotted(st.targets[0].value) not in result_names.get(id(owner[id(st)]), ()) and not base_is_result \
                            and any(result_names.values()):
                        continue
                    suf = str_suffix(key, owner[id(st)])
                    if suf is not None:
                        sufs.add(suf)
                    elif isinstance(key, (ast.JoinedStr, ast.Call)) or base_is_result:
                        sufs.add(None)
                    elif isinstance(key, ast.Name):
                        defs = [s3.value for s3 in ast.walk(owner[id(st)])
                                if isinstance(s3, ast.Assign) and any(dotted(t) == key.id for t in s3.targets)]
                        if any(isinstance(v, (ast.JoinedStr, ast.Call)) for v in defs):
                            sufs.add(None)
            if sufs and None not in sufs and len(sufs) == 1:
                suffix = next(iter(sufs))
    return consts, suffix


def cleanup_suffix(idx: Index, m: Module):
    fn = m.functions.get("cleanup")
    if fn is None:
        return None
    # every globbed file must be unlinked, unconditionally: the loop body is exactly `<file>.unlink()`
    for lp in ast.walk(fn):
        if isinstance(lp, ast.For):
            body_ok = len(lp.body) == 1 and isinstance(lp.body[0], ast.Expr) and isinstance(lp.body[0].value, ast.Call) \
                and isinstance(lp.body[0].value.func, ast.Attribute) and lp.body[0].value.func.attr == "unlink" \
                and dotted(lp.body[0].value.func.value) in _targets(lp.target)
            if not body_ok:
                return None
    if len(fn.args.args) != 1:
        return None
    for c in calls_in(fn):
        if isinstance(c.func, ast.Attribute) and c.func.attr in ("glob", "rglob") and c.args and \
                isinstance(c.args[0], ast.Constant) and isinstance(c.args[0].value, str) and c.args[0].value.startswith("*"):
            # must unlink what it finds
            if any(isinstance(x, ast.Attribute) and x.attr == "unlink" for x in ast.walk(fn)):
                return c.args[0].value[1:]
    return None


def _test_harness_update(ctx: Ctx):
    """The rust plugin rewrites the region between two markers of an existing test harness file.  generate_test_code is
    folded (E5) on a synthetic harness: the result for a model must not depend on what an earlier run left between the
    markers (run B after run A == run B on the fresh file), and everything outside the markers, the marker lines
    included, must survive."""
    from ..microeval import Interp, Record, Raised, ModuleRef
    rel = "generator/plugins/rust/rust_tests.py"
    if not ctx.src.exists(rel):
        raise AnalysisError(f"{rel}: not found")
    try:
        tree = ast.parse(ctx.src.text(rel))
    except SyntaxError as e:
        raise AnalysisError(f"{rel}: {e}")
    fn = next((st for st in tree.body if isinstance(st, ast.FunctionDef) and st.name == "generate_test_code"), None)
    if fn is None:
        raise AnalysisError(f"{rel}: generate_test_code not found")
    ctx.fn("rust_tests.py:generate_test_code")
    it = Interp(tree, name=rel)
    it.globals["get_name"] = ("host", lambda m_: m_.fields["name"])
    fresh = ["// header", "fn main() {", "    match x {", "        // GENERATED_TEST_CODE:start", "        \"Old\" => {}",
             "        // GENERATED_TEST_CODE:end", "        _ => {}", "    }", "}"]

    def spec(names_r, names_n):
        mk = lambda n_: Record("Message", {"name": n_, "method": n_, "typeName": None})   # noqa: E731
        return Record("Spec", {"requests": [mk(n_) for n_ in names_r], "notifications": [mk(n_) for n_ in names_n]})

    def run(text_lines, sp):
        state = {"text": "\n".join(text_lines), "written": None}
        path = Record("Path", {"read_text": ("host", lambda *a, **k: state["text"]),
                               "write_text": ("host", lambda t, *a, **k: state.__setitem__("written", t)),
                               "exists": ("host", lambda: True)})
        try:
            it.call(fn, [sp, path])
        except Raised as e:
            return ("raises", e.exc_name)
        return state["written"].split("\n") if isinstance(state["written"], str) else None
    a, b = spec(["AlphaRequest", "BetaRequest"], ["GammaNotification"]), spec(["DeltaRequest"], [])
    out_a = run(fresh, a)
    out_b = run(fresh, b)
    ok_shape = isinstance(out_b, list) and out_b[:4] == fresh[:4] and out_b[-4:] == fresh[-4:] and "\"Old\" => {}" not in "\n".join(out_b)
    ctx.check(ok_shape, "harness-update-keeps-markers", "rust:generate_test_code:fresh",
              f"rewriting the generated region of the test harness does not keep the surrounding lines / markers: {out_b}",
              rel, fn.lineno)
    if isinstance(out_a, list):
        out_ba = run(out_a, b)
        ctx.check(out_ba == out_b, "harness-update-history-free", "rust:generate_test_code:rerun",
                  "running the plugin for one model after it ran for another gives a different harness than running it on "
                  f"the fresh file: {out_ba} vs {out_b}", rel, fn.lineno, sample={"rerun_equals_fresh": out_ba == out_b})
    else:
        ctx.fail("harness-update-keeps-markers", "rust:generate_test_code:first-run", f"first run gives {out_a}", rel, fn.lineno)


MODEL_OBJECT_ATTRS = {"type", "element", "key", "params", "result", "partialResult", "registrationOptions", "errorData"}


def _model_objects_not_rendered(ctx: Ctx):
    """The repr / str of a model node contains its random `id_` (attrs puts every field into the repr).  A model object --
    a parameter annotated with a `model.` type, or one of its type-valued attributes -- may therefore only be rendered
    into text inside the message of a `raise`; rendered into emitted lines it makes the output differ from run to run."""
    idx = Index(ctx.src, dirs=("generator/plugins",))
    n = 0
    for rel, m in sorted(idx.modules.items()):
        for fn in m.all_functions():
            a = fn.args
            typed = set()
            for prm in a.posonlyargs + a.args + a.kwonlyargs:
                ann = ast.unparse(prm.annotation) if prm.annotation is not None else ""
                if "model." in ann or "LSP_TYPE_SPEC" in ann:
                    if not any(x in ann for x in ("List[", "Sequence[", "Iterable[", "Dict[")):
                        typed.add(prm.arg)
            if not typed:
                continue

            def is_model_obj(e):
                if isinstance(e, ast.Name):
                    return e.id in typed
                if isinstance(e, ast.Attribute) and e.attr in MODEL_OBJECT_ATTRS:
                    return is_model_obj(e.value)
                return False
            for node in ast.walk(fn):
                rendered = []
                if isinstance(node, ast.FormattedValue):
                    rendered = [node.value]
                elif isinstance(node, ast.Call) and isinstance(node.func, ast.Name) and node.func.id in ("str", "repr") and node.args:
                    rendered = [node.args[0]]
                elif isinstance(node, ast.Call) and isinstance(node.func, ast.Attribute) and node.func.attr == "format" \
                        and isinstance(node.func.value, (ast.Constant, ast.Name)):
                    rendered = list(node.args) + [k.value for k in node.keywords]
                elif isinstance(node, ast.BinOp) and isinstance(node.op, ast.Mod) and isinstance(node.left, ast.Constant) \
                        and isinstance(node.left.value, str):
                    rendered = list(node.right.elts) if isinstance(node.right, ast.Tuple) else [node.right]
                for e in rendered:
                    if not is_model_obj(e):
                        continue
                    n += 1
                    q, in_raise = node, False
                    while q is not None and q is not fn:
                        if isinstance(q, ast.Raise):
                            in_raise = True
                        q = m.parents.get(q)
                    ctx.check(in_raise, "uuid-confined", f"{rel}:{fn.name}:renders:{ast.unparse(e)[:40]}",
                              f"{fn.name} renders the model object `{ast.unparse(e)}` into text outside an error message: its "
                              "repr contains the random id_ of the node, so the emitted text differs from run to run",
                              rel, node.lineno)
    ctx.floor("renderings of model objects examined", n, 3)


_run_c16 = run


def run(ctx: Ctx):  # noqa: F811
    _run_c16(ctx)
    _test_harness_update(ctx)
    _model_objects_not_rendered(ctx)
