"""Table behind MANIFEST.json (edit here, then run tools/gen_manifest.py)."""

TB = "trusted base: cattrs 24.1 / attrs 24.2 / typing behaviour restated as axioms A1-A6 (DESIGN.md E3); lsp.json is the reference"

CHECKS = {
    "C04": ("translation_validation", "DESIGN.md 3/C04",
            "static two-way image check types.py <-> lsp.json over a normalised type IR (ast)",
            "Exhaustive static comparison of every definition and attribute of types.py with lsp.json under an independently stated mapping; decides the whole property for the committed metamodel.",
            TB),
    "C14": ("other", "DESIGN.md 3/C14",
            "dispatch-model resolution + abstract interpretation of hook decision trees per alternative x world",
            "Every reachable union dispatch site has a handler under the cattrs dispatch model, and every handler is supported and sound for every alternative and key-shape world; decided from source for all values of each alternative.",
            TB),
}

NOT_BUILT = "check not built yet in this round (static design exists in DESIGN.md); will be claimed when the checker lands"
NA = {
    "C05": "needs executing the generator plugins plus `ruff format` (not installed, cannot be fetched); no sound static stand-in: image checks (C04/C07) are not necessary conditions of 'committed == generated'",
}
for i in range(1, 21):
    pid = f"C{i:02d}"
    if pid not in CHECKS and pid not in NA:
        NA[pid] = NOT_BUILT

FIX_COMMITS = []
