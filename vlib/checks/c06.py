"""C06 -- the generator is correct on every schema-valid evolution of the metamodel (clauses decidable
from the plugin sources)."""
import ast
import keyword

from ..common import Ctx, P_SCHEMA, P_PYUTILS, P_MODEL, AnalysisError
from ..genlint import Index, Module, dotted, calls_in
from ..metamodel import camel_to_snake
from .. import microeval

META = {
    "level": "other",
    "explanation": (
        "The family of evolved metamodels is unbounded and the guarantee is about plugin outputs; that part is not "
        "decided. Decided are necessary conditions visible in the plugin sources, each of which, when broken, makes "
        "some evolution inside the stated discipline crash or mis-generate: (a) kind exhaustiveness: each plugin's "
        "type-kind dispatcher compares <type>.kind with every kind of the discipline {base, reference, array, map, "
        "tuple, or, literal, stringLiteral}; (b) base-name exhaustiveness: each plugin's base-type mapping handles "
        "every value of the schema's BaseTypes enum reachable in that position (siblings cross-checked; `null` is "
        "handled by the caller in the rust plugin, a named exception); (c) schema-optional attribute discipline: for "
        "the model attributes the schema leaves optional (typeName, params, partialResult, errorData, "
        "registrationOptions, registrationMethod, documentation, since, sinceTags, deprecated, proposed, "
        "supportsCustomValues) there is no dereference (attribute / subscript / call / iteration / len) without a "
        "dominating truthiness guard on the same expression, and no function annotated -> str returns such an "
        "attribute unguarded (hasattr() is not a guard: attrs always defines the attribute); (d) keyword round trip: "
        "the generator's _to_snake_case, folded over all Python keywords, appends the underscore that the runtime's "
        "_to_camel_case strips (shared with C02); (e) sibling cross-check of the four flatten implementations (python, "
        "rust, dotnet, testdata): each is folded (E5) on one synthetic inheritance lattice with own / extends / mixin / "
        "diamond overrides and must give the reference flattening (one member per name, nearest declaration wins, the "
        "model left unmodified); (f) anonymous literal types get one stable, non-empty name per occurrence, also "
        "through inherited properties; (g) no module-level / class-level container or memo filled by plugin code "
        "survives a run."),
    "trusted_base": ["attrs instances always have all declared attributes (hasattr is True for unset optionals)"],
    "assumptions": ["the metamodel is schema-valid (gate decided by C18)"],
    "not_decided": ["the outputs of the plugins on evolved metamodels (needs running them)",
                    "`and` types outside params/registrationOptions", "LiteralType.name (ambiguous with required names)"],
}

DISCIPLINE_KINDS = {"base", "reference", "array", "map", "tuple", "or", "literal", "stringLiteral"}
OPTIONAL_ATTRS = {"typeName", "params", "partialResult", "errorData", "registrationOptions", "registrationMethod",
                  "documentation", "since", "sinceTags", "deprecated", "proposed", "supportsCustomValues"}
# attributes whose *value* is a type object / string / list that is dereferenced
KIND_DISPATCHERS = {
    "generator/plugins/python/utils.py": "_generate_type_name",
    "generator/plugins/rust/rust_commons.py": "get_type_name",
    "generator/plugins/dotnet/dotnet_classes.py": "get_type_name",
    "generator/plugins/testdata/testdata_generator.py": "generate_for_type",
}
BASE_MAPPERS = {
    # rel -> (function, exclusions with reason)
    "generator/plugins/python/utils.py": ("_generate_type_name", {}),
    "generator/plugins/rust/rust_commons.py": ("lsp_to_base_types", {"null": "handled by the caller as Option<>"}),
    "generator/plugins/dotnet/dotnet_classes.py": ("lsp_to_base_types", {}),
    "generator/plugins/testdata/testdata_generator.py": ("generate_for_base", {}),
}


def compared_constants(fn, attr: str | None, name: str | None = None):
    """String constants compared (==, in [...]) with `<x>.<attr>` (or with Name `name`)."""
    out = set()

    def pat_consts(pat):
        if isinstance(pat, ast.MatchValue) and isinstance(pat.value, ast.Constant) and isinstance(pat.value.value, str):
            yield pat.value.value
        elif isinstance(pat, ast.MatchOr):
            for sub in pat.patterns:
                yield from pat_consts(sub)
        elif isinstance(pat, ast.MatchAs) and pat.pattern is not None:
            yield from pat_consts(pat.pattern)
    for n in ast.walk(fn):
        if hasattr(ast, "Match") and isinstance(n, ast.Match):
            sj = n.subject
            if (attr and isinstance(sj, ast.Attribute) and sj.attr == attr) or (name and isinstance(sj, ast.Name) and sj.id == name):
                for case in n.cases:
                    out |= set(pat_consts(case.pattern))
            continue
        if isinstance(n, ast.Compare) and len(n.ops) == 1:
            l, r = n.left, n.comparators[0]
            hit = (attr and isinstance(l, ast.Attribute) and l.attr == attr) or (name and isinstance(l, ast.Name) and l.id == name)
            if not hit:
                continue
            if isinstance(n.ops[0], ast.Eq) and isinstance(r, ast.Constant) and isinstance(r.value, str):
                out.add(r.value)
            if isinstance(n.ops[0], ast.In) and isinstance(r, (ast.List, ast.Tuple, ast.Set)):
                out |= {e.value for e in r.elts if isinstance(e, ast.Constant) and isinstance(e.value, str)}
    return out


def table_keys(m: Module, fn, attr, name=None, nodes=None):
    """Dispatch through a table instead of an if-chain: the string keys of every dict display that fn indexes with
    `<x>.<attr>` (or Name `name`): T[x.attr], T.get(x.attr, ...), `x.attr in T`.  T is a module-level name, a local, or an
    instance / class attribute assigned a dict display (or dict(...) of keyword arguments) somewhere in the module."""
    def is_key(e):
        return (attr and isinstance(e, ast.Attribute) and e.attr == attr) or (name and isinstance(e, ast.Name) and e.id == name)

    tables = []
    for n in ast.walk(fn):
        if isinstance(n, ast.Subscript) and is_key(n.slice):
            tables.append(n.value)
        elif isinstance(n, ast.Call) and isinstance(n.func, ast.Attribute) and n.func.attr in ("get", "__getitem__") \
                and n.args and is_key(n.args[0]):
            tables.append(n.func.value)
        elif isinstance(n, ast.Compare) and len(n.ops) == 1 and isinstance(n.ops[0], (ast.In, ast.NotIn)) and is_key(n.left) \
                and isinstance(n.comparators[0], (ast.Name, ast.Attribute)):
            tables.append(n.comparators[0])
    out = set()
    for t in tables:
        d = dotted(t)
        if not d:
            continue
        for st in ast.walk(m.tree):
            if not isinstance(st, (ast.Assign, ast.AnnAssign)) or getattr(st, "value", None) is None:
                continue
            tgts = st.targets if isinstance(st, ast.Assign) else [st.target]
            if not any(dotted(x) == d or (dotted(x) or "").split(".")[-1] == d.split(".")[-1] and "." in d for x in tgts):
                continue
            v = st.value
            if nodes is not None:
                nodes.append(v)
            if isinstance(v, ast.Call) and dotted(v.func) in ("frozenset", "tuple", "set", "list") and len(v.args) == 1:
                v = v.args[0]
            if isinstance(v, ast.Dict):
                out |= {k.value for k in v.keys if isinstance(k, ast.Constant) and isinstance(k.value, str)}
            elif isinstance(v, (ast.Tuple, ast.List, ast.Set)):
                # `x.name in _INT_TYPES` with a hoisted constant collection
                out |= {e.value for e in v.elts if isinstance(e, ast.Constant) and isinstance(e.value, str)}
            elif isinstance(v, ast.Call) and dotted(v.func) in ("dict", "MappingProxyType", "types.MappingProxyType"):
                out |= {kw.arg for kw in v.keywords if kw.arg}
                for a in v.args:
                    if isinstance(a, ast.Dict):
                        out |= {k.value for k in a.keys if isinstance(k, ast.Constant) and isinstance(k.value, str)}
    return out


def compared_constants_deep(m: Module, fn, attr, name=None, depth=3, _seen=None):
    """compared_constants over fn and the functions of the same module it calls (helpers extracted from it)."""
    _seen = _seen if _seen is not None else set()
    if id(fn) in _seen:
        return set()
    _seen.add(id(fn))
    # tables of *any* key (a handler reached through a kind table may itself dispatch on a base-name table)
    table_nodes: list = []
    out = compared_constants(fn, attr, name) | table_keys(m, fn, attr, name)
    for a2 in ("kind", "name"):
        table_keys(m, fn, a2, a2, table_nodes)
    if depth <= 0:
        return out
    by_name = {}
    for f in m.all_functions():
        by_name.setdefault(f.name, f)
    for c in calls_in(fn):
        d = dotted(c.func) or ""
        short = d.split(".")[-1]
        callee = by_name.get(short)
        if callee is not None and callee is not fn and (d == short or d.startswith("self.") or d.startswith("cls.")):
            out |= compared_constants_deep(m, callee, attr, name, depth - 1, _seen)
    # handlers stored in a dispatch table are reached through the table, not through a call by name
    for tn in table_nodes:
        for r in ast.walk(tn):
            d = dotted(r) if isinstance(r, (ast.Name, ast.Attribute)) else None
            if d and d.split(".")[-1] in by_name and (d == d.split(".")[-1] or d.startswith("self.") or d.startswith("cls.")):
                callee = by_name[d.split(".")[-1]]
                if callee is not fn:
                    out |= compared_constants_deep(m, callee, attr, name, depth - 1, _seen)
    return out


def semantic_handled(idx, rel, fname, what, values):
    """Dispatch decided by evaluating the dispatcher (E5) instead of reading its comparisons: for each kind / base name the
    function is called on a small synthetic type.  -> {value: True (a result comes back) | False (the function raises its own
    "unknown" ValueError, returns None or yields nothing) | None (the fold cannot tell)}"""
    from ..microeval import Interp, Record, Raised, ModuleRef, EagerGen
    m = idx.get(rel)
    it = Interp(m.tree, name=rel)
    # helpers of sibling modules of the plugin (from .x import y)
    import os
    for st in m.tree.body:
        if isinstance(st, ast.ImportFrom) and st.level == 1 and st.module:
            sib = os.path.join(os.path.dirname(rel), st.module + ".py")
            if sib in idx.modules:
                sit = Interp(idx.modules[sib].tree, name=sib)
                for a in st.names:
                    if a.name in sit.globals:
                        it.globals.setdefault(a.asname or a.name, sit.globals[a.name])

    class _AnyCls(dict):
        def __contains__(self, k):
            return True

        def __getitem__(self, k):
            from ..microeval import ClassRef as _CR
            return _CR(k)
    it.globals.setdefault("model", ModuleRef("model", attrs=_AnyCls()))

    def T(kind, **kw):
        return Record("Type", {"kind": kind, "id_": f"id-{kind}", "name": None, "documentation": None, "since": None,
                               "sinceTags": None, "proposed": None, "deprecated": None, **kw})
    str_t, int_t = T("base", name="string"), T("base", name="integer")
    prop = Record("Property", {"name": "p", "type": str_t, "optional": None, "documentation": None, "since": None,
                               "sinceTags": None, "proposed": None, "deprecated": None, "id_": "pid"})
    struct = Record("Structure", {"name": "Range", "properties": [prop], "extends": [], "mixins": [], "documentation": None,
                                  "since": None, "sinceTags": None, "proposed": None, "deprecated": None, "id_": "sid"})
    spec = Record("LSPModel", {"structures": [struct], "enumerations": [], "typeAliases": [], "requests": [], "notifications": []})
    samples = {
        "base": str_t, "reference": T("reference", name="Range"), "array": T("array", element=str_t),
        "map": T("map", key=str_t, value=int_t), "tuple": T("tuple", items=[str_t, int_t]), "or": T("or", items=[str_t, int_t]),
        "literal": T("literal", name="SomeLiteral", value=Record("LiteralValue", {"properties": []})),
        "stringLiteral": T("stringLiteral", value="x"),
    }
    types = Record("TypeData", {"get_by_name": ("host", lambda *a, **k: None), "add_type_info": ("host", lambda *a, **k: None),
                                "has_name": ("host", lambda *a, **k: False), "has_id": ("host", lambda *a, **k: False)})
    f = it.globals.get(fname)
    cls_methods = None
    if f is None:
        for cname, c in m.classes.items():
            meths = {x.name: x for x in c.body if isinstance(x, ast.FunctionDef)}
            if fname in meths:
                cls_methods = (cname, meths)
    out = {}
    for v in values:
        arg = samples.get(v) if what == "kind" else T("base", name=v)
        if arg is None:
            out[v] = None
            continue
        try:
            if cls_methods is not None:
                cname, meths = cls_methods
                stubs = {"_has_type": ("host", lambda *a, **k: True), "_lsp_model": spec,
                         "_add_literal_type": ("host", lambda *a, **k: None)}
                own = {k: x for k, x in meths.items() if k not in stubs}
                # class-level tables (kind -> method) are attributes of the instance too
                from ..microeval import Closure as _Cl
                cenv = {k: _Cl(x, None, it) for k, x in meths.items()}
                for cst in m.classes[cname].body:
                    if isinstance(cst, (ast.Assign, ast.AnnAssign)) and getattr(cst, "value", None) is not None:
                        tg = cst.targets[0] if isinstance(cst, ast.Assign) else cst.target
                        if isinstance(tg, ast.Name) and tg.id not in stubs:
                            try:
                                stubs[tg.id] = it.eval(cst.value, dict(cenv))
                                cenv[tg.id] = stubs[tg.id]
                            except (Raised, AnalysisError):
                                pass
                self_rec = Record(cname, stubs, {cname: own})
                it.classes[cname] = own
                if "__init__" in meths:
                    try:
                        it.call(meths["__init__"], [self_rec] + [spec] * (len(meths["__init__"].args.args) - 1))
                    except (Raised, AnalysisError):
                        pass
                r = it.call(meths[fname], [self_rec, arg, "SomeClass", ""][:len(meths[fname].args.args)])
            elif fname == "generate_for_base":
                r = f(v)
            elif fname == "generate_for_type":
                r = f(arg, spec, [])
            elif fname == "lsp_to_base_types":
                r = f(arg)
            else:
                r = f(arg, types, spec)
        except Raised as e:
            out[v] = False if e.exc_name in ("ValueError", "KeyError", "NotImplementedError") else None
            continue
        except AnalysisError:
            out[v] = None
            continue
        if isinstance(r, (EagerGen, list)):
            out[v] = len(r) > 0
        else:
            out[v] = r is not None and r != ""
    return out


def guards_of(m: Module, node):
    """Expressions known truthy at `node` (as unparsed text), by walking up the syntax tree."""
    known = set()

    def truthy_parts(test, positive=True):
        out = set()
        if isinstance(test, ast.BoolOp) and isinstance(test.op, ast.And) and positive:
            for v in test.values:
                out |= truthy_parts(v, True)
        elif isinstance(test, ast.BoolOp) and isinstance(test.op, ast.Or) and not positive:
            for v in test.values:
                out |= truthy_parts(v, False)
        elif isinstance(test, ast.UnaryOp) and isinstance(test.op, ast.Not):
            out |= truthy_parts(test.operand, not positive)
        elif isinstance(test, ast.Compare) and len(test.ops) == 1 and isinstance(test.comparators[0], ast.Constant) \
                and test.comparators[0].value is None:
            if isinstance(test.ops[0], ast.IsNot) and positive:
                out.add(ast.unparse(test.left))
            if isinstance(test.ops[0], ast.Is) and not positive:
                out.add(ast.unparse(test.left))
        elif positive and isinstance(test, (ast.Attribute, ast.Name)):
            out.add(ast.unparse(test))
        elif positive and isinstance(test, ast.Call) and dotted(test.func) == "isinstance" and test.args:
            out.add(ast.unparse(test.args[0]))
        return out

    child = node
    p = m.parents.get(child)
    while p is not None and not isinstance(p, (ast.FunctionDef, ast.AsyncFunctionDef, ast.Lambda, ast.Module)):
        if isinstance(p, ast.If):
            if child in p.body or any(child is x for x in p.body):
                known |= truthy_parts(p.test, True)
            elif child in p.orelse:
                known |= truthy_parts(p.test, False)
        elif isinstance(p, ast.IfExp):
            if child is p.body:
                known |= truthy_parts(p.test, True)
            elif child is p.orelse:
                known |= truthy_parts(p.test, False)
        elif isinstance(p, ast.BoolOp) and isinstance(p.op, ast.And):
            i = p.values.index(child) if child in p.values else 0
            for v in p.values[:i]:
                known |= truthy_parts(v, True)
        elif isinstance(p, ast.BoolOp) and isinstance(p.op, ast.Or):
            i = p.values.index(child) if child in p.values else 0
            for v in p.values[:i]:
                known |= truthy_parts(v, False)
        elif isinstance(p, (ast.ListComp, ast.SetComp, ast.GeneratorExp, ast.DictComp)):
            for g in p.generators:
                for c in g.ifs:
                    if c is not child:
                        known |= truthy_parts(c, True)
        elif isinstance(p, ast.While) and child in p.body:
            known |= truthy_parts(p.test, True)
        # early exits earlier in the same block
        for field in ("body", "orelse", "finalbody"):
            blk = getattr(p, field, None)
            if isinstance(blk, list) and child in blk:
                for st in blk[:blk.index(child)]:
                    if isinstance(st, ast.If) and st.body and isinstance(st.body[-1], (ast.Return, ast.Raise, ast.Continue, ast.Break)) \
                            and not st.orelse:
                        known |= truthy_parts(st.test, False)
                    if isinstance(st, ast.Assert):
                        known |= truthy_parts(st.test, True)
        child = p
        p = m.parents.get(child)
    if isinstance(p, (ast.FunctionDef, ast.AsyncFunctionDef)):
        blk = p.body
        if child in blk:
            for st in blk[:blk.index(child)]:
                if isinstance(st, ast.If) and st.body and isinstance(st.body[-1], (ast.Return, ast.Raise)) and not st.orelse:
                    known |= truthy_parts(st.test, False)
    return known


def is_dereference(m: Module, node) -> str | None:
    p = m.parents.get(node)
    if isinstance(p, ast.Attribute) and p.value is node:
        return f".{p.attr}"
    if isinstance(p, ast.Subscript) and p.value is node:
        return "[...]"
    if isinstance(p, ast.Call) and p.func is node:
        return "(...)"
    if isinstance(p, (ast.For, ast.comprehension)) and p.iter is node:
        return "iteration"
    if isinstance(p, ast.Call) and dotted(p.func) in ("len", "sorted", "list", "iter", "enumerate", "reversed") and node in p.args:
        return f"{dotted(p.func)}()"
    if isinstance(p, ast.Starred):
        return "*unpacking"
    if isinstance(p, ast.BinOp) and isinstance(p.op, ast.Add) and not isinstance(m.parents.get(p), ast.JoinedStr):
        return "+"
    return None


def run(ctx: Ctx):
    idx = Index(ctx.src, dirs=("generator",))
    schema = ctx.src.json(P_SCHEMA)
    base_types = schema.get("definitions", {}).get("BaseTypes", {}).get("enum")
    kinds = schema.get("definitions", {}).get("TypeKind", {}).get("enum")
    if not base_types or not kinds:
        raise AnalysisError(f"{P_SCHEMA}: BaseTypes / TypeKind enums missing")
    if not DISCIPLINE_KINDS <= set(kinds):
        raise AnalysisError(f"{P_SCHEMA}: discipline kinds are no longer schema kinds")

    # ---- (a) kind exhaustiveness
    for rel, fname in sorted(KIND_DISPATCHERS.items()):
        m = idx.get(rel)
        fn = next((f for f in m.all_functions() if f.name == fname), None)
        if fn is None:
            raise AnalysisError(f"{rel}: kind dispatcher {fname} not found")
        ctx.fn(f"{rel}:{fname}")
        got = compared_constants_deep(m, fn, "kind")
        if not DISCIPLINE_KINDS <= got:
            # the dispatcher is not an if-chain / table this lint reads: decide by evaluating it per kind
            sem = semantic_handled(idx, rel, fname, "kind", sorted(DISCIPLINE_KINDS - got))
            got |= {k for k, v in sem.items() if v is True}
            undecided = sorted(k for k, v in sem.items() if v is None)
            if undecided:
                raise AnalysisError(f"{rel}:{fname}: cannot tell whether the kinds {undecided} are handled (neither compared "
                                    "with `.kind` nor foldable)")
        ctx.floor(f"{rel}:{fname} kinds compared", len(got), 6)
        for k in sorted(DISCIPLINE_KINDS):
            ctx.check(k in got, "kind-exhaustive", f"{rel.split('/')[2]}:{fname}:{k}",
                      f"{fname} has no branch for type kind '{k}': a property of that kind makes the plugin fail or "
                      "fall through", rel, fn.lineno, sample={"plugin": rel.split('/')[2], "kind": k})
        for k in sorted(got - set(kinds)):
            ctx.fail("kind-exhaustive", f"{rel.split('/')[2]}:{fname}:{k}:unknown",
                     f"branch for kind '{k}', which the schema does not define", rel, fn.lineno)

    # ---- (b) base names
    handled_by = {}
    for rel, (fname, excl) in sorted(BASE_MAPPERS.items()):
        m0 = idx.get(rel)
        fn0 = next((f for f in m0.all_functions() if f.name == fname), None)
        if fn0 is not None:
            handled_by[rel] = compared_constants_deep(m0, fn0, "name", "name")
    for rel, (fname, excl) in sorted(BASE_MAPPERS.items()):
        m = idx.get(rel)
        fn = next((f for f in m.all_functions() if f.name == fname), None)
        if fn is None:
            raise AnalysisError(f"{rel}: base-type mapper {fname} not found")
        ctx.fn(f"{rel}:{fname}")
        got = compared_constants_deep(m, fn, "name", "name")
        want_b = {b for b in base_types if b not in excl}
        if not want_b <= got:
            sem = semantic_handled(idx, rel, fname, "base", sorted(want_b - got))
            got |= {k for k, v in sem.items() if v is True}
            undecided = sorted(k for k, v in sem.items() if v is None)
            if undecided:
                raise AnalysisError(f"{rel}:{fname}: cannot tell whether the base types {undecided} are handled")
        handled_by[rel] = got
        ctx.floor(f"{rel}:{fname} base names compared", len(got), 6)
        for b in base_types:
            if b in excl:
                continue
            ctx.check(b in got, "base-name-exhaustive", f"{rel.split('/')[2]}:{fname}:{b}",
                      f"{fname} does not handle base type '{b}' (sibling plugins: "
                      f"{sorted(r.split('/')[2] for r, g in handled_by.items() if b in g)}): a property of that base type "
                      "makes the plugin raise / emit nothing", rel, fn.lineno, sample={"plugin": rel.split('/')[2], "base": b})
    # python validator selection must know every string-like base the type mapper maps to str
    pm = idx.get(P_PYUTILS)
    fv = pm.functions.get("_generate_field_validator")
    if fv is None:
        raise AnalysisError(f"{P_PYUTILS}: _generate_field_validator not found")
    # evaluated (E5) per base type: the emitted attrs.field(...) text names the validator of that base type
    from ..microeval import Interp as _VI, Record as _VR, Raised as _VRaised
    vit = _VI(pm.tree, name=P_PYUTILS)
    want_v = {"integer": "integer_validator", "uinteger": "uinteger_validator", "string": "instance_of(str)",
              "boolean": "instance_of(bool)", "decimal": "instance_of(float)", "DocumentUri": "instance_of(str)",
              "URI": "instance_of(str)"}
    for b, needle in want_v.items():
        for optional in (False, True):
            try:
                txt = vit.call(fv, [_VR("Type", {"kind": "base", "name": b}), optional])
            except _VRaised as e:
                txt = f"<raises {e.exc_name}>"
            ok = isinstance(txt, str) and needle in txt and (("validators.optional(" in txt) == optional)
            ctx.check(ok, "base-name-exhaustive", f"python:_generate_field_validator:{b}:optional={optional}",
                      f"for base type '{b}' (optional={optional}) the field is emitted as `{txt}`; it must carry {needle}"
                      + (" wrapped in validators.optional" if optional else ""), P_PYUTILS, fv.lineno)

    # ---- (c) optional-attribute discipline
    n_reads = 0
    for rel, m in sorted(idx.modules.items()):
        if not rel.startswith("generator/plugins/"):
            continue
        for node in ast.walk(m.tree):
            if not (isinstance(node, ast.Attribute) and node.attr in OPTIONAL_ATTRS and isinstance(node.ctx, ast.Load)):
                continue
            # exclude attribute reads on local dict-like / self objects that are not model nodes
            base = ast.unparse(node.value)
            if base in ("self",) or base.startswith("self."):
                continue
            n_reads += 1
            how = is_dereference(m, node)
            fn = m.enclosing_function(node)
            fname = getattr(fn, "name", "<module>")
            text = ast.unparse(node)
            if how is not None:
                known = guards_of(m, node)
                ctx.check(text in known, "optional-attr-guarded", f"{rel}:{fname}:{text}{how}",
                          f"`{text}` is schema-optional (None when unset) and is dereferenced ({how}) without a dominating "
                          f"truthiness guard", rel, node.lineno, sample={"read": f"{rel}:{fname}:{text}", "deref": how})
            else:
                p = m.parents.get(node)
                if isinstance(p, ast.Return) and fn is not None and isinstance(fn, ast.FunctionDef) and fn.returns is not None \
                        and ast.unparse(fn.returns) == "str":
                    known = guards_of(m, p)
                    ctx.check(text in known, "optional-attr-guarded", f"{rel}:{fname}:return {text}",
                              f"{fname} is annotated -> str but returns the schema-optional `{text}` without a truthiness "
                              "guard (hasattr() does not help: attrs always defines it): callers get None", rel, node.lineno)
                else:
                    ctx.ok("optional-attr-read")
    ctx.floor("schema-optional attribute reads in plugins", n_reads, 40)

    # ---- (d) keyword round trip
    uit = microeval.Interp(pm.tree, name=P_PYUTILS)
    snake = uit.globals.get("_to_snake_case")
    if not isinstance(snake, microeval.Closure):
        raise AnalysisError(f"{P_PYUTILS}: _to_snake_case not found")
    for k in [k for k in keyword.kwlist if k.islower()]:
        try:
            s = snake(k)
        except microeval.Raised as e:
            s = f"<raises {e.exc_name}>"
        ctx.check(s == k + "_" and not keyword.iskeyword(s), "keyword-suffix", f"keyword={k}",
                  f"a property named '{k}' becomes attribute {s!r}, which is not a valid identifier", P_PYUTILS)
        ctx.check(s == camel_to_snake(k), "keyword-suffix", f"keyword={k}:independent",
                  f"_to_snake_case({k!r}) = {s!r} differs from the documented rule", P_PYUTILS)


def _flatten_agreement(ctx: Ctx):
    """Inheritance flattening: the four plugin implementations, constant-folded (E5) on a synthetic lattice, must
    give every class the nearest declaration of each property (own > extends/mixins, depth first)."""
    from .. import flatten
    idx = Index(ctx.src, dirs=("generator",))
    # a plugin must be a function of the model it is given: no container or memo that survives a run
    from ..genlint import cross_run_state
    nstate, hits = cross_run_state(idx, "generator/plugins/")
    for rel, construct, msg, ln in hits:
        ctx.fail("no-cross-run-state", construct, msg, rel, ln)
    ctx.ok("no-cross-run-state", {"containers_examined": nstate})
    del flatten.MUTATED[:]
    spec, structs = flatten.lattice()
    impls = [
        ("python", P_PYUTILS, lambda s: flatten.fold_python(idx, spec, structs, s)),
        ("rust", flatten.P_RC, lambda s: flatten.fold_rust(idx, spec, structs, s)),
        ("dotnet", flatten.P_DN, lambda s: flatten.fold_plain(idx, flatten.P_DN, spec, structs, s)),
        ("testdata", flatten.P_TD, lambda s: flatten.fold_plain(idx, flatten.P_TD, spec, structs, s)),
    ]
    n = 0
    for sname in ("A", "B", "C"):
        exp = flatten.expected(structs, sname)
        for plugin, rel, fold in impls:
            got = fold(sname)
            n += 1
            ctx.fn(f"{rel}:flatten")
            for k in sorted(set(exp) | set(got)):
                ctx.check(exp.get(k) == got.get(k), "flatten-nearest-wins", f"{plugin}:struct={sname}:prop={k}",
                          f"on the synthetic lattice the {plugin} plugin gives {sname}.{k} the declaration of "
                          f"{got.get(k)!r}; the nearest declaration is {exp.get(k)!r} (own > extends/mixins depth first)",
                          rel, None, sample={"plugin": plugin, "struct": sname, "prop": k, "owner": got.get(k)})
    ctx.floor("flattening folds", n, 12)
    for what, sname in sorted(set(flatten.MUTATED)):
        ctx.fail("flatten-leaves-model-untouched", f"{what.split('/')[2]}:struct={sname}",
                 f"flattening {sname} in {what} changes the property lists of the model it was given: the next structure "
                 "(or the next plugin run on the same model) sees properties that were never declared there", what, None)
    del flatten.MUTATED[:]
    names = flatten.fold_rust_inherited_literal(idx)
    ok = len(set(names)) == 1 and isinstance(names[0], str) and names[0] and not names[0].startswith("<")
    ctx.check(ok, "literal-types-named", "rust:inherited-literal",
              f"an anonymous literal on a base-structure property gets the struct names {names} when reached through two "
              "inheriting structures and the base itself; they must be one non-empty name (else the field is emitted as "
              "`Option<None>`)", flatten.P_RC, None, sample={"names": names})
    # anonymous literal types at every position of the discipline get a name and a class (python plugin)
    res = flatten.fold_python_literals(idx)
    ctx.floor("literal shapes folded", len(res), 6)
    for label, problem in res.items():
        ctx.check(problem is None, "literal-types-named", f"python:shape={label}",
                  f"a property typed {label}: {problem}", P_PYUTILS, None, sample={"shape": label, "result": problem or "named"})


_run_c06 = run


def _sentinel_discipline(ctx: Ctx):
    """Marker values that pair generators yield in the value position (testdata: `yield (True, Ignore())` for a property
    that may be left out) must never reach the emitted data: a function that takes values from a generator which may
    yield the marker either hands them on unchanged (`yield from G(...)`: it may then yield the marker itself) or tests
    for the marker (`isinstance(v, Marker)`).  A consumer without the test lets the marker through to json.dumps."""
    idx = Index(ctx.src, dirs=("generator/plugins",))
    n = 0
    for rel, m in sorted(idx.modules.items()):
        classes = {st.name for st in m.tree.body if isinstance(st, ast.ClassDef)}
        fns = list(m.all_functions())
        producers = {}
        for f in fns:
            for y in ast.walk(f):
                if isinstance(y, ast.Yield) and isinstance(y.value, ast.Tuple) and len(y.value.elts) == 2:
                    v = y.value.elts[1]
                    if isinstance(v, ast.Call) and isinstance(v.func, ast.Name) and v.func.id in classes and not v.args:
                        producers.setdefault(v.func.id, set()).add(f.name)
        for marker, prods in sorted(producers.items()):
            prods = set(prods)
            changed = True
            consumers = {}
            while changed:
                changed = False
                consumers = {}
                for f in fns:
                    if f.name in prods:
                        continue
                    parents = {c_: p_ for p_ in ast.walk(f) for c_ in ast.iter_child_nodes(p_)}
                    calls = [c for c in ast.walk(f) if isinstance(c, ast.Call) and (dotted(c.func) or "").split(".")[-1] in prods]
                    if not calls:
                        continue
                    if all(isinstance(parents.get(c), ast.YieldFrom) for c in calls):
                        prods.add(f.name)
                        changed = True
                    else:
                        consumers[f.name] = (f, calls)
            for fname, (f, calls) in sorted(consumers.items()):
                tests = [c for c in ast.walk(f) if isinstance(c, ast.Call) and dotted(c.func) == "isinstance" and len(c.args) == 2
                         and any(isinstance(x, ast.Name) and x.id == marker for x in ast.walk(c.args[1]))]
                n += 1
                ctx.check(bool(tests), "marker-values-filtered", f"{rel.split('/')[-1]}:{fname}:{marker}",
                          f"{fname} takes values from {sorted({(dotted(c.func) or '').split('.')[-1] for c in calls})}, which may "
                          f"yield the marker {marker}(), but never tests for it: the marker object reaches the emitted data "
                          "(json.dumps raises TypeError) for every input that produces it", rel, calls[0].lineno,
                          sample={"function": fname, "marker": marker})
    ctx.floor("consumers of marker-yielding generators", n, 1)


def _special_registration(ctx: Ctx):
    """The python plugin registers, per generated class, the attributes that are always written (null-admitting or string
    literal).  Folded on synthetic definitions (structure with extends + mixins, anonymous literal, `and` type): the
    registered names are exactly the snake_case attribute names of those properties, inherited ones included."""
    from .. import flatten
    idx = Index(ctx.src, dirs=("generator",))
    res = flatten.fold_python_specials(idx)
    for label, (got, want) in sorted(res.items()):
        ctx.check(got == want, "special-names-are-attribute-names", f"python:{label}",
                  f"for a synthetic {label} the python plugin registers the always-written attributes {got}; the null-admitting "
                  f"/ literal properties are {want} (attribute names as generated)", flatten.P_PYUTILS, None,
                  sample={"case": label, "registered": got})
    ctx.floor("special-registration cases folded", len(res), 3)
    got, want = flatten.fold_python_and_types(idx)
    ctx.check(got == want, "and-types-get-their-class", "python:_add_and_types",
              f"for three messages that use the same `and` combination the python plugin emits the classes {got}; every message "
              f"needs its own: {want}", flatten.P_PYUTILS, None, sample={"classes": got})


def run(ctx: Ctx):  # noqa: F811
    _run_c06(ctx)
    _flatten_agreement(ctx)
    _sentinel_discipline(ctx)
    _special_registration(ctx)
    # "the test vectors satisfy C17" for an evolved metamodel: the composite generators folded on synthetic types that
    # today's metamodel does not contain (anonymous literals with optional properties, ...), shared with C17
    from . import c17 as _c17
    _c17._fold_composite_labels(ctx)
    # requiredness of a generated attribute: optional exactly when the property is optional or its type admits null --
    # with `optional` absent, false and true (today's metamodel never writes an explicit false)
    from .. import flatten as _fl
    from ..genlint import Index as _Idx
    for (shape, optional, null_adm), line in sorted(_fl.fold_python_option(_Idx(ctx.src, dirs=("generator",))).items(), key=repr):
        if line.startswith("raises "):
            # the fold did not get as far as the attribute line (a collaborator it has no stand-in for): undecided
            raise AnalysisError(f"{P_PYUTILS}: _generate_properties {line} when folded for a {shape} property")
        want = bool(optional) or null_adm
        got = ": Optional[" in line and "default=None" in line
        req = ": Optional[" not in line and "default=None" not in line
        ctx.check(line.startswith("some_prop:") and (got if want else req), "attribute-optional-iff-optional-or-null",
                  f"python:type={shape}:optional={optional}",
                  f"a property of type {shape} with optional={'absent' if optional is None else str(optional).lower()} is emitted as "
                  f"`{line}`: the attribute must be Optional with default None exactly when the property is optional or its type "
                  "admits null", P_PYUTILS, None, sample={"type": shape, "optional": optional, "line": line})
    # a message without typeName gets its class name from the method string -- by the python plugin (`_to_class_name`) and,
    # independently, by the testdata plugin (`lsp_method_to_name`), whose file names the generated test-suite matches
    # against the python classes: the two derivations must agree
    _message_names_agree(ctx)


def _message_names_agree(ctx: Ctx):
    from ..microeval import Interp as _I, Raised as _R, Closure as _C
    P_TDG = "generator/plugins/testdata/testdata_generator.py"
    try:
        pit = _I(ast.parse(ctx.src.text(P_PYUTILS)), name=P_PYUTILS)
        tit = _I(ast.parse(ctx.src.text(P_TDG)), name=P_TDG)
    except SyntaxError as e:
        raise AnalysisError(str(e))
    pf, tf = pit.globals.get("_to_class_name"), tit.globals.get("lsp_method_to_name")
    if not isinstance(pf, _C) or not isinstance(tf, _C):
        raise AnalysisError(f"{P_PYUTILS} / {P_TDG}: _to_class_name / lsp_method_to_name not found")
    methods = ["textDocument/seedQuery", "workspace/didChangeWatchedFiles", "$/setTrace", "seed/ping", "window/showMessage",
               "notebookDocument/didOpen", "x/yZ/aBc", "textDocument/semanticTokens/full/delta", "initialize", "$/cancelRequest"]
    n = 0
    for m_ in methods:
        try:
            a, b = pf(m_), tf(m_)
        except _R as e:
            ctx.fail("message-class-name-agrees", f"method={m_}", f"deriving a class name from {m_!r} raises {e.exc_name}", P_PYUTILS, None)
            continue
        n += 1
        ctx.check(a == b, "message-class-name-agrees", f"method={m_}",
                  f"for a message {m_!r} without typeName the python plugin names the class {a!r}, the testdata plugin names its "
                  f"vectors {b!r}: the vectors refer to a class the package does not have", P_PYUTILS, None,
                  sample={"method": m_, "python": a, "testdata": b})
    ctx.floor("method strings folded through both name derivations", n, 8)
