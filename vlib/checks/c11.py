"""C11 -- spec-invalid single-field deviations are rejected, never silently repaired."""
import ast

from ..common import Ctx, P_TYPES, P_HOOKS
from ..pymodel import show, NONE, members, strip_none
from . import _imgbase

META = {
    "level": "other",
    "explanation": (
        "Static, one obligation per eligible property (eligibility decided from lsp.json): (1) a required property "
        "that is neither null-admitting nor a literal => its attribute has no default, so the generated structure "
        "function indexes obj[wire] and raises KeyError when it is absent (A3); (2) an integer/uinteger property => "
        "the range validator is attached (its accept set is decided by C12) and runs in the constructor the "
        "converter calls; (3) a property whose type is a closed enumeration (bare, optional, or array element) => "
        "the annotation is the enum class itself (not a Union with its base type), so cattrs dispatches to E(value), "
        "which raises for non-members (A1); (4) a string-literal property => in_([literal]) validator or "
        "Literal[...] annotation. Plus an effect check: no try/except in _hooks.py that could swallow a "
        "structuring error, and no structure hook registered for a plain attrs class or enum that would bypass "
        "the generated function."),
    "trusted_base": ["A1 (enum -> E(v), literal check)", "A3 (required field -> obj[key]; constructor validators run)"],
    "assumptions": ["the value is structured as the structure's own class (top level of the edit)"],
    "not_decided": ["closed enumerations inside larger unions (covered by C13)"],
}


def run(ctx: Ctx):
    im = _imgbase.image(ctx)
    t, mm = im.types, im.mm
    n = {"required": 0, "int": 0, "enum": 0, "literal": 0}
    for p in im.pairs:
        f, c = p.field, p.cls
        q = f"{c.name}.{f.name}"
        pt = p.prop.type
        if p.prop.py_required:
            n["required"] += 1
            ctx.check(not f.has_default, "required-has-no-default", q,
                      f"required property '{p.wire}' has a default ({f.default!r}): a message without it is accepted",
                      P_TYPES, f.lineno, sample={"attr": q, "edit": "remove required"})
        if pt.get("kind") == "base" and pt["name"] in ("integer", "uinteger"):
            n["int"] += 1
            want = pt["name"]
            exp = f"optional({want})" if p.prop.py_optional else want
            ctx.check(f.validator == exp, "int-has-range-validator", q,
                      f"{want} property lacks its range validator ({f.validator})", P_TYPES, f.lineno)
        # closed enum directly / optional / array element
        inner = pt
        depth = []
        while inner.get("kind") == "array":
            inner = inner["element"]
            depth.append("seq")
        if inner.get("kind") == "reference" and inner["name"] in mm.enums and not mm.enum_open(inner["name"]):
            n["enum"] += 1
            ty = strip_none(f.resolved) if p.prop.py_optional else f.resolved
            for _ in depth:
                ty = ty[1] if ty[0] in ("seq", "list") else ("bad",)
            ctx.check(ty == ("enum", inner["name"]), "closed-enum-is-bare", q,
                      f"closed enumeration {inner['name']} is annotated {show(f.resolved)}: values outside the "
                      "enumeration are not rejected", P_TYPES, f.lineno, sample={"attr": q, "enum": inner["name"]})
        if p.prop.literal:
            n["literal"] += 1
            lit = pt["value"]
            ok = f.validator == f"in_({lit!r})" or f.resolved == ("lit", (lit,))
            ctx.check(ok, "literal-is-enforced", q,
                      f"literal property '{p.wire}' = {lit!r} is not enforced (validator {f.validator}, "
                      f"annotation {show(f.resolved)})", P_TYPES, f.lineno)
    ctx.floor("required properties", n["required"], 300)
    ctx.floor("integer properties", n["int"], 20)
    ctx.floor("closed-enum properties", n["enum"], 30)
    ctx.floor("literal properties", n["literal"], 8)
    ctx.extra["eligible"] = n
    # effect check
    tries = [node for node in ast.walk(im.hooks.tree) if isinstance(node, ast.Try)]
    swallowing = []
    for tr in tries:
        for hnd in tr.handlers:
            has_exit_without_raise = any(isinstance(x, (ast.Return, ast.Continue, ast.Break)) for x in ast.walk(hnd)) \
                or not any(isinstance(x, ast.Raise) for x in ast.walk(hnd))
            if has_exit_without_raise:
                swallowing.append(tr.lineno)
    ctx.check(not swallowing, "no-swallowing-try", "_hooks.py",
              f"try/except at line(s) {sorted(set(swallowing))} has a handler path that returns instead of re-raising: a "
              "structuring error can be swallowed and the value silently repaired", P_HOOKS)
    # class-keyed hooks bypassing the generated function
    # A hand-written hook registered for an attrs class / enum replaces the generated function the four
    # obligations above rely on (A1/A3).  It is folded where possible (integer verdicts as in C12, non-member
    # acceptance as in C13): a concrete accepted deviation is a violation; otherwise the clause is undecided.
    from ..common import Ctx as _Ctx, AnalysisError as _AE
    from . import c12 as _c12, c13 as _c13
    bypass = [(k, r) for k, r in im.hooks.class_hooks_effective().items() if not (k == NONE or k[0] in ("opaque", "prim"))]
    if not bypass:
        ctx.ok("class-hooks-keep-rejections", {"class_keyed_hooks": 0})
    else:
        sub = _Ctx("C11", ctx.tier, ctx.seed, ctx.src, quiet=True)
        undecided = None
        try:
            _c12._entry_points_agree(sub)
        except _AE as e:
            undecided = e
        try:
            _c13._enum_class_hooks(sub)
        except _AE as e:
            undecided = undecided or e
        hits = [f for f in sub.findings if f.rule in ("entry-points-agree", "closed-enum-rejects-nonmembers")]
        for f in hits:
            ctx.fail("class-hooks-keep-rejections", f.construct, f.message, f.file, f.line)
        if not hits:
            decided = {("cls", c.name) for c in t.attrs_classes()
                       if any(fl.validator in ("integer", "uinteger") for fl in c.fields)} | \
                      {("enum", e) for e in mm.enums if not mm.enum_open(e)}
            rest = [k for k, _ in bypass if k not in decided]
            if undecided is not None or rest:
                raise _AE(f"{P_HOOKS}: hand-written structure hooks are registered for {[show(k) for k, _ in bypass][:4]}; "
                          f"whether the single-field deviations are still rejected there is not decidable by this "
                          f"analysis ({undecided or 'no integer / closed-enum verdict to fold'})")
            ctx.ok("class-hooks-keep-rejections")
    # enum classes are real enum.Enum subclasses (E(v) raises ValueError for non-members)
    for en in mm.enums:
        c = t.classes.get(en)
        if c is None:
            continue
        ctx.check(c.kind == "enum" and "_missing_" not in c.methods, "enum-is-closed-class", f"enum={en}",
                  f"{en} defines _missing_ or is not an enum.Enum: non-members may be accepted", P_TYPES, c.lineno)


_run_c11 = run


def run(ctx: Ctx):  # noqa: F811
    _run_c11(ctx)
    # the range validators themselves (edit 2: "a number outside its range"): their accept set, decided by the
    # comparison-partition analysis of C12, restated here for the out-of-range direction
    from ..common import Ctx as _Ctx
    from . import c12
    sub = _Ctx("C11", ctx.tier, ctx.seed, ctx.src, quiet=True)
    c12._run_validators(sub)
    n = 0
    for f in sub.findings:
        # C11 only needs *an* error for an out-of-range number (which exception is C12's business)
        if f.rule == "reject-out-of-range" and "('return'" in f.message:
            ctx.fail("int-range-enforced", f.construct, f.message, f.file, f.line)
    n = sub.rule_counts.get("reject-out-of-range", 0)
    ctx.floor("out-of-range representatives checked", n, 20)
    for _ in range(n - sum(1 for f in sub.findings if f.rule == "reject-out-of-range")):
        ctx.ok("int-range-enforced")


_run_before_converter_precondition = run


def run(ctx: Ctx):  # noqa: F811
    _run_before_converter_precondition(ctx)
    from . import _sitebase as _sb
    _sb.converter_precondition(ctx)
