"""Self-test of the checkers (both directions): silent on today's tree, firing on mutants.
Filled in further below; `--setup` only verifies that every checker module imports."""
from __future__ import annotations

import importlib
import os
import pkgutil
import sys


def setup() -> int:
    import vlib.checks as pkg

    n = 0
    for m in pkgutil.iter_modules(pkg.__path__):
        importlib.import_module(f"vlib.checks.{m.name}")
        n += 1
    for name in ("pymodel", "hooks", "metamodel", "microeval", "hooktree", "sites", "image"):
        importlib.import_module(f"vlib.{name}")
    print(f"setup ok: {n} check modules import (stdlib only, nothing to build)")
    return 0


def run_for_property(prop: str) -> int:
    try:
        from . import mutants
    except ImportError:
        return 0
    return mutants.run([prop])


def main(rest, jobs=16) -> int:
    if "--setup" in rest:
        return setup()
    try:
        from . import mutants
    except ImportError:
        print("no mutant catalogue yet")
        return 0
    return mutants.run([r for r in rest if not r.startswith("-")], jobs=jobs)
