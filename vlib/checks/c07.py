"""C07 -- the generated Rust crate declares the metamodel's wire schema.

Translation validation of the COMMITTED packages/rust/lsprotocol/src/lib.rs against generator/lsp.json.
lib.rs is tokenised and parsed by vlib.rustparse (E7); lsp.json is read as data (E2).  The mapping
below is an independent statement (nothing is imported from the generator, nothing is executed).

Mapping (metamodel type -> Rust type tree), `M(t)`:
    base string, RegExp -> String        base DocumentUri, URI -> Url       base decimal -> Decimal
    base integer -> i32                  base uinteger -> u32               base boolean -> bool
    stringLiteral -> String
    reference N -> N, except: N an enumeration with supportsCustomValues -> CustomStringEnum<N> (string
        enumeration) / CustomIntEnum<N> (integer, uinteger enumeration)
    array -> Vec<M(e)>      map -> HashMap<M(k), M(v)>      tuple -> (M(a), M(b), ...)
    or: drop the `base null` items; n >= 2 alternatives left -> ORn<M(a1), .., M(an)> in the metamodel's order,
        exactly one left -> M(a1); when a null item was dropped the result is wrapped in Option<..>
    literal without properties -> LSPObject; literal with properties -> *some* struct of lib.rs whose serde
        field set, Option wrappers and field types are those of the literal's properties (structural,
        the generated name is not consulted)
    Box<T> is wire-transparent and is read as T (SelectionRange.parent).
A struct field for property p has type Option<X> iff p is optional or its type is null-admitting, where X is
M(p.type) with that one Option level removed.

Closed lists of special cases (worked out from lib.rs, everything else goes through the general rules):
    LSPAny    -- `or` alias; declared as an untagged enum whose payload multiset is the metamodel's
                 alternatives, but in the crate's own order (scalars before Object/Array, Null last);
                 compared as a multiset, not in order.
    LSPObject -- `map` alias; declared as a *private* `type LSPObject = serde_json::Value;`
    LSPArray  -- `array` alias; declared as a *private* `type LSPArray = Vec<LSPAny>;`
    SelectionRange -- emitted by hand without `rename_all` (both fields are single words, the serde names
                 are computed under the struct's real rule, so nothing is special-cased in the check).
    support items that have no metamodel counterpart: CustomStringEnum, CustomIntEnum, OR2..OR7, LSPNull,
                 LSPId (= integer | string), LSPIdOptional (= integer | string | null),
                 LSPRequestMethods, LSPNotificationMethods, MessageDirection; their shapes are checked.

Messages: the struct of a request / notification is named `typeName` when the metamodel gives one, else
UpperCamel(method without a leading "$/", "/" read as a word break) + "Request" / "Notification" unless it
already ends so; the response struct is that request name with a trailing "Request" removed + "Response".
Request: {jsonrpc: String, method: LSPRequestMethods, id: LSPId, params}; notification: {jsonrpc: String,
method: LSPNotificationMethods, params}; response: id: LSPIdOptional and result (other response fields are
not covered by the property).  params: a reference to a structure with >= 1 flattened property -> that
structure (required); any other params (structure without properties, alias such as LSPAny) ->
Option<LSPAny>; no params -> Option<LSPNull>.  result: `base null` -> LSPNull; else the field type rule
above with optional = false.

Gates: #[cfg(feature = "proposed")] iff `proposed` for structs, their fields, enums, their variants, aliases and
message structs (rule gate); response structs follow their request (rule gate-response); the two serde impls of
an integer enumeration carry the enumeration's gate and a match arm naming a gated variant carries the
variant's gate (rule gate-companion: they are part of the proposed item); everything else (support items,
envelope fields, alias variants, use declarations) is ungated.  A general closure rule (no ungated item names a
gated type) is deliberately NOT applied: see gated_type_count().
"""
from __future__ import annotations

import re

from ..common import Ctx, AnalysisError, P_LIBRS, P_LSPJSON
from ..metamodel import MetaModel, Prop, is_null, null_admitting
from .. import rustparse as rp
from ..rustparse import show_ty, ty_names

META = {
    "level": "translation_validation",
    "explanation": (
        "Exhaustive static comparison of the committed lib.rs (tokenised and parsed into items, fields, "
        "variants, type trees, serde/cfg attributes and the match tables of the hand-written integer-enum "
        "serde impls by vlib.rustparse; the parser fails closed) against generator/lsp.json under an "
        "independent statement of the metamodel -> Rust mapping: every structure has a same-named struct "
        "whose set of serde field names (identifier under the struct's rename_all rule, or explicit rename) "
        "equals the flattened property names, each field Option-wrapped iff optional or null-admitting and "
        "of the mapped type tree; every enumeration lists exactly the metamodel values (renames for string "
        "enumerations; `= int` discriminants and both match tables of the Serialize / Deserialize impls, "
        "mutually consistent, for integer ones); every `or` alias is an untagged enum with one variant per "
        "alternative in order, other aliases are `type A = mapped;`; every request / notification has its "
        "message structs and a method-enum variant renamed to the exact method string, nothing extra; "
        "#[cfg(feature = \"proposed\")] is present iff the metamodel says proposed (structs, fields, enums, "
        "variants, aliases, message structs, response structs) and no ungated item, impl block or match arm "
        "names a gated type or variant (gate closure)."),
    "rule": "one obligation per definition (present, shape), per field (paired both ways, Option, type, gate), "
            "per enumeration value / table entry, per alias variant, per method, per gate",
    "trusted_base": ["serde_derive naming rules (rename, rename_all = camelCase) as restated in rustparse",
                     "serde: untagged enums serialise the payload; Option<T>/Box<T> are wire-transparent"],
    "assumptions": ["lsp.json is the reference; only the committed lib.rs is judged (evolved metamodels need the "
                    "plugin run and are declined)"],
    "not_decided": ["method-enum variants of proposed methods are ungated by design (not checked)",
                    "response-struct fields other than id and result",
                    "documentation comments, #[deprecated], skip_serializing_if, deny_unknown_fields",
                    "variant / field identifiers (only their serde names are compared)",
                    "order of LSPAny's alternatives (closed-list special case)"],
}

GATE = 'feature="proposed"'
MODELLED_SERDE_CONTAINER = {"rename_all", "deny_unknown_fields", "untagged"}
MODELLED_SERDE_FIELD = {"rename", "skip_serializing_if"}
MODELLED_SERDE_VARIANT = {"rename"}
SUPPORT_ENUMS = ("CustomStringEnum", "CustomIntEnum", "OR2", "OR3", "OR4", "OR5", "OR6", "OR7", "LSPNull",
                 "LSPId", "LSPIdOptional", "LSPRequestMethods", "LSPNotificationMethods", "MessageDirection")
PRIVATE_TYPE_ALIASES = ("LSPObject", "LSPArray")
# crate-level names the JSON-RPC envelope rules refer to (checked not to be metamodel names)
ENVELOPE_REFS = ("LSPNull", "LSPId", "LSPIdOptional", "LSPRequestMethods", "LSPNotificationMethods")
BASE_MAP = {"string": "String", "RegExp": "String", "DocumentUri": "Url", "URI": "Url", "decimal": "Decimal",
            "integer": "i32", "uinteger": "u32", "boolean": "bool"}
BASE = lambda n: {"kind": "base", "name": n}  # noqa: E731
REF = lambda n: {"kind": "reference", "name": n}  # noqa: E731

_PARTS = re.compile(r"([a-z0-9])([A-Z])")


def upper_camel(name: str) -> str:
    """Words = runs separated by '_' or a lower/digit -> Upper boundary; each word capitalised
    (first letter upper, rest lower), concatenated."""
    words = _PARTS.sub(r"\1 \2", name.replace("_", " ")).split()
    return "".join(w[:1].upper() + w[1:].lower() for w in words)


def message_struct_name(msg, kind: str) -> str:
    if msg.get("typeName"):
        return msg["typeName"]
    m = msg["method"]
    if m.startswith("$/"):
        m = m[2:]
    name = upper_camel(m.replace("/", "_"))
    suffix = "Request" if kind == "request" else "Notification"
    return name if name.endswith(suffix) else name + suffix


def response_struct_name(msg) -> str:
    n = message_struct_name(msg, "request")
    if n.endswith("Request"):
        n = n[: -len("Request")]
    return n + "Response"


def impl_id(im) -> str:
    """Stable construct name of an impl block (generic arguments of the trait dropped)."""
    return (f"impl={im.trait[0]} " if im.trait else "impl ") + f"for={show_ty(im.self_ty)}"


def unbox(t):
    name, args = t
    args = tuple(unbox(a) for a in args)
    if name == "Box" and len(args) == 1:
        return args[0]
    return (name, args)


def strip_option(t):
    if t[0] == "Option" and len(t[1]) == 1:
        return True, t[1][0]
    return False, t


class Checker:
    def __init__(self, ctx: Ctx):
        self.ctx = ctx
        self.mm = MetaModel(ctx.src)
        text = ctx.src.text(P_LIBRS)
        self.rf = rp.parse(text, P_LIBRS)
        self.structs: dict = {}
        self.enums: dict = {}
        self.types: dict = {}
        self.impls: list = []
        self.accounted: set = set()
        self.literal_structs: dict = {}   # rust struct name -> (props, path)
        self.fields_compared = 0
        self.im_used: set = set()
        self.index_items()

    # ------------------------------------------------------------------------------ infrastructure
    def index_items(self):
        ctx = self.ctx
        seen = {}
        for it in self.rf.items:
            if it.kind == "use":
                ctx.check(not it.attrs.cfg, "gate", f"use={it.path}", "a use declaration is feature-gated",
                          P_LIBRS, it.line)
                continue
            if it.kind == "impl":
                self.impls.append(it)
                continue
            if it.name in seen:
                ctx.fail("item-unique", f"item={it.name}", f"{it.name} is declared twice "
                         f"(lines {seen[it.name]} and {it.line})", P_LIBRS, it.line)
                continue
            ctx.ok("item-unique")
            seen[it.name] = it.line
            {"struct": self.structs, "enum": self.enums, "type": self.types}[it.kind][it.name] = it
        for it in list(self.structs.values()) + list(self.enums.values()) + list(self.types.values()):
            self.gate_form(it.attrs, f"{it.kind}={it.name}", it.line)
            if it.kind == "struct":
                for f in it.fields:
                    self.gate_form(f.attrs, f"struct={it.name} field={f.name}", f.line)
            if it.kind == "enum":
                for v in it.variants:
                    self.gate_form(v.attrs, f"enum={it.name} variant={v.name}", v.line)
        for im in self.impls:
            self.gate_form(im.attrs, impl_id(im), im.line)

    def gate_form(self, attrs, construct, line):
        """Only the predicate feature = "proposed" is modelled; anything else is reported."""
        self.ctx.check(attrs.cfg in ([], [GATE]), "gate-form", construct,
                       f"cfg predicate(s) {attrs.cfg} are not the single feature = \"proposed\" gate", P_LIBRS, line)

    def gated(self, attrs) -> bool:
        return GATE in attrs.cfg

    def gate(self, attrs, want: bool, construct: str, line, what: str, rule: str = "gate"):
        got = self.gated(attrs)
        msg = (f"{what} is proposed in the metamodel but not behind #[cfg(feature = \"proposed\")]" if want
               else f"{what} is feature-gated but not proposed in the metamodel")
        self.ctx.check(got == want, rule, construct, msg, P_LIBRS, line,
                       sample={"construct": construct, "gated": got} if want else None)

    def serde_keys(self, attrs, allowed, construct, line):
        for k, v in attrs.serde.items():
            ok = k in allowed and not (isinstance(v, tuple))
            self.ctx.check(ok, "serde-attr-modelled", f"{construct} attr={k}",
                           f"serde attribute {k} changes the wire form in a way the property does not sanction",
                           P_LIBRS, line)

    def derives_serde(self, it, construct):
        d = it.attrs.derives
        self.ctx.check("Serialize" in d and "Deserialize" in d, "derives-serde", construct,
                       f"{it.name} does not derive both Serialize and Deserialize (derives {d})", P_LIBRS, it.line)

    def field_serde_name(self, st, f) -> str:
        return f.attrs.rename if f.attrs.rename is not None else rp.serde_rename_field(f.name, st.attrs.rename_all)

    # ------------------------------------------------------------------------------ type mapping
    def show(self, t, top=False) -> str:
        """Expected Rust spelling of a metamodel type (for messages)."""
        k = t.get("kind")
        if k == "base":
            return "<null>" if t["name"] == "null" else BASE_MAP.get(t["name"], f"<unknown base {t['name']}>")
        if k == "stringLiteral":
            return "String"
        if k == "reference":
            n = t["name"]
            e = self.mm.enums.get(n)
            if e is not None and e.get("supportsCustomValues"):
                return ("CustomStringEnum<%s>" if e["type"]["name"] == "string" else "CustomIntEnum<%s>") % n
            return n
        if k == "array":
            return f"Vec<{self.show(t['element'])}>"
        if k == "map":
            return f"HashMap<{self.show(t['key'])}, {self.show(t['value'])}>"
        if k == "tuple":
            return "(" + ", ".join(self.show(i) for i in t["items"]) + ")"
        if k == "or":
            items = [i for i in t["items"] if not is_null(i)]
            s = self.show(items[0]) if len(items) == 1 else f"OR{len(items)}<" + ", ".join(self.show(i) for i in items) + ">"
            return s if top or len(items) == len(t["items"]) else f"Option<{s}>"
        if k == "literal":
            props = t["value"].get("properties") or []
            return "LSPObject" if not props else "<struct {" + ", ".join(p["name"] for p in props) + "}>"
        return f"<{k}>"

    def ty_eq(self, r, t, path: str, top: bool = False) -> bool:
        """Does Rust type tree `r` (Box removed) equal M(t)?  With top=True the caller has already
        accounted for the Option level of a null-admitting `or`."""
        k = t.get("kind")
        name, args = r
        if k == "base":
            n = t["name"]
            if n == "null":
                raise AnalysisError(f"{P_LSPJSON}: `base null` outside an `or` at {path}: no Rust image is defined")
            if n not in BASE_MAP:
                raise AnalysisError(f"{P_LSPJSON}: unknown base type {n} at {path}")
            return r == (BASE_MAP[n], ())
        if k == "stringLiteral":
            return r == ("String", ())
        if k == "reference":
            n = t["name"]
            if n in ENVELOPE_REFS:
                return r == (n, ())
            e = self.mm.enums.get(n)
            if e is not None and e.get("supportsCustomValues"):
                b = e["type"]["name"]
                if b not in ("string", "integer", "uinteger"):
                    raise AnalysisError(f"{P_LSPJSON}: enumeration {n} has base {b}")
                wrap = "CustomStringEnum" if b == "string" else "CustomIntEnum"
                return r == (wrap, ((n, ()),))
            if n not in self.mm.enums and n not in self.mm.structures and n not in self.mm.aliases:
                raise AnalysisError(f"{P_LSPJSON}: reference to unknown type {n} at {path}")
            return r == (n, ())
        if k == "array":
            return name == "Vec" and len(args) == 1 and self.ty_eq(args[0], t["element"], path + "[]")
        if k == "map":
            return (name == "HashMap" and len(args) == 2 and self.ty_eq(args[0], t["key"], path + "{key}")
                    and self.ty_eq(args[1], t["value"], path + "{value}"))
        if k == "tuple":
            items = t["items"]
            if any(is_null(i) for i in items):
                raise AnalysisError(f"{P_LSPJSON}: tuple with a null item at {path} is outside the modelled discipline")
            return (name == "()" and len(args) == len(items)
                    and all(self.ty_eq(a, i, f"{path}({j})") for j, (a, i) in enumerate(zip(args, items))))
        if k == "or":
            items = [i for i in t["items"] if not is_null(i)]
            if not items:
                raise AnalysisError(f"{P_LSPJSON}: `or` without a non-null alternative at {path}")
            if len(items) != len(t["items"]) and not top:
                opt, inner = strip_option(r)
                if not opt:
                    return False
                r = inner
                name, args = r
            if len(items) == 1:
                return self.ty_eq(r, items[0], path)
            return (name == f"OR{len(items)}" and len(args) == len(items)
                    and all(self.ty_eq(a, i, f"{path}|{j}") for j, (a, i) in enumerate(zip(args, items))))
        if k == "literal":
            props = t["value"].get("properties") or []
            if not props:
                return r == ("LSPObject", ())
            if args or name not in self.structs:
                return False
            if name in self.mm.structures:
                return False
            prev = self.literal_structs.get(name)
            if prev is not None and [p["name"] for p in prev[0]] != [p["name"] for p in props]:
                return False
            self.literal_structs[name] = (props, path)
            return True
        raise AnalysisError(f"{P_LSPJSON}: type kind {k!r} at {path} is outside the modelled discipline")

    # ------------------------------------------------------------------------------ structs
    def check_fields(self, st, props: list, who: str):
        """Obligations 1-3 (+ field gates) for one struct against a property list.
        `who` is the construct prefix (struct=Name / literal=path)."""
        ctx = self.ctx
        self.serde_keys(st.attrs, MODELLED_SERDE_CONTAINER - {"untagged"}, who, st.line)
        ra = st.attrs.rename_all
        ctx.check(ra in (None, "camelCase"), "rename-all", who,
                  f"rename_all = {ra!r}: the wire names of the metamodel are camelCase", P_LIBRS, st.line)
        self.derives_serde(st, who)
        by_name = {}
        for f in st.fields:
            self.serde_keys(f.attrs, MODELLED_SERDE_FIELD, f"{who} field={f.name}", f.line)
            sn = self.field_serde_name(st, f)
            if sn in by_name:
                ctx.fail("field-unique", f"{who} field={sn}", f"two fields of {st.name} serialise as {sn!r}",
                         P_LIBRS, f.line)
                continue
            ctx.ok("field-unique")
            by_name[sn] = f
        pnames = {p.name for p in props}
        for p in props:
            f = by_name.get(p.name)
            if f is None:
                ctx.fail("field-names", f"{who} missing={p.name}",
                         f"no field of {st.name} serialises as {p.name!r} (property of {p.owner})", P_LIBRS, st.line)
                continue
            ctx.ok("field-names", sample={"struct": st.name, "field": f.name, "serde": p.name})
            self.fields_compared += 1
            self.check_field(st, f, p.name, p.type, p.optional, who)
            self.gate(f.attrs, bool(p.raw.get("proposed")), f"{who} field={p.name}", f.line, f"property {st.name}.{p.name}")
        for sn, f in by_name.items():
            ctx.check(sn in pnames, "field-names", f"{who} extra={sn}",
                      f"field {f.name} of {st.name} serialises as {sn!r}, which is not a property of the metamodel "
                      f"definition", P_LIBRS, f.line)
        return by_name

    def check_field(self, st, f, pname, ptype, optional, who):
        ctx = self.ctx
        rty = unbox(f.ty)
        want_opt = bool(optional) or null_admitting(ptype)
        got_opt, inner = strip_option(rty)
        ctx.check(got_opt == want_opt, "option-iff", f"{who} field={pname}",
                  f"{st.name}.{f.name}: {show_ty(f.ty)} should {'' if want_opt else 'not '}be wrapped in Option "
                  f"(optional={bool(optional)}, null-admitting={null_admitting(ptype)})", P_LIBRS, f.line,
                  sample={"struct": st.name, "field": f.name, "type": show_ty(f.ty)} if want_opt else None)
        ok = self.ty_eq(inner, ptype, f"{st.name}.{pname}", top=True)
        ctx.check(ok, "field-type", f"{who} field={pname}",
                  f"{st.name}.{f.name}: type {show_ty(f.ty)} is not the mapped type "
                  f"{'Option<' if want_opt else ''}{self.show(ptype, top=True)}{'>' if want_opt else ''}",
                  P_LIBRS, f.line, sample={"struct": st.name, "field": f.name, "type": show_ty(f.ty)})

    def structures(self):
        ctx, mm = self.ctx, self.mm
        n = 0
        for sname in mm.structures:
            st = self.structs.get(sname)
            who = f"struct={sname}"
            if st is None:
                other = "an enum" if sname in self.enums else "a type alias" if sname in self.types else None
                ctx.fail("struct-present", who, f"structure {sname} has no `pub struct {sname}` in lib.rs"
                         + (f" (it is {other})" if other else ""), P_LIBRS)
                continue
            ctx.ok("struct-present")
            ctx.fn(f"lib.rs:struct {sname}")
            self.accounted.add(sname)
            n += 1
            ctx.check(st.vis == "pub" and not st.generics, "struct-shape", who,
                      f"struct {sname} should be `pub` and not generic", P_LIBRS, st.line)
            self.gate(st.attrs, bool(mm.structures[sname].get("proposed")), who, st.line, f"structure {sname}")
            self.check_fields(st, mm.flatten(sname), who)
        return n

    def literals(self):
        """Structs paired structurally with non-empty anonymous literals (worklist: literals may nest)."""
        done = set()
        while True:
            todo = [n for n in self.literal_structs if n not in done]
            if not todo:
                break
            for name in todo:
                done.add(name)
                props, path = self.literal_structs[name]
                st = self.structs[name]
                self.accounted.add(name)
                who = f"literal={path}"
                self.gate(st.attrs, False, who, st.line, f"literal struct {name}")
                self.check_fields(st, [Prop(p, "<literal>") for p in props], who)

    # ------------------------------------------------------------------------------ enumerations
    def variant_serde_name(self, v) -> str:
        return v.attrs.rename if v.attrs.rename is not None else v.name

    def string_enum(self, en, values: list, who: str, check_gates: bool = False):
        """values: [(value, proposed)] -- multiset of serde discriminants == multiset of values."""
        ctx = self.ctx
        self.serde_keys(en.attrs, set(), who, en.line)
        self.derives_serde(en, who)
        got = {}
        for v in en.variants:
            self.serde_keys(v.attrs, MODELLED_SERDE_VARIANT, f"{who} variant={v.name}", v.line)
            if v.payload is not None or v.disc is not None:
                ctx.fail("enum-variant-shape", f"{who} variant={v.name}",
                         "variant of a string enumeration is not a unit variant", P_LIBRS, v.line)
                continue
            ctx.ok("enum-variant-shape")
            got.setdefault(self.variant_serde_name(v), []).append(v)
        want = {}
        for val, prop in values:
            want.setdefault(val, []).append(prop)
        for val in want:
            vs = got.get(val, [])
            ctx.check(len(vs) == len(want[val]), "enum-values", f"{who} value={val}",
                      f"value {val!r} is listed {len(want[val])} time(s) in the metamodel but {len(vs)} variant(s) "
                      f"serialise as it" + (" (serde rejects duplicate discriminants at run time: the later one is "
                                            "unreachable on input)" if len(vs) > 1 else ""),
                      P_LIBRS, vs[0].line if vs else en.line, sample={"enum": en.name, "value": val})
            if check_gates:
                for v, prop in zip(vs, want[val]):
                    self.gate(v.attrs, prop, f"{who} value={val}", v.line, f"enumeration value {en.name}.{v.name}")
        for val, vs in got.items():
            if val not in want:
                ctx.fail("enum-values", f"{who} extra={val}", f"variant {vs[0].name} serialises as {val!r}, which is not "
                         f"a value of the metamodel enumeration", P_LIBRS, vs[0].line)

    def int_enum(self, en, e, who: str):
        ctx = self.ctx
        name = en.name
        self.serde_keys(en.attrs, set(), who, en.line)
        d = en.attrs.derives
        ctx.check("Serialize" not in d and "Deserialize" not in d, "derives-serde", who,
                  f"integer enumeration {name} derives serde traits (variant names would be the wire form)",
                  P_LIBRS, en.line)
        # 1. discriminants
        disc = {}
        for v in en.variants:
            self.serde_keys(v.attrs, set(), f"{who} variant={v.name}", v.line)
            if v.payload is not None or v.disc is None:
                ctx.fail("enum-variant-shape", f"{who} variant={v.name}",
                         "variant of an integer enumeration has no `= int` discriminant", P_LIBRS, v.line)
                continue
            ctx.ok("enum-variant-shape")
            disc[v.name] = v
        want = sorted(i["value"] for i in e["values"])
        ctx.check(sorted(v.disc for v in disc.values()) == want, "enum-values", f"{who} table=discriminants",
                  f"discriminants {sorted(v.disc for v in disc.values())} != metamodel values {want}", P_LIBRS, en.line,
                  sample={"enum": name, "values": want})
        by_value = {}
        for v in disc.values():
            by_value.setdefault(v.disc, v)
        for item in e["values"]:
            v = by_value.get(item["value"])
            if v is not None:
                self.gate(v.attrs, bool(item.get("proposed")), f"{who} value={item['value']}", v.line,
                          f"enumeration value {name}.{v.name}")
        # 2. the two impls
        ser = [im for im in self.impls if im.trait == ("Serialize", ()) and im.self_ty == (name, ())]
        de = [im for im in self.impls if im.trait is not None and im.trait[0] == "Deserialize" and im.self_ty == (name, ())]
        if not ctx.check(len(ser) == 1 and len(de) == 1, "enum-int-impls", who,
                         f"integer enumeration {name} needs exactly one `impl Serialize` and one `impl Deserialize` "
                         f"(found {len(ser)} / {len(de)})", P_LIBRS, en.line):
            return
        for im in ser + de:
            self.im_used.add(id(im))
            ctx.fn(f"lib.rs:impl {im.name}")
            need = self.gated(en.attrs)
            ctx.check(self.gated(im.attrs) == need, "gate-companion", impl_id(im),
                      (f"impl {im.name} names the feature-gated enum {name} but is not gated itself: without --features "
                       f"proposed the crate does not compile" if need else
                       f"impl {im.name} is feature-gated but enum {name} is not: without the feature {name} has no serde "
                       f"impl"), P_LIBRS, im.line)
        ser_tab, ser_arms = self.serialize_table(ser[0], name)
        de_tab, de_arms = self.deserialize_table(de[0], name)
        ctx.check(sorted(ser_tab.values()) == want and len(ser_arms) == len(want), "enum-values", f"{who} table=serialize",
                  f"Serialize match table writes {sorted(x[1] for x in ser_arms)}, metamodel values are {want}",
                  P_LIBRS, ser[0].line)
        ctx.check(sorted(x[0] for x in de_arms) == want, "enum-values", f"{who} table=deserialize",
                  f"Deserialize match table accepts {sorted(x[0] for x in de_arms)}, metamodel values are {want}",
                  P_LIBRS, de[0].line)
        # 3. variant <-> value consistent in the three places
        de_by_variant = {}
        for val, var, arm in de_arms:
            de_by_variant.setdefault(var, []).append(val)
        for vname, v in disc.items():
            c = f"{who} variant={vname}"
            ctx.check(ser_tab.get(vname) == v.disc, "enum-int-consistent", c + " table=serialize",
                      f"{name}::{vname} = {v.disc} but Serialize writes {ser_tab.get(vname)}", P_LIBRS, v.line)
            ctx.check(de_by_variant.get(vname) == [v.disc], "enum-int-consistent", c + " table=deserialize",
                      f"{name}::{vname} = {v.disc} but Deserialize maps {de_by_variant.get(vname)} to it", P_LIBRS, v.line,
                      sample={"enum": name, "variant": vname, "value": v.disc})
        for vname, arm in [(x[0], x[2]) for x in ser_arms] + [(x[1], x[2]) for x in de_arms]:
            if vname not in disc:
                ctx.fail("enum-int-consistent", f"{who} variant={vname} table=unknown",
                         f"match arm names {name}::{vname}, which is not a variant", P_LIBRS, arm.line)
        # gate closure on arms: an arm naming a gated variant must itself be gated (or its impl)
        for table, arms in (("serialize", [(x[0], x[2]) for x in ser_arms]), ("deserialize", [(x[1], x[2]) for x in de_arms])):
            im = ser[0] if table == "serialize" else de[0]
            for vname, arm in arms:
                v = disc.get(vname)
                if v is None:
                    continue
                need = self.gated(v.attrs) and not self.gated(im.attrs)
                ctx.check(self.gated(arm.attrs) == need, "gate-companion",
                          f"{impl_id(im)} arm={vname}",
                          (f"match arm names the feature-gated variant {name}::{vname} but is not gated: without "
                           f"--features proposed the crate does not compile" if need else
                           f"match arm for {name}::{vname} is gated but the variant is not"), P_LIBRS, arm.line)

    def _single_match(self, im, fn_name: str, prefix: str, scrutinee: str):
        if len(im.fns) != 1 or im.fns[0].name != fn_name:
            raise AnalysisError(f"{P_LIBRS}:{im.line}: impl {im.name}: expected exactly one fn {fn_name}")
        fn = im.fns[0]
        ms = fn.matches(P_LIBRS)
        if len(ms) != 1:
            raise AnalysisError(f"{P_LIBRS}:{fn.line}: impl {im.name}: expected exactly one match expression")
        m = ms[0]
        before = rp.tok_text(fn.body[:m.start])
        after = rp.tok_text(fn.body[m.end:])
        if before != prefix or after != "" or rp.tok_text(m.scrutinee) != scrutinee:
            raise AnalysisError(f"{P_LIBRS}:{fn.line}: impl {im.name}: body is not `{prefix} match {scrutinee} {{..}}` "
                                f"(found `{before}` .. `{after}`): the serde impl is outside the modelled form")
        return m

    def serialize_table(self, im, name):
        m = self._single_match(im, "serialize", "", "self")
        tab, arms = {}, []
        for arm in m.arms:
            pm = re.fullmatch(r"(\w+) :: (\w+)", arm.pat_text)
            em = re.fullmatch(r"serializer \. serialize_[iu](?:8|16|32|64) \( (- )?(\d\w*) \)", arm.expr_text)
            val = rp.parse_int(em.group(2)) if em else None
            if not pm or pm.group(1) != name or val is None:
                raise AnalysisError(f"{P_LIBRS}:{arm.line}: impl {im.name}: arm `{arm.pat_text} => {arm.expr_text}` "
                                    f"is not `{name}::V => serializer.serialize_i32(N)`")
            val = -val if em.group(1) else val
            # a repeated pattern is legal Rust (the first arm wins); the table-size check reports it
            tab.setdefault(pm.group(2), val)
            arms.append((pm.group(2), val, arm))
        return tab, arms

    def deserialize_table(self, im, name):
        m = self._single_match(im, "deserialize", "let value = i32 :: deserialize ( deserializer ) ? ;", "value")
        tab, arms = {}, []
        if not m.arms or m.arms[-1].pat_text != "_" or not m.arms[-1].expr_text.startswith("Err ("):
            raise AnalysisError(f"{P_LIBRS}:{m.line}: impl {im.name}: the last arm is not `_ => Err(..)`")
        for arm in m.arms[:-1]:
            pm = re.fullmatch(r"(- )?(\d\w*)", arm.pat_text)
            em = re.fullmatch(r"Ok \( (\w+) :: (\w+) \)", arm.expr_text)
            val = rp.parse_int(pm.group(2)) if pm else None
            if not em or em.group(1) != name or val is None:
                raise AnalysisError(f"{P_LIBRS}:{arm.line}: impl {im.name}: arm `{arm.pat_text} => {arm.expr_text}` "
                                    f"is not `N => Ok({name}::V)`")
            val = -val if pm.group(1) else val
            # a repeated pattern is legal Rust (the first arm wins); keep all, the multiset check reports it
            tab.setdefault(val, em.group(2))
            arms.append((val, em.group(2), arm))
        return tab, arms

    def enumerations(self):
        ctx, mm = self.ctx, self.mm
        n = 0
        for ename, e in mm.enums.items():
            who = f"enum={ename}"
            en = self.enums.get(ename)
            if en is None:
                ctx.fail("enum-present", who, f"enumeration {ename} has no `pub enum {ename}` in lib.rs", P_LIBRS)
                continue
            ctx.ok("enum-present")
            ctx.fn(f"lib.rs:enum {ename}")
            self.accounted.add(ename)
            n += 1
            ctx.check(en.vis == "pub" and not en.generics, "enum-shape", who, "enumeration should be a plain `pub enum`",
                      P_LIBRS, en.line)
            self.gate(en.attrs, bool(e.get("proposed")), who, en.line, f"enumeration {ename}")
            base = e["type"]["name"]
            vals = [i["value"] for i in e["values"]]
            if base == "string" and all(isinstance(v, str) for v in vals):
                self.string_enum(en, [(i["value"], bool(i.get("proposed"))) for i in e["values"]], who, check_gates=True)
            elif base in ("integer", "uinteger") and all(isinstance(v, int) and not isinstance(v, bool) for v in vals):
                self.int_enum(en, e, who)
            else:
                raise AnalysisError(f"{P_LSPJSON}: enumeration {ename}: base {base} does not fit its values")
        return n

    # ------------------------------------------------------------------------------ aliases
    def or_alias(self, en, items: list, who: str, ordered: bool = True):
        ctx = self.ctx
        self.serde_keys(en.attrs, {"untagged"}, who, en.line)
        self.derives_serde(en, who)
        ctx.check(en.attrs.untagged, "alias-untagged", who,
                  f"enum {en.name} stands for an `or` type but is not #[serde(untagged)]: the variant name would be on "
                  f"the wire", P_LIBRS, en.line)
        ctx.check(len(en.variants) == len(items), "alias-variants", f"{who} count",
                  f"{len(en.variants)} variant(s) for {len(items)} alternative(s)", P_LIBRS, en.line)
        for v in en.variants:
            self.serde_keys(v.attrs, set(), f"{who} variant={v.name}", v.line)
            self.gate(v.attrs, False, f"{who} variant={v.name}", v.line, f"variant {en.name}::{v.name}")

        def fits(v, t, path):
            if v.disc is not None:
                return False
            if is_null(t):
                return v.payload is None
            return v.payload is not None and len(v.payload) == 1 and self.ty_eq(unbox(v.payload[0]), t, path)

        def vshow(v):
            return v.name + ("" if v.payload is None else "(" + ", ".join(show_ty(p) for p in v.payload) + ")")

        if ordered:
            for j, (v, t) in enumerate(zip(en.variants, items)):
                ctx.check(fits(v, t, f"{en.name}|{j}"), "alias-variants", f"{who} alternative={j}",
                          f"variant {vshow(v)} does not carry alternative {j}: {self.show(t)}", P_LIBRS, v.line,
                          sample={"alias": en.name, "variant": vshow(v), "alternative": self.show(t)})
        else:
            left = list(en.variants)
            for j, t in enumerate(items):
                hit = next((v for v in left if fits(v, t, f"{en.name}|{j}")), None)
                if hit is not None:
                    left.remove(hit)
                ctx.check(hit is not None, "alias-variants", f"{who} alternative={j}",
                          f"no variant carries alternative {j}: {self.show(t)}", P_LIBRS, en.line)

    def aliases(self):
        ctx, mm = self.ctx, self.mm
        n = 0
        for aname, a in mm.aliases.items():
            who = f"alias={aname}"
            t = a["type"]
            proposed = bool(a.get("proposed"))
            if t.get("kind") == "or":
                en = self.enums.get(aname)
                if en is None:
                    ctx.fail("alias-present", who, f"`or` alias {aname} has no `pub enum {aname}` in lib.rs", P_LIBRS)
                    continue
                ctx.ok("alias-present")
                ctx.fn(f"lib.rs:enum {aname}")
                self.accounted.add(aname)
                n += 1
                ctx.check(en.vis == "pub" and not en.generics, "enum-shape", who, "alias enum should be a plain `pub enum`",
                          P_LIBRS, en.line)
                self.gate(en.attrs, proposed, who, en.line, f"alias {aname}")
                self.or_alias(en, t["items"], who, ordered=(aname != "LSPAny"))
                continue
            ta = self.types.get(aname)
            if ta is None:
                ctx.fail("alias-present", who, f"alias {aname} has no `type {aname} = ..;` in lib.rs", P_LIBRS)
                continue
            ctx.ok("alias-present")
            ctx.fn(f"lib.rs:type {aname}")
            self.accounted.add(aname)
            n += 1
            want_vis = "" if aname in PRIVATE_TYPE_ALIASES else "pub"
            ctx.check(ta.vis == want_vis and not ta.generics, "alias-shape", who,
                      f"`type {aname}` should be {'private (closed list)' if not want_vis else 'pub'} and not generic",
                      P_LIBRS, ta.line)
            self.gate(ta.attrs, proposed, who, ta.line, f"alias {aname}")
            if aname == "LSPObject":
                ok, want = ta.ty == ("serde_json::Value", ()), "serde_json::Value (closed-list special case)"
            else:
                want = self.show(t)
                ok = self.ty_eq(unbox(ta.ty), t, aname)
            ctx.check(ok, "alias-type", who, f"type {aname} = {show_ty(ta.ty)}; expected {want}", P_LIBRS, ta.line,
                      sample={"alias": aname, "type": show_ty(ta.ty)})
        return n

    # ------------------------------------------------------------------------------ support items
    def support(self):
        ctx = self.ctx

        def need(name):
            en = self.enums.get(name)
            if en is None:
                ctx.fail("support-shape", f"enum={name}", f"support enum {name} is missing", P_LIBRS)
                return None
            self.accounted.add(name)
            self.gate(en.attrs, False, f"enum={name}", en.line, f"support enum {name}")
            return en

        def shape(en):
            return [(v.name, v.payload, v.disc) for v in en.variants]

        for n in range(2, 8):
            en = need(f"OR{n}")
            if en is None:
                continue
            g = en.generics
            ok = (en.attrs.untagged and len(g) == n and len(set(g)) == n and len(en.variants) == n
                  and all(v.payload == ((p, ()),) and v.disc is None and not v.attrs.serde
                          for v, p in zip(en.variants, g)))
            self.derives_serde(en, f"enum=OR{n}")
            ctx.check(ok, "support-shape", f"enum=OR{n}",
                      f"OR{n} should be an untagged enum with {n} tuple variants carrying its {n} type parameters in order",
                      P_LIBRS, en.line, sample={"enum": en.name, "generics": g})
        for name, custom in (("CustomStringEnum", "String"), ("CustomIntEnum", "i32")):
            en = need(name)
            if en is None:
                continue
            self.derives_serde(en, f"enum={name}")
            g = en.generics
            ok = (en.attrs.untagged and len(g) == 1 and len(en.variants) == 2
                  and en.variants[0].payload == ((g[0], ()),) and en.variants[1].payload == ((custom, ()),)
                  and all(v.disc is None and not v.attrs.serde for v in en.variants))
            ctx.check(ok, "support-shape", f"enum={name}",
                      f"{name}<T> should be an untagged enum [known(T), custom({custom})], found {shape(en)}", P_LIBRS, en.line)
        en = need("LSPNull")
        if en is not None:
            self.derives_serde(en, "enum=LSPNull")
            ok = (en.attrs.untagged and not en.generics and len(en.variants) == 1 and en.variants[0].payload is None
                  and en.variants[0].disc is None and not en.variants[0].attrs.serde)
            ctx.check(ok, "support-shape", "enum=LSPNull", "LSPNull should be an untagged enum with one unit variant (null)",
                      P_LIBRS, en.line)
        for name, items in (("LSPId", [BASE("integer"), BASE("string")]),
                            ("LSPIdOptional", [BASE("integer"), BASE("string"), BASE("null")])):
            en = need(name)
            if en is not None:
                ctx.check(en.vis == "pub" and not en.generics, "enum-shape", f"alias={name}", "should be a plain `pub enum`",
                          P_LIBRS, en.line)
                self.or_alias(en, items, f"alias={name}")
        en = need("MessageDirection")
        if en is not None:
            dirs = sorted({m["messageDirection"] for m, _ in self.mm.all_methods()})
            self.string_enum(en, [(d, False) for d in dirs], "enum=MessageDirection")

    # ------------------------------------------------------------------------------ messages
    def params_rule(self, msg):
        """-> (type, optional)"""
        p = msg.get("params")
        if p is None:
            return REF("LSPNull"), True
        if isinstance(p, list) or p.get("kind") != "reference":
            raise AnalysisError(f"{P_LSPJSON}: params of {msg['method']} is not a single reference: outside the "
                                f"modelled discipline")
        n = p["name"]
        if n in self.mm.structures and self.mm.flatten(n):
            return p, False
        if n not in self.mm.structures and n not in self.mm.aliases and n not in self.mm.enums:
            raise AnalysisError(f"{P_LSPJSON}: params of {msg['method']} references unknown type {n}")
        return REF("LSPAny"), True

    def raw_field(self, st, who, pname, t, optional):
        """One envelope field: present, Option, type; ungated."""
        f = next((f for f in st.fields if self.field_serde_name(st, f) == pname), None)
        if f is None:
            self.ctx.fail("message-field", f"{who} missing={pname}", f"{st.name} has no field serialising as {pname!r}",
                          P_LIBRS, st.line)
            return
        self.ctx.ok("message-field")
        self.fields_compared += 1
        self.check_field(st, f, pname, t, optional, who)
        self.gate(f.attrs, False, f"{who} field={pname}", f.line, f"envelope field {st.name}.{pname}")

    def envelope(self, sname, who, fields: list, exact: bool, proposed: bool, gate_rule: str = "gate", what_of: str = ""):
        ctx = self.ctx
        st = self.structs.get(sname)
        if st is None:
            ctx.fail("message-struct", who, f"no `pub struct {sname}` in lib.rs", P_LIBRS)
            return
        ctx.ok("message-struct", sample={"struct": sname})
        ctx.fn(f"lib.rs:struct {sname}")
        if sname in self.accounted:
            ctx.fail("message-struct", f"{who} clash", f"{sname} is also the image of another metamodel definition", P_LIBRS,
                     st.line)
        self.accounted.add(sname)
        ctx.check(st.vis == "pub" and not st.generics, "struct-shape", who, f"struct {sname} should be `pub`, not generic",
                  P_LIBRS, st.line)
        self.serde_keys(st.attrs, MODELLED_SERDE_CONTAINER - {"untagged"}, who, st.line)
        ctx.check(st.attrs.rename_all in (None, "camelCase"), "rename-all", who,
                  f"rename_all = {st.attrs.rename_all!r}", P_LIBRS, st.line)
        self.derives_serde(st, who)
        for f in st.fields:
            self.serde_keys(f.attrs, MODELLED_SERDE_FIELD, f"{who} field={f.name}", f.line)
        self.gate(st.attrs, proposed, who, st.line,
                  f"response struct {sname} (its request {what_of})" if gate_rule != "gate" else f"message struct {sname}",
                  rule=gate_rule)
        for pname, t, opt in fields:
            self.raw_field(st, who, pname, t, opt)
        if exact:
            want = {p for p, _, _ in fields}
            names = [self.field_serde_name(st, f) for f in st.fields]
            for f, sn in zip(st.fields, names):
                ctx.check(sn in want and names.count(sn) == 1, "message-field", f"{who} extra={sn}",
                          f"{sname}.{f.name} serialises as {sn!r}: not a member of the JSON-RPC envelope (or listed twice)",
                          P_LIBRS, f.line)

    def method_enum(self, ename, methods: list):
        ctx = self.ctx
        who = f"enum={ename}"
        en = self.enums.get(ename)
        if en is None:
            ctx.fail("method-variant", who, f"method enum {ename} is missing", P_LIBRS)
            return
        ctx.fn(f"lib.rs:enum {ename}")
        ctx.check(en.vis == "pub" and not en.generics, "enum-shape", who, "method enum should be a plain `pub enum`",
                  P_LIBRS, en.line)
        self.serde_keys(en.attrs, set(), who, en.line)
        self.derives_serde(en, who)
        got = {}
        for v in en.variants:
            self.serde_keys(v.attrs, MODELLED_SERDE_VARIANT, f"{who} variant={v.name}", v.line)
            if v.payload is not None or v.disc is not None:
                ctx.fail("enum-variant-shape", f"{who} variant={v.name}", "method variant is not a unit variant", P_LIBRS, v.line)
                continue
            ctx.ok("enum-variant-shape")
            got.setdefault(self.variant_serde_name(v), []).append(v)
        for m in methods:
            vs = got.get(m, [])
            ctx.check(len(vs) == 1, "method-variant", f"{who} method={m}",
                      f"{len(vs)} variant(s) of {ename} are renamed to the method string {m!r} (expected exactly one)",
                      P_LIBRS, vs[0].line if vs else en.line, sample={"enum": ename, "method": m})
        mset = set(methods)
        for sn, vs in got.items():
            if sn not in mset:
                ctx.fail("method-no-extra", f"{who} extra={sn}", f"variant {vs[0].name} serialises as {sn!r}, which is not a "
                         f"{'request' if 'Request' in ename else 'notification'} method of the metamodel", P_LIBRS, vs[0].line)
            else:
                ctx.ok("method-no-extra")

    def messages(self):
        mm = self.mm
        req_methods, not_methods = [], []
        for msg in mm.requests:
            m = msg["method"]
            req_methods.append(m)
            proposed = bool(msg.get("proposed"))
            pt, popt = self.params_rule(msg)
            rname = message_struct_name(msg, "request")
            self.envelope(rname, f"struct={rname}",
                          [("jsonrpc", BASE("string"), False), ("method", REF("LSPRequestMethods"), False),
                           ("id", REF("LSPId"), False), ("params", pt, popt)], True, proposed)
            sname = response_struct_name(msg)
            fields = [("id", REF("LSPIdOptional"), False)]
            res = msg.get("result")
            if res is not None:
                fields.append(("result", REF("LSPNull") if is_null(res) else res, False))
            self.envelope(sname, f"struct={sname}", fields, False, proposed, gate_rule="gate-response", what_of=m)
        for msg in mm.notifications:
            not_methods.append(msg["method"])
            pt, popt = self.params_rule(msg)
            nname = message_struct_name(msg, "notification")
            self.envelope(nname, f"struct={nname}",
                          [("jsonrpc", BASE("string"), False), ("method", REF("LSPNotificationMethods"), False),
                           ("params", pt, popt)], True, bool(msg.get("proposed")))
        for ms, what in ((req_methods, "request"), (not_methods, "notification")):
            if len(set(ms)) != len(ms):
                raise AnalysisError(f"{P_LSPJSON}: duplicate {what} method")
        self.method_enum("LSPRequestMethods", req_methods)
        self.method_enum("LSPNotificationMethods", not_methods)
        return len(req_methods) + len(not_methods)

    # ------------------------------------------------------------------------------ nothing extra, closure
    def nothing_extra(self):
        ctx = self.ctx
        for name, it in list(self.structs.items()) + list(self.enums.items()) + list(self.types.items()):
            ctx.check(name in self.accounted, "no-extra-item", f"{it.kind}={name}",
                      f"{it.kind} {name} of lib.rs is the image of no metamodel definition (and not a support item)",
                      P_LIBRS, it.line)
        for im in self.impls:
            ctx.check(id(im) in self.im_used, "no-extra-item", impl_id(im),
                      f"impl {im.name} does not belong to an integer enumeration of the metamodel", P_LIBRS, im.line)

    def gated_type_count(self):
        """Number of feature-gated type items (vacuity floor for the gate rules).

        A general closure rule ("an ungated item never names a gated type") was built first and then REMOVED:
        it demands more than C07 states.  The metamodel itself has non-proposed properties that name proposed
        types (TextDocumentEdit.edits -> SnippetTextEdit, TextDocumentItem.languageId -> LanguageKind); gating
        those fields would violate "proposed items, and only those, are feature-gated".  What remains are the
        rules whose subject is a proposed item itself: gate (definitions, properties, values, aliases, message
        structs), gate-response (the response struct of a proposed request) and gate-companion (the serde impls
        of a proposed integer enumeration and the match arms of a proposed value)."""
        return len({n for n, it in list(self.structs.items()) + list(self.enums.items()) + list(self.types.items())
                    if self.gated(it.attrs)})


def run(ctx: Ctx):
    c = Checker(ctx)
    mm = c.mm
    ctx.floor("tokens of lib.rs", c.rf.n_tokens, 30000)
    ctx.floor("structs parsed", len(c.structs), 500)
    ctx.floor("enums parsed", len(c.enums), 60)
    ctx.floor("impl blocks parsed", len(c.impls), 40)
    # names the envelope rules use that are not metamodel names
    for n in ENVELOPE_REFS:
        if n in mm.structures or n in mm.enums or n in mm.aliases:
            raise AnalysisError(f"{P_LSPJSON}: {n} is a metamodel name: the envelope rules would be ambiguous")
    n_struct = c.structures()
    n_enum = c.enumerations()
    n_alias = c.aliases()
    c.support()
    n_methods = c.messages()
    c.accounted.update(("LSPRequestMethods", "LSPNotificationMethods"))
    for n in ("LSPRequestMethods", "LSPNotificationMethods"):
        if n in c.enums:
            c.gate(c.enums[n].attrs, False, f"enum={n}", c.enums[n].line, f"method enum {n}")
    c.literals()
    c.nothing_extra()
    n_gated = c.gated_type_count()

    ctx.floor("structures compared", n_struct, 380)
    ctx.floor("fields compared", c.fields_compared, 1000)
    ctx.floor("enumerations compared", n_enum, 40)
    ctx.floor("aliases compared", n_alias, 20)
    ctx.floor("methods compared", n_methods, 90)
    ctx.floor("gate obligations", ctx.rule_counts.get("gate", 0), 1500)
    ctx.floor("feature-gated type items", n_gated, 20)
    ctx.extra["programs"] = n_struct + n_enum + n_alias + len(mm.requests) * 2 + len(mm.notifications)
    ctx.extra["disagreements_checked"] = ctx.obligations
    ctx.extra["items_parsed"] = {"struct": len(c.structs), "enum": len(c.enums), "type": len(c.types),
                                 "impl": len(c.impls), "tokens": c.rf.n_tokens}


def _generator_clauses(ctx: Ctx):
    """Two clauses about the rust plugin source that the committed lib.rs cannot show (they only matter for
    metamodels that re-declare an inherited property differently / carry both `deprecated` and `proposed`):
    the plugin's flattening gives the nearest declaration, and generate_extras emits the feature gate for every
    proposed item whatever its other marks.  Both helpers are constant-folded (E5) on synthetic inputs."""
    from .. import flatten
    from ..genlint import Index
    idx = Index(ctx.src, dirs=("generator/plugins/rust",))
    spec, structs = flatten.lattice()
    for sname in ("A", "B", "C"):
        exp = flatten.expected(structs, sname)
        got = flatten.fold_rust(idx, spec, structs, sname)
        for k in sorted(set(exp) | set(got)):
            ctx.check(exp.get(k) == got.get(k), "generator-flatten-nearest-wins", f"struct={sname} prop={k}",
                      f"rust_commons.get_extended_properties gives {sname}.{k} the declaration of {got.get(k)!r}, the "
                      f"nearest one is {exp.get(k)!r}: the field would get the base structure's type / optionality",
                      flatten.P_RC, None)
    from ..genlint import cross_run_state
    nstate, hits = cross_run_state(idx, "generator/plugins/rust/")
    for rel, construct, msg, ln in hits:
        ctx.fail("generator-no-cross-run-state", construct, msg, rel, ln)
    ctx.ok("generator-no-cross-run-state", {"containers_examined": nstate})
    names = flatten.fold_rust_inherited_literal(idx)
    ok = len(set(names)) == 1 and isinstance(names[0], str) and names[0] and not names[0].startswith("<")
    ctx.check(ok, "generator-literal-name-stable", "inherited-literal",
              f"an anonymous literal on a base-structure property gets the struct names {names} through two inheriting "
              "structures and the base: the field type must be the same non-empty struct name each time", flatten.P_RC, None)
    for (shape, optional, null_adm), field in sorted(flatten.fold_rust_option(idx).items(), key=repr):
        if field.startswith("raises "):
            raise AnalysisError(f"{flatten.P_RC}: generate_property {field} when folded for a {shape} property")
        want = bool(optional) or null_adm
        got = ": Option<" in field
        ctx.check(field.startswith("pub ") and got == want, "generator-option-iff-optional-or-null",
                  f"type={shape} optional={optional}",
                  f"a property of type {shape} with optional={'absent' if optional is None else str(optional).lower()} is emitted as "
                  f"`{field}`: the field must be Option-wrapped exactly when the property is optional or its type admits null",
                  flatten.P_RC, None, sample={"type": shape, "optional": optional, "field": field})
    ex = flatten.fold_rust_extras(idx)
    gate = '#[cfg(feature = "proposed")]'
    for (dep, prop), lines in sorted(ex.items()):
        ctx.check((gate in lines) == prop, "generator-gate-iff-proposed", f"deprecated={dep} proposed={prop}",
                  f"generate_extras(deprecated={dep}, proposed={prop}) folds to {lines}: the feature gate must be present "
                  "exactly when the item is proposed", flatten.P_RC, None,
                  sample={"deprecated": dep, "proposed": prop, "attributes": lines})
        ctx.check(("#[deprecated]" in lines) == dep, "generator-gate-iff-proposed", f"deprecated={dep} proposed={prop}:deprecated",
                  f"generate_extras(deprecated={dep}, proposed={prop}) folds to {lines}", flatten.P_RC, None)


def _fold_rust_enum(ctx: Ctx):
    """rust_enum.generate_enum evaluated (E5) on synthetic enumerations with corner values (empty string, non-ASCII, dots,
    zero, negatives) and documentation that contains lone line terminators: the serde discriminants are the values
    verbatim, and every emitted line is one physical line (else the rest of a doc line becomes code)."""
    import re as _re
    from ..genlint import Index
    from ..microeval import Interp, Record, Raised
    rel = "generator/plugins/rust/rust_enum.py"
    idx = Index(ctx.src, dirs=("generator/plugins/rust",))
    m = idx.get(rel)
    it = Interp(m.tree, name=rel)
    for sib in ("generator/plugins/rust/rust_commons.py", "generator/plugins/rust/rust_lang_utils.py"):
        if sib in idx.modules:
            sit = Interp(idx.modules[sib].tree, name=sib)
            for k_, v_ in sit.globals.items():
                it.globals.setdefault(k_, v_)
    ge = it.globals.get("generate_enum")
    if ge is None:
        raise AnalysisError(f"{rel}: generate_enum not found")
    ctx.fn("rust_enum.py:generate_enum")
    doc = "first line\rSecond = 2,\u2028third {@link Foo}"

    def enum(name, items):
        return Record("Enum", {"name": name, "documentation": doc, "since": None, "sinceTags": None, "proposed": None,
                               "deprecated": None, "supportsCustomValues": None, "id_": "id-enum",
                               "type": Record("Type", {"kind": "base", "name": "string"}),
                               "values": [Record("EnumItem", {"name": n_, "value": v_, "documentation": doc, "since": None,
                                                              "sinceTags": None, "proposed": None, "deprecated": None})
                                          for n_, v_ in items]})
    cases = {"string": [("Empty", ""), ("Degree", "\u00b0C"), ("Micro", "\u00b5m"), ("Dotted", "source.fixAll"), ("Plain", "plain")],
             "integer": [("One", 1), ("Zero", 0), ("Negative", -1), ("Big", 2147483647)]}
    n = 0
    for label, items in cases.items():
        captured = []
        types = Record("TypeData", {"add_type_info": ("host", lambda t_, name_, lines_: captured.append(list(lines_))),
                                    "get_by_name": ("host", lambda *a, **k: None)})
        try:
            r = ge(enum("SomeKind", items), types)
        except Raised as e:
            raise AnalysisError(f"{rel}: generate_enum raises {e.exc_name} when folded on a {label} enumeration")
        lines = [x for ls in captured for x in ls if isinstance(x, str)]
        if isinstance(r, list):
            lines += [x for x in r if isinstance(x, str)]
        text = "\n".join(lines)
        n += 1
        if label == "string":
            got = _re.findall(r'#\[serde\(rename = "([^"]*)"\)\]', text)
            want = [v for _n, v in items]
            ctx.check(sorted(got) == sorted(want), "generator-enum-values-verbatim", f"generate_enum:{label}",
                      f"a string enumeration with the values {want} is emitted with the serde renames {got}", rel, None,
                      sample={"values": got})
        else:
            got = [int(x) for x in _re.findall(r"^\s*\w+ = (-?\d+),", text, _re.M)]
            want = [v for _n, v in items]
            ctx.check(sorted(got) == sorted(want), "generator-enum-values-verbatim", f"generate_enum:{label}",
                      f"an integer enumeration with the values {want} is emitted with the discriminants {got}", rel, None)
        multi = [x for x in lines if len(x.splitlines()) > 1]
        ctx.check(not multi, "generator-emits-single-lines", f"generate_enum:{label}",
                  f"an emitted line contains a line terminator (documentation is not split on every line boundary): {multi[:1]!r}: "
                  "what follows it is compiled as code", rel, None)
    ctx.floor("rust enumeration kinds folded", n, 2)


_run_c07 = run


def run(ctx: Ctx):  # noqa: F811
    _run_c07(ctx)
    _generator_clauses(ctx)
    _fold_rust_enum(ctx)
