"""E1 <-> E2 pairing: which class is the image of which structure, which attribute of which property,
and what the documented mapping expects of each attribute.  Used by C02, C04, C09, C10, C11, C12, C13.
"""
from __future__ import annotations

from .common import AnalysisError, Sources
from .pymodel import TypesModule, MISSING, NONE, mk_union, show, PyClass, PyField
from .hooks import HooksModule
from .metamodel import MetaModel, Prop, camel_to_snake, method_to_const_name
from .sites import fold_camel

FIXED_EXTRA = {"ResponseError", "ResponseErrorMessage", "MessageDirection",
               "REQUESTS", "RESPONSES", "NOTIFICATIONS", "MESSAGE_TYPES"}


class Pair:
    """One (class, attribute) <-> (structure, property) pairing with the expected image."""
    __slots__ = ("cls", "field", "prop", "wire", "exp_ty", "exp_validator", "exp_default", "kind")

    def __init__(self, cls, field, prop, wire, exp_ty, exp_validator, exp_default, kind):
        self.cls = cls
        self.field = field
        self.prop = prop
        self.wire = wire
        self.exp_ty = exp_ty
        self.exp_validator = exp_validator
        self.exp_default = exp_default
        self.kind = kind     # 'structure' | 'and' | 'envelope'


class Image:
    def __init__(self, src: Sources):
        self.src = src
        self.types = TypesModule(src)
        self.hooks = HooksModule(src, self.types)
        self.mm = MetaModel(src)
        self.camel = fold_camel(self.hooks)
        self.pairs: list[Pair] = []
        self.missing_props: list[tuple[str, str]] = []     # (class, wire) property without attribute
        self.extra_attrs: list[tuple[str, str]] = []       # (class, attr) attribute without property
        self.dup_wire: list[tuple[str, str, list]] = []
        self.missing_defs: list[tuple[str, str]] = []      # (kind, name)
        self.wrong_kind: list[tuple[str, str, str]] = []
        self.class_kind: dict[str, str] = {}
        self._build()

    # ------------------------------------------------------------------
    def expected_field(self, p: Prop):
        ty = self.mm.py_type(p.type)
        if p.py_optional:
            ty = mk_union([ty, NONE])
        val = self.mm.py_validator(p)
        if p.literal:
            default = p.type["value"]
        elif p.py_optional:
            default = None
        else:
            default = MISSING
        return ty, val, default

    def _pair_class(self, cname: str, props: list[Prop], kind: str):
        c = self.types.classes.get(cname)
        if c is None or c.kind != "attrs":
            self.missing_defs.append((kind, cname))
            return
        self.class_kind[cname] = kind
        by_wire: dict[str, list[PyField]] = {}
        for f in c.fields:
            by_wire.setdefault(self.camel(f.name), []).append(f)
        for w, fs in by_wire.items():
            if len(fs) > 1:
                self.dup_wire.append((cname, w, [f.name for f in fs]))
        seen = set()
        for p in props:
            fs = by_wire.get(p.name)
            if not fs:
                self.missing_props.append((cname, p.name))
                continue
            seen.add(p.name)
            ty, val, default = self.expected_field(p)
            self.pairs.append(Pair(c, fs[0], p, p.name, ty, val, default, kind))
        for w, fs in by_wire.items():
            if w not in seen:
                for f in fs:
                    self.extra_attrs.append((cname, f.name))

    def _build(self):
        mm, t = self.mm, self.types
        for sname in mm.structures:
            if sname == "LSPObject":
                continue
            self._pair_class(sname, mm.flatten(sname), "structure")
        for cname, items in mm.and_types():
            self._pair_class(cname, mm.and_props(items), "and")
        for ename in mm.enums:
            c = t.classes.get(ename)
            if c is None:
                self.missing_defs.append(("enumeration", ename))
            elif c.kind != "enum":
                self.wrong_kind.append((ename, "enum", c.kind))
        for aname in mm.aliases:
            if aname == "LSPObject":
                if aname not in t.env:
                    self.missing_defs.append(("typeAlias", aname))
                continue
            if aname not in t.aliases:
                if aname in t.classes:
                    self.wrong_kind.append((aname, "alias", t.classes[aname].kind))
                else:
                    self.missing_defs.append(("typeAlias", aname))

    # ------------------------------------------------------------------ expected names
    def envelope_names(self):
        """name -> ('request'|'response'|'notification', message dict)"""
        out = {}
        for r in self.mm.requests:
            rc = self.mm.message_class(r, "request")
            out[rc] = ("request", r)
            out[self.mm.request_stem(r) + "Response"] = ("response", r)
        for n in self.mm.notifications:
            out[self.mm.message_class(n, "notification")] = ("notification", n)
        return out

    def result_aliases(self):
        """XResult alias name -> request, for results that are neither a reference nor null."""
        out = {}
        for r in self.mm.requests:
            res = r.get("result")
            if res and not (res.get("kind") == "reference" or (res.get("kind") == "base" and res.get("name") == "null")):
                name = self.mm.request_stem(r) + "Result"
                if name in self.mm.aliases or name in self.mm.structures or name in self.mm.enums:
                    continue   # the metamodel's own definition of that name wins (first definition is kept)
                out[name] = r
        return out

    def allowed_names(self) -> set:
        names = set(self.mm.structures) | set(self.mm.enums) | set(self.mm.aliases)
        names |= set(self.envelope_names()) | set(self.result_aliases())
        names |= {n for n, _ in self.mm.and_types()}
        names |= FIXED_EXTRA
        return names
