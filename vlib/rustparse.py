"""E7 -- tokeniser + item parser for the committed Rust source (packages/rust/lsprotocol/src/lib.rs).

Pure text analysis (stdlib only, nothing from /repo is imported, no cargo / rustc).  The parser
understands exactly the item kinds the generated crate consists of

    use PATH;                                   -> Use
    [pub] struct N [<G>] { [attrs] [pub] f: T, }-> Struct (named-field structs only)
    [pub] enum N [<G>] { [attrs] V | V(T,..) | V = int, }  -> Enum
    [pub] type A [<G>] = T;                     -> TypeAlias
    impl [<G>] [Trait for] T [where ..] { fn .. { .. } }   -> Impl (fn bodies kept as tokens; `match`
                                                   expressions are extracted as (attrs, pattern, expr) arms)

and **fails closed**: any token sequence that is not one of these raises AnalysisError with the line.

Types are parsed into trees `(name, (arg, ...))`: `Option<Vec<OR2<A, B>>>` is
("Option", (("Vec", (("OR2", (("A", ()), ("B", ()))),)),)); a path keeps its `::` ("serde_json::Value");
a tuple type is ("()", (A, B)); a lifetime argument is ("'de", ()).

Attributes are parsed as meta items and summarised per item / field / variant / match arm in `Attrs`:
serde keys (rename, rename_all, untagged, deny_unknown_fields, skip_serializing_if, ... every key is
kept so that a check can refuse the ones it does not model), cfg predicates in a canonical spelling
(`feature="proposed"`), `deprecated`, the `derive` list.  Line numbers are recorded for messages only.
"""
from __future__ import annotations

import re

from .common import AnalysisError

# ------------------------------------------------------------------------------------------------
# tokens: (kind, value, line); kinds: id, num, str, chr, life, p (punctuation)

_WS = re.compile(r"[ \t\r\n]+")
_IDENT = re.compile(r"[A-Za-z_][A-Za-z0-9_]*")
_NUM = re.compile(r"0[xX][0-9a-fA-F_]+[A-Za-z0-9_]*|0[oO][0-7_]+[A-Za-z0-9_]*|0[bB][01_]+[A-Za-z0-9_]*"
                  r"|[0-9][0-9_]*(?:\.[0-9][0-9_]*)?(?:[eE][+-]?[0-9_]+)?[A-Za-z0-9_]*")
_PUNCT3 = ("..=", "...")
_PUNCT2 = ("::", "->", "=>", "..")
_PUNCT1 = set("#[](){}<>,;:=&*+-/%!?.|^@~$")
_ESC = {"n": "\n", "r": "\r", "t": "\t", "\\": "\\", "0": "\0", '"': '"', "'": "'"}


class RustSyntaxError(AnalysisError):
    pass


def _err(rel, line, msg):
    return RustSyntaxError(f"{rel}:{line}: rustparse: {msg}")


def _unescape(body: str, rel: str, line: int) -> str:
    if "\\" not in body:
        return body
    out = []
    i, n = 0, len(body)
    while i < n:
        ch = body[i]
        if ch != "\\":
            out.append(ch)
            i += 1
            continue
        if i + 1 >= n:
            raise _err(rel, line, "dangling backslash in literal")
        e = body[i + 1]
        if e in _ESC:
            out.append(_ESC[e])
            i += 2
        elif e == "x":
            try:
                out.append(chr(int(body[i + 2:i + 4], 16)))
            except ValueError:
                raise _err(rel, line, "bad \\x escape")
            i += 4
        elif e == "u":
            m = re.match(r"\{([0-9a-fA-F_]{1,8})\}", body[i + 2:])
            if not m:
                raise _err(rel, line, "bad \\u escape")
            out.append(chr(int(m.group(1).replace("_", ""), 16)))
            i += 2 + m.end()
        elif e == "\n":  # line continuation: skip the newline and leading white space
            i += 2
            while i < n and body[i] in " \t\r\n":
                i += 1
        else:
            raise _err(rel, line, f"unknown escape \\{e}")
    return "".join(out)


def tokenize(text: str, rel: str = "<rust>") -> list:
    toks = []
    i, n, line = 0, len(text), 1
    app = toks.append
    while i < n:
        ch = text[i]
        if ch in " \t\r\n":
            m = _WS.match(text, i)
            line += text.count("\n", i, m.end())
            i = m.end()
            continue
        if ch == "/" and i + 1 < n:
            c2 = text[i + 1]
            if c2 == "/":  # line comment / doc comment: equivalent to #[doc], carries no schema
                j = text.find("\n", i)
                i = n if j < 0 else j
                continue
            if c2 == "*":  # block comments nest in Rust
                depth, j = 1, i + 2
                while depth:
                    a = text.find("/*", j)
                    b = text.find("*/", j)
                    if b < 0:
                        raise _err(rel, line, "unterminated block comment")
                    if 0 <= a < b:
                        depth += 1
                        j = a + 2
                    else:
                        depth -= 1
                        j = b + 2
                line += text.count("\n", i, j)
                i = j
                continue
        if ch.isalpha() or ch == "_":
            # string-ish prefixes first: r"..", r#".."#, b"..", br"..", b'.', r#ident
            if ch in "rb":
                m = re.match(r"(?:br|r)(#*)\"", text[i:i + 40])
                if m:
                    hashes = m.group(1)
                    start = i + m.end()
                    close = '"' + hashes
                    j = text.find(close, start)
                    if j < 0:
                        raise _err(rel, line, "unterminated raw string")
                    app(("str", text[start:j], line))
                    line += text.count("\n", i, j)
                    i = j + len(close)
                    continue
                if text.startswith('b"', i):   # byte string: lexed like a string
                    i += 1
                    ch = '"'
                elif text.startswith("b'", i):  # byte char: lexed like a char
                    i += 1
                    ch = "'"
                elif text.startswith("r#", i) and _IDENT.match(text, i + 2):
                    m = _IDENT.match(text, i + 2)
                    app(("id", m.group(0), line))
                    i = m.end()
                    continue
            if ch not in "\"'":
                m = _IDENT.match(text, i)
                app(("id", m.group(0), line))
                i = m.end()
                continue
        if ch == '"':
            j = i + 1
            while True:
                if j >= n:
                    raise _err(rel, line, "unterminated string literal")
                c = text[j]
                if c == "\\":
                    j += 2
                    continue
                if c == '"':
                    break
                j += 1
            app(("str", _unescape(text[i + 1:j], rel, line), line))
            line += text.count("\n", i, j)
            i = j + 1
            continue
        if ch == "'":
            # char literal vs lifetime
            if i + 1 >= n:
                raise _err(rel, line, "dangling quote")
            c1 = text[i + 1]
            if c1 == "\\":
                j = i + 2
                while j < n and text[j] != "'":
                    j += 2 if text[j] == "\\" else 1
                if j >= n:
                    raise _err(rel, line, "unterminated char literal")
                # the first escaped char may itself be a quote: '\''
                if text[i + 2] == "'" and text[i + 3:i + 4] == "'":
                    j = i + 3
                app(("chr", _unescape(text[i + 1:j], rel, line), line))
                i = j + 1
                continue
            if i + 2 < n and text[i + 2] == "'" and c1 != "'":
                app(("chr", c1, line))
                i += 3
                continue
            m = _IDENT.match(text, i + 1)
            if m:
                app(("life", "'" + m.group(0), line))
                i = m.end()
                continue
            raise _err(rel, line, "quote that starts neither a char literal nor a lifetime")
        if ch.isdigit():
            m = _NUM.match(text, i)
            s = m.group(0)
            # `1..2` / `1.foo()`: the regex only takes a fraction when a digit follows the dot
            app(("num", s, line))
            i = m.end()
            continue
        if text.startswith(_PUNCT3, i):
            app(("p", text[i:i + 3], line))
            i += 3
            continue
        if text.startswith(_PUNCT2, i):
            app(("p", text[i:i + 2], line))
            i += 2
            continue
        if ch in _PUNCT1:
            app(("p", ch, line))
            i += 1
            continue
        raise _err(rel, line, f"character {ch!r} is not part of any token")
    return toks


def parse_int(s: str):
    """Value of an integer literal token (suffix and underscores dropped); None for non-integers."""
    m = re.match(r"^(0[xX][0-9a-fA-F_]+|0[oO][0-7_]+|0[bB][01_]+|[0-9][0-9_]*)((?:[iu](?:8|16|32|64|128|size))?)$", s)
    if not m:
        return None
    body = m.group(1).replace("_", "")
    try:
        return int(body, 0) if body[:2].lower() in ("0x", "0o", "0b") else int(body, 10)
    except ValueError:
        return None


# ------------------------------------------------------------------------------------------------
# output model

def show_ty(t) -> str:
    if t is None:
        return "<none>"
    name, args = t
    if name == "()":
        return "(" + ", ".join(show_ty(a) for a in args) + ")"
    if not args:
        return name
    return name + "<" + ", ".join(show_ty(a) for a in args) + ">"


def ty_names(t, out=None) -> set:
    """All path names occurring in a type tree (lifetimes and the tuple marker excluded)."""
    if out is None:
        out = set()
    if t is None:
        return out
    name, args = t
    if name != "()" and not name.startswith("'"):
        out.add(name)
    for a in args:
        ty_names(a, out)
    return out


class Meta:
    """One attribute meta item: path, optional `= literal` value, optional `( nested, ... )`."""
    __slots__ = ("name", "value", "args", "line")

    def __init__(self, name, value=None, args=None, line=0):
        self.name = name
        self.value = value
        self.args = args
        self.line = line

    def canon(self) -> str:
        s = self.name
        if self.args is not None:
            s += "(" + ",".join(a.canon() if isinstance(a, Meta) else _lit(a) for a in self.args) + ")"
        if self.value is not None:
            s += "=" + _lit(self.value)
        return s


def _lit(v):
    if isinstance(v, str):
        return '"' + v.replace("\\", "\\\\").replace('"', '\\"') + '"'
    return str(v)


KNOWN_ATTRS = ("serde", "cfg", "deprecated", "derive", "doc", "allow", "warn", "deny", "must_use",
               "non_exhaustive", "inline")


class Attrs:
    """Summary of the outer attributes of an item / field / variant / match arm."""
    __slots__ = ("serde", "cfg", "deprecated", "derives", "others", "raw")

    def __init__(self):
        self.serde: dict = {}       # key -> string value | True (bare word) | ("nested", canon)
        self.cfg: list = []         # canonical predicates, e.g. 'feature="proposed"'
        self.deprecated = False
        self.derives: list = []
        self.others: list = []
        self.raw: list = []

    @property
    def rename(self):
        v = self.serde.get("rename")
        return v if isinstance(v, str) else None

    @property
    def rename_all(self):
        v = self.serde.get("rename_all")
        return v if isinstance(v, str) else None

    @property
    def untagged(self) -> bool:
        return self.serde.get("untagged") is True

    def gated_by(self, feature: str) -> bool:
        return self.cfg == [f'feature="{feature}"']


class Field:
    __slots__ = ("name", "attrs", "ty", "line", "vis")

    def __init__(self, name, attrs, ty, line, vis):
        self.name, self.attrs, self.ty, self.line, self.vis = name, attrs, ty, line, vis


class Variant:
    __slots__ = ("name", "attrs", "payload", "disc", "line")

    def __init__(self, name, attrs, payload, disc, line):
        self.name = name
        self.attrs = attrs
        self.payload = payload   # None (unit) or tuple of type trees
        self.disc = disc         # None or int
        self.line = line


class Item:
    kind = "item"
    __slots__ = ("name", "attrs", "line", "vis")


class Use(Item):
    kind = "use"
    __slots__ = ("path",)

    def __init__(self, path, attrs, line, vis):
        self.name = path
        self.path, self.attrs, self.line, self.vis = path, attrs, line, vis


class Struct(Item):
    kind = "struct"
    __slots__ = ("generics", "fields")

    def __init__(self, name, generics, attrs, fields, line, vis):
        self.name, self.generics, self.attrs, self.fields, self.line, self.vis = name, generics, attrs, fields, line, vis


class Enum(Item):
    kind = "enum"
    __slots__ = ("generics", "variants")

    def __init__(self, name, generics, attrs, variants, line, vis):
        self.name, self.generics, self.attrs, self.variants, self.line, self.vis = name, generics, attrs, variants, line, vis


class TypeAlias(Item):
    kind = "type"
    __slots__ = ("generics", "ty")

    def __init__(self, name, generics, attrs, ty, line, vis):
        self.name, self.generics, self.attrs, self.ty, self.line, self.vis = name, generics, attrs, ty, line, vis


class Arm:
    __slots__ = ("attrs", "pat", "expr", "line")

    def __init__(self, attrs, pat, expr, line):
        self.attrs, self.pat, self.expr, self.line = attrs, pat, expr, line

    @property
    def pat_text(self):
        return tok_text(self.pat)

    @property
    def expr_text(self):
        return tok_text(self.expr)


class Match:
    __slots__ = ("scrutinee", "arms", "line", "start", "end")

    def __init__(self, scrutinee, arms, line, start, end):
        self.scrutinee, self.arms, self.line, self.start, self.end = scrutinee, arms, line, start, end


class Fn:
    __slots__ = ("name", "sig", "body", "line", "attrs")

    def __init__(self, name, sig, body, line, attrs):
        self.name, self.sig, self.body, self.line, self.attrs = name, sig, body, line, attrs

    def matches(self, rel="<rust>"):
        return extract_matches(self.body, rel)


class Impl(Item):
    kind = "impl"
    __slots__ = ("generics", "trait", "self_ty", "fns", "body")

    def __init__(self, generics, trait, self_ty, fns, body, attrs, line):
        self.generics, self.trait, self.self_ty, self.fns, self.body = generics, trait, self_ty, fns, body
        self.attrs, self.line, self.vis = attrs, line, ""
        self.name = (show_ty(trait) + " for " if trait else "") + show_ty(self_ty)


def tok_text(toks) -> str:
    """Canonical one-space-separated spelling of a token run (string literals re-quoted)."""
    return " ".join(_lit(v) if k == "str" else ("'" + v + "'" if k == "chr" else v) for k, v, _ in toks)


class RustFile:
    def __init__(self, rel, items, inner_attrs, n_tokens):
        self.rel = rel
        self.items = items
        self.inner_attrs = inner_attrs
        self.n_tokens = n_tokens

    def of_kind(self, kind):
        return [i for i in self.items if i.kind == kind]


# ------------------------------------------------------------------------------------------------
# parser

_OPEN = {"(": ")", "[": "]", "{": "}"}
_CLOSE = {")", "]", "}"}


class _Parser:
    def __init__(self, toks, rel):
        self.t = toks
        self.i = 0
        self.rel = rel
        self.n = len(toks)

    # --- primitives
    def peek(self, off=0):
        j = self.i + off
        return self.t[j] if j < self.n else ("eof", "", self.t[-1][2] if self.t else 0)

    def line(self):
        return self.peek()[2]

    def fail(self, msg, tok=None):
        k, v, ln = tok or self.peek()
        raise _err(self.rel, ln, f"{msg} (at {k} {v!r})")

    def at_p(self, v, off=0):
        k, val, _ = self.peek(off)
        return k == "p" and val == v

    def at_id(self, v=None, off=0):
        k, val, _ = self.peek(off)
        return k == "id" and (v is None or val == v)

    def eat_p(self, v):
        if not self.at_p(v):
            self.fail(f"expected {v!r}")
        self.i += 1

    def eat_id(self, v=None):
        if not self.at_id(v):
            self.fail(f"expected {'identifier' if v is None else v!r}")
        tok = self.t[self.i]
        self.i += 1
        return tok[1]

    def balanced(self):
        """Consume one balanced group starting at an opening bracket; returns the inner tokens."""
        k, v, ln = self.peek()
        if k != "p" or v not in _OPEN:
            self.fail("expected an opening bracket")
        stack = [_OPEN[v]]
        start = self.i + 1
        self.i += 1
        while stack:
            if self.i >= self.n:
                raise _err(self.rel, ln, f"unbalanced {v!r}")
            k2, v2, _ = self.t[self.i]
            if k2 == "p":
                if v2 in _OPEN:
                    stack.append(_OPEN[v2])
                elif v2 in _CLOSE:
                    if v2 != stack[-1]:
                        self.fail(f"mismatched bracket, expected {stack[-1]!r}")
                    stack.pop()
            self.i += 1
        return self.t[start:self.i - 1]

    # --- attributes
    def outer_attrs(self) -> Attrs:
        a = Attrs()
        while self.at_p("#") and self.at_p("[", 1):
            ln = self.line()
            self.i += 1
            inner = self.balanced()
            m = _Parser(inner, self.rel).meta_all(ln)
            _summarise(a, m, self.rel)
        return a

    def meta_all(self, ln):
        if not self.t:
            raise _err(self.rel, ln, "empty attribute")
        m = self.meta()
        if self.i != self.n:
            self.fail("trailing tokens in attribute")
        return m

    def meta(self) -> Meta:
        ln = self.line()
        name = self.eat_id()
        while self.at_p("::"):
            self.i += 1
            name += "::" + self.eat_id()
        m = Meta(name, line=ln)
        if self.at_p("("):
            inner = self.balanced()
            sub = _Parser(inner, self.rel)
            m.args = []
            while sub.i < sub.n:
                k, v, _ = sub.peek()
                if k in ("str", "num", "chr"):
                    m.args.append(v if k != "num" else v)
                    sub.i += 1
                else:
                    m.args.append(sub.meta())
                if sub.i < sub.n:
                    sub.eat_p(",")
        elif self.at_p("="):
            self.i += 1
            k, v, _ = self.peek()
            if k == "str":
                m.value = v
            elif k == "num":
                m.value = parse_int(v) if parse_int(v) is not None else v
            elif k == "id" and v in ("true", "false"):
                m.value = v == "true"
            else:
                self.fail("attribute value is not a literal")
            self.i += 1
        return m

    # --- types
    def generics_decl(self):
        """`<T, U: Bound, 'a>` after an item name: returns the parameter names."""
        if not self.at_p("<"):
            return []
        self.i += 1
        names = []
        depth = 1
        expect_name = True
        while depth:
            k, v, _ = self.peek()
            if k == "eof":
                self.fail("unterminated generic parameter list")
            if k == "p" and v == "<":
                depth += 1
            elif k == "p" and v == ">":
                depth -= 1
            elif k == "p" and v == "," and depth == 1:
                expect_name = True
                self.i += 1
                continue
            elif k == "p" and v in ("{", "}", ";"):
                self.fail("unterminated generic parameter list")
            elif expect_name and depth == 1 and k in ("id", "life"):
                if k == "id" and v == "const":
                    self.fail("const generics are outside the parsed subset")
                names.append(v)
                expect_name = False
            self.i += 1
        return names

    def type_(self):
        k, v, ln = self.peek()
        if k == "p" and v == "(":
            self.i += 1
            elems, trailing = [], False
            while not self.at_p(")"):
                elems.append(self.type_())
                trailing = False
                if self.at_p(","):
                    self.i += 1
                    trailing = True
                elif not self.at_p(")"):
                    self.fail("expected ',' or ')' in tuple type")
            self.i += 1
            if len(elems) == 1 and not trailing:
                return elems[0]
            return ("()", tuple(elems))
        if k == "life":
            self.i += 1
            return (v, ())
        if k == "p" and v == "&":
            self.i += 1
            if self.peek()[0] == "life":
                self.i += 1
            if self.at_id("mut"):
                self.i += 1
            return ("&", (self.type_(),))
        if k != "id":
            self.fail("expected a type")
        if v in ("dyn", "impl", "fn", "unsafe", "extern", "for"):
            self.fail("type form outside the parsed subset")
        name = self.eat_id()
        while self.at_p("::") and self.at_id(None, 1):
            self.i += 1
            name += "::" + self.eat_id()
        args = []
        if self.at_p("<"):
            self.i += 1
            while not self.at_p(">"):
                args.append(self.type_())
                if self.at_p(","):
                    self.i += 1
                elif not self.at_p(">"):
                    self.fail("expected ',' or '>' in generic arguments")
            self.i += 1
            if self.at_p("::"):
                self.fail("associated path after generic arguments is outside the parsed subset")
        return (name, tuple(args))

    # --- items
    def vis(self) -> str:
        if self.at_id("pub"):
            self.i += 1
            if self.at_p("(") and (self.at_id("crate", 1) or self.at_id("super", 1) or self.at_id("self", 1)
                                   or self.at_id("in", 1)):
                inner = self.balanced()
                return "pub(" + tok_text(inner) + ")"
            return "pub"
        return ""

    def file(self) -> RustFile:
        inner = []
        while self.at_p("#") and self.at_p("!", 1) and self.at_p("[", 2):
            ln = self.line()
            self.i += 2
            toks = self.balanced()
            inner.append(_Parser(toks, self.rel).meta_all(ln))
        items = []
        while self.i < self.n:
            items.append(self.item())
        return RustFile(self.rel, items, inner, self.n)

    def item(self):
        attrs = self.outer_attrs()
        ln = self.line()
        vis = self.vis()
        k, v, _ = self.peek()
        if k != "id":
            self.fail("expected an item")
        if v == "use":
            self.i += 1
            start = self.i
            while not self.at_p(";"):
                if self.peek()[0] == "eof":
                    self.fail("unterminated use declaration")
                kk, vv, _ = self.peek()
                if not (kk == "id" or (kk == "p" and vv in ("::", "{", "}", ",", "*"))):
                    self.fail("unexpected token in use declaration")
                self.i += 1
            path = "".join(t[1] if t[1] != "," else ", " for t in self.t[start:self.i])
            self.i += 1
            return Use(path, attrs, ln, vis)
        if v == "struct":
            self.i += 1
            name = self.eat_id()
            gen = self.generics_decl()
            if not self.at_p("{"):
                self.fail("only structs with named fields are in the parsed subset")
            self.i += 1
            fields = []
            while not self.at_p("}"):
                fa = self.outer_attrs()
                fl = self.line()
                fv = self.vis()
                fname = self.eat_id()
                self.eat_p(":")
                fty = self.type_()
                fields.append(Field(fname, fa, fty, fl, fv))
                if self.at_p(","):
                    self.i += 1
                elif not self.at_p("}"):
                    self.fail("expected ',' or '}' after a struct field")
            self.i += 1
            return Struct(name, gen, attrs, fields, ln, vis)
        if v == "enum":
            self.i += 1
            name = self.eat_id()
            gen = self.generics_decl()
            self.eat_p("{")
            variants = []
            while not self.at_p("}"):
                va = self.outer_attrs()
                vl = self.line()
                vname = self.eat_id()
                payload, disc = None, None
                if self.at_p("("):
                    self.i += 1
                    tys = []
                    while not self.at_p(")"):
                        self.outer_attrs()
                        self.vis()
                        tys.append(self.type_())
                        if self.at_p(","):
                            self.i += 1
                        elif not self.at_p(")"):
                            self.fail("expected ',' or ')' in tuple variant")
                    self.i += 1
                    payload = tuple(tys)
                elif self.at_p("{"):
                    self.fail("struct-like enum variants are outside the parsed subset")
                if self.at_p("="):
                    self.i += 1
                    disc = self.int_literal()
                variants.append(Variant(vname, va, payload, disc, vl))
                if self.at_p(","):
                    self.i += 1
                elif not self.at_p("}"):
                    self.fail("expected ',' or '}' after an enum variant")
            self.i += 1
            return Enum(name, gen, attrs, variants, ln, vis)
        if v == "type":
            self.i += 1
            name = self.eat_id()
            gen = self.generics_decl()
            self.eat_p("=")
            ty = self.type_()
            self.eat_p(";")
            return TypeAlias(name, gen, attrs, ty, ln, vis)
        if v == "impl":
            if vis:
                self.fail("visibility on an impl block")
            self.i += 1
            gen = self.generics_decl()
            first = self.type_()
            trait, self_ty = None, first
            if self.at_id("for"):
                self.i += 1
                trait, self_ty = first, self.type_()
            if self.at_id("where"):
                while not self.at_p("{"):
                    if self.peek()[0] == "eof" or self.at_p(";") or self.at_p("}"):
                        self.fail("unterminated where clause")
                    self.i += 1
            if not self.at_p("{"):
                self.fail("expected '{' to open the impl body")
            body = self.balanced()
            fns = _Parser(body, self.rel).impl_body() if body else []
            return Impl(gen, trait, self_ty, fns, body, attrs, ln)
        self.fail(f"item kind {v!r} is outside the parsed subset")

    def int_literal(self) -> int:
        neg = False
        if self.at_p("-"):
            neg = True
            self.i += 1
        k, v, _ = self.peek()
        val = parse_int(v) if k == "num" else None
        if val is None:
            self.fail("expected an integer literal")
        self.i += 1
        return -val if neg else val

    def impl_body(self):
        fns = []
        while self.i < self.n:
            attrs = self.outer_attrs()
            ln = self.line()
            self.vis()
            while self.at_id("const") or self.at_id("async") or self.at_id("unsafe"):
                self.i += 1
            if not self.at_id("fn"):
                self.fail("only fn items are expected inside an impl block")
            self.i += 1
            name = self.eat_id()
            start = self.i
            while not self.at_p("{"):
                if self.peek()[0] == "eof" or self.at_p(";"):
                    self.fail("fn without a body inside an impl block")
                if self.at_p("(") or self.at_p("["):
                    self.balanced()
                else:
                    self.i += 1
            sig = self.t[start:self.i]
            body = self.balanced()
            fns.append(Fn(name, sig, body, ln, attrs))
        return fns


def _summarise(a: Attrs, m: Meta, rel: str):
    a.raw.append(m)
    if m.name == "serde":
        if m.args is None:
            raise _err(rel, m.line, "#[serde] without arguments")
        for x in m.args:
            if not isinstance(x, Meta):
                raise _err(rel, m.line, "literal inside #[serde(...)]")
            if x.name in a.serde:
                raise _err(rel, m.line, f"serde key {x.name} given twice")
            if x.args is not None:
                a.serde[x.name] = ("nested", x.canon())
            elif x.value is not None:
                a.serde[x.name] = x.value
            else:
                a.serde[x.name] = True
    elif m.name == "cfg":
        if not m.args or len(m.args) != 1 or not isinstance(m.args[0], Meta):
            raise _err(rel, m.line, "#[cfg(...)] takes exactly one predicate")
        a.cfg.append(m.args[0].canon())
    elif m.name == "deprecated":
        a.deprecated = True
    elif m.name == "derive":
        for x in m.args or []:
            if not isinstance(x, Meta) or x.args is not None or x.value is not None:
                raise _err(rel, m.line, "unexpected derive argument")
            a.derives.append(x.name)
    elif m.name in KNOWN_ATTRS:
        a.others.append(m.canon())
    else:
        # cfg_attr, macro attributes, ...: they can rewrite the item in ways this parser cannot see
        raise _err(rel, m.line, f"attribute #[{m.name}] is outside the parsed subset")


def extract_matches(toks, rel="<rust>") -> list:
    """All `match SCRUTINEE { ARMS }` expressions of a token run (outermost first, nested ones too)."""
    out = []
    n = len(toks)
    i = 0
    while i < n:
        k, v, ln = toks[i]
        if not (k == "id" and v == "match"):
            i += 1
            continue
        j = i + 1
        p = _Parser(toks, rel)
        p.i = j
        while not p.at_p("{"):
            if p.peek()[0] == "eof" or p.at_p(";") or p.at_p("}"):
                p.fail("match without a body")
            if p.at_p("(") or p.at_p("["):
                p.balanced()
            else:
                p.i += 1
        scrut = toks[j:p.i]
        body_start = p.i
        body = p.balanced()
        end = p.i
        arms = []
        q = _Parser(body, rel)
        while q.i < q.n:
            attrs = q.outer_attrs()
            al = q.line()
            ps = q.i
            while not q.at_p("=>"):
                if q.peek()[0] == "eof":
                    q.fail("match arm without '=>'")
                if q.at_p("(") or q.at_p("[") or q.at_p("{"):
                    q.balanced()
                else:
                    q.i += 1
            pat = body[ps:q.i]
            q.i += 1
            es = q.i
            if q.at_p("{"):
                q.balanced()
                expr = body[es:q.i]
                if q.at_p(","):
                    q.i += 1
            else:
                while q.i < q.n and not q.at_p(","):
                    if q.at_p("(") or q.at_p("[") or q.at_p("{"):
                        q.balanced()
                    else:
                        q.i += 1
                expr = body[es:q.i]
                if q.i < q.n:
                    q.i += 1
            if not pat or not expr:
                raise _err(rel, al, "empty match arm pattern or expression")
            arms.append(Arm(attrs, pat, expr, al))
        out.append(Match(scrut, arms, ln, i, end))
        i = body_start + 1  # continue inside the body: nested matches are listed as well
    return out


def parse(text: str, rel: str = "<rust>") -> RustFile:
    toks = tokenize(text, rel)
    if not toks:
        raise AnalysisError(f"{rel}: no tokens")
    return _Parser(toks, rel).file()


# ------------------------------------------------------------------------------------------------
# serde naming rules (serde_derive/src/internals/case.rs, restated)

def serde_rename_field(ident: str, rule: str | None) -> str:
    """Wire name of a struct field identifier under a container `rename_all` rule."""
    if rule is None:
        return ident
    if rule in ("camelCase", "PascalCase"):
        out, cap = [], True
        for ch in ident:
            if ch == "_":
                cap = True
            elif cap:
                out.append(ch.upper())
                cap = False
            else:
                out.append(ch)
        s = "".join(out)
        if rule == "camelCase":
            s = s[:1].lower() + s[1:]
        return s
    if rule == "snake_case":
        return ident
    if rule == "lowercase":
        return ident.lower()
    if rule == "UPPERCASE":
        return ident.upper()
    if rule == "SCREAMING_SNAKE_CASE":
        return ident.upper()
    if rule == "kebab-case":
        return ident.replace("_", "-")
    if rule == "SCREAMING-KEBAB-CASE":
        return ident.upper().replace("_", "-")
    raise AnalysisError(f"serde rename_all rule {rule!r} is not a serde rule")
