"""C09 -- method catalogue and type registry agree with the metamodel."""
import ast

from ..common import Ctx, P_TYPES, AnalysisError
from ..pymodel import show, MISSING, NONE, mk_union, members
from ..metamodel import method_to_const_name
from .. import microeval
from . import _imgbase

META = {
    "level": "translation_validation",
    "explanation": (
        "Exhaustive static comparison over all methods of lsp.json and all names of types.py: key sets of "
        "METHOD_TO_TYPES and _MESSAGE_DIRECTION (through the UPPER_SNAKE constants) equal the metamodel's methods; "
        "entry[0] is the envelope class whose `method` annotation/default is that method string and which has "
        "the request / notification shape; entry[1] the response class whose `result` annotation is the mapped "
        "result type; entry[2] / entry[3] the mapped params / registration-options types (compared as "
        "normalised, resolved type expressions); the direction string equals messageDirection and "
        "message_direction(), constant-folded by the micro-evaluator for every method, returns it; a constant "
        "named by the documented rule holds each method string; ALL_TYPES_MAP maps each key to the same-named "
        "definition and contains every class, enumeration and alias the module defines; REQUESTS / RESPONSES / "
        "NOTIFICATIONS are exactly the envelope classes."
        " Base-protocol classes ResponseError / ResponseErrorMessage (not in the metamodel): attribute sets, types, validator "
        "and defaults are compared with the JSON-RPC shapes stated in the checker."),
    "trusted_base": ["typing normalisation", "attrs field semantics"],
    "assumptions": ["lsp.json is the reference"],
    "not_decided": [],
}

ID_REQ = mk_union([("prim", "int"), ("prim", "str")])
ID_RESP = mk_union([("prim", "int"), ("prim", "str"), NONE])
UNION_TABLES = {"REQUESTS", "RESPONSES", "NOTIFICATIONS", "MESSAGE_TYPES"}


def name_ty(t, node):
    """tyexpr (resolved) of a table entry (Name / None)."""
    if isinstance(node, ast.Constant) and node.value is None:
        return None
    if isinstance(node, ast.Name):
        if node.id not in t.env:
            return ("undefined", node.id)
        return t.resolve(t.env[node.id])
    # any other type expression (`Optional[None]`, `Union[A, B]`): its value as a type -- which is never the `None`
    # that stands for "this message has no such type"
    ty, _ = t._parse(node, f"{t.rel}:{getattr(node, 'lineno', '?')} table entry")
    return t.resolve(ty)


def run(ctx: Ctx):
    im = _imgbase.image(ctx)
    t, mm = im.types, im.mm
    methods = {m["method"]: (m, kind) for m, kind in mm.all_methods()}
    ctx.floor("metamodel methods", len(methods), 80)
    ctx.extra["programs"] = len(methods)
    consts_by_value = {}
    for k, v in t.str_consts.items():
        consts_by_value.setdefault(v, []).append(k)

    # constants
    for m in sorted(methods):
        want = method_to_const_name(m)
        ctx.check(t.str_consts.get(want) == m, "method-constant", f"method={m}",
                  f"constant {want} should equal {m!r}, found {t.str_consts.get(want)!r}", P_TYPES,
                  sample={"method": m, "constant": want})
    for k, v in sorted(t.str_consts.items()):
        if k.isupper() and not k.startswith("__"):
            ctx.check(v in methods, "no-extra-constant", f"constant={k}",
                      f"constant {k} = {v!r} is not a method of the metamodel", P_TYPES)

    # METHOD_TO_TYPES
    tab = t.tables.get("METHOD_TO_TYPES")
    if not isinstance(tab, ast.Dict):
        raise AnalysisError(f"{t.rel}: METHOD_TO_TYPES is not a dict display")
    seen = {}
    for k, v in zip(tab.keys, tab.values):
        if isinstance(k, ast.Name) and k.id in t.str_consts:
            ms = t.str_consts[k.id]
        elif isinstance(k, ast.Constant) and isinstance(k.value, str):
            ms = k.value
        else:
            raise AnalysisError(f"{t.rel}:{k.lineno}: METHOD_TO_TYPES key is not a method constant")
        if not (isinstance(v, ast.Tuple) and len(v.elts) == 4):
            ctx.fail("method-entry-shape", f"method={ms}", "entry is not a 4-tuple", P_TYPES, v.lineno)
            continue
        ctx.check(ms not in seen, "method-entry-unique", f"method={ms}", "method listed twice (later entry wins)", P_TYPES, k.lineno)
        seen[ms] = v
    for ms in sorted(seen):
        ctx.check(ms in methods, "no-extra-method", f"method={ms}", f"{ms!r} is not a method of the metamodel", P_TYPES)
    env_shape = im.envelope_names()
    for ms, (msg, kind) in sorted(methods.items()):
        if ms not in seen:
            ctx.fail("method-listed", f"method={ms}", "missing from METHOD_TO_TYPES", P_TYPES)
            continue
        ctx.ok("method-listed")
        e = seen[ms].elts
        cname = mm.message_class(msg, kind)
        got0 = e[0].id if isinstance(e[0], ast.Name) else None
        ctx.check(got0 == cname, "entry-message-class", f"method={ms}",
                  f"request/notification class should be {cname}, found {got0}", P_TYPES, e[0].lineno)
        # response
        if kind == "request":
            rname = mm.request_stem(msg) + "Response"
            got1 = e[1].id if isinstance(e[1], ast.Name) else None
            ctx.check(got1 == rname, "entry-response-class", f"method={ms}",
                      f"response class should be {rname}, found {got1}", P_TYPES, e[1].lineno)
        else:
            ctx.check(isinstance(e[1], ast.Constant) and e[1].value is None, "entry-response-class", f"method={ms}",
                      "notifications have no response class", P_TYPES, e[1].lineno)
        # params
        base = msg.get("typeName") or cname
        exp_params = mm.py_type(msg["params"], f"{base}Params") if msg.get("params") else None
        got2 = name_ty(t, e[2])
        ctx.check(got2 == exp_params, "entry-params", f"method={ms}",
                  f"params type should be {show(exp_params) if exp_params else None}, found "
                  f"{show(got2) if got2 and got2[0] != 'undefined' else got2}", P_TYPES, e[2].lineno,
                  sample={"method": ms, "params": show(exp_params) if exp_params else None})
        exp_reg = mm.py_type(msg["registrationOptions"], f"{base}Options") if msg.get("registrationOptions") else None
        got3 = name_ty(t, e[3])
        ctx.check(got3 == exp_reg, "entry-registration-options", f"method={ms}",
                  f"registration options should be {show(exp_reg) if exp_reg else None}, found "
                  f"{show(got3) if got3 and got3[0] != 'undefined' else got3}", P_TYPES, e[3].lineno)
        # envelope shapes
        c = t.classes.get(cname)
        if c is None or c.kind != "attrs":
            ctx.fail("envelope-shape", f"class={cname}", "message class is missing", P_TYPES)
        else:
            want = ["id", "params", "method", "jsonrpc"] if kind == "request" else ["params", "method", "jsonrpc"]
            ctx.check(sorted(f.name for f in c.fields) == sorted(want), "envelope-shape", f"class={cname}",
                      f"fields {[f.name for f in c.fields]} != {want}", P_TYPES, c.lineno)
            f = c.field("method")
            if f is not None:
                ctx.check(f.resolved == ("lit", (ms,)) and f.default == ms, "envelope-method", f"class={cname}",
                          f"method annotation/default should be {ms!r}: found {show(f.resolved)} / {f.default!r}",
                          P_TYPES, f.lineno)
            f = c.field("jsonrpc")
            if f is not None:
                ctx.check(f.resolved == ("prim", "str") and f.default == "2.0", "envelope-jsonrpc", f"class={cname}",
                          "jsonrpc should be str defaulting to '2.0'", P_TYPES, f.lineno)
            f = c.field("params")
            if f is not None:
                if exp_params is None:
                    ok = f.resolved == NONE and f.default is None
                else:
                    ok = f.resolved == exp_params and not f.has_default
                ctx.check(ok, "envelope-params", f"class={cname}",
                          f"params should be {show(exp_params) if exp_params else 'None (default None)'}: found "
                          f"{show(f.resolved)} default={'<none>' if f.default is MISSING else f.default!r}", P_TYPES, f.lineno)
            f = c.field("id")
            if f is not None and kind == "request":
                ctx.check(f.resolved == ID_REQ and not f.has_default, "envelope-id", f"class={cname}",
                          "request id should be a required Union[int, str]", P_TYPES, f.lineno)
        if kind == "request":
            rname = mm.request_stem(msg) + "Response"
            rc = t.classes.get(rname)
            if rc is None or rc.kind != "attrs":
                ctx.fail("envelope-shape", f"class={rname}", "response class is missing", P_TYPES)
            else:
                ctx.check(sorted(f.name for f in rc.fields) == ["id", "jsonrpc", "result"], "envelope-shape",
                          f"class={rname}", f"fields {[f.name for f in rc.fields]}", P_TYPES, rc.lineno)
                f = rc.field("result")
                if f is not None:
                    exp_res = mm.py_type(msg["result"]) if msg.get("result") else NONE
                    ok = f.resolved in (exp_res, mk_union([exp_res, NONE])) and f.default is None
                    if msg.get("result") and any(i.get("kind") == "base" and i.get("name") == "null"
                                                 for i in (msg["result"].get("items") or [])):
                        ok = ok and NONE in members(f.resolved)
                    ctx.check(ok, "envelope-result", f"class={rname}",
                              f"result should be {show(exp_res)} (default None): found {show(f.resolved)}", P_TYPES, f.lineno,
                              sample={"class": rname, "result": show(f.resolved)})
                f = rc.field("id")
                if f is not None:
                    ctx.check(f.resolved == ID_RESP and not f.has_default, "envelope-id", f"class={rname}",
                              "response id should be a required Optional[Union[int, str]]", P_TYPES, f.lineno)
                f = rc.field("jsonrpc")
                if f is not None:
                    ctx.check(f.resolved == ("prim", "str") and f.default == "2.0", "envelope-jsonrpc",
                              f"class={rname}", "jsonrpc should be str defaulting to '2.0'", P_TYPES, f.lineno)

    # result aliases
    for an, req in im.result_aliases().items():
        exp = mm.py_type(req["result"])
        got = t.resolve(t.aliases[an]) if an in t.aliases else None
        ctx.check(got == exp, "result-alias", f"alias={an}",
                  f"{an} should be {show(exp)}, found {show(got) if got else None}", P_TYPES)

    # directions
    # message_direction() is folded for every method with the module level of types.py available (whatever the table
    # behind it is called and however its values are spelled); the table itself is compared too when it is the dict
    # message_direction reads
    from .. import special as _special
    it = _special.types_interp(t)
    fn = t.functions.get("message_direction")
    if fn is None:
        raise AnalysisError(f"{t.rel}: message_direction not found")
    ctx.fn("types.py:message_direction")
    free = {n_.id for n_ in ast.walk(fn) if isinstance(n_, ast.Name) and isinstance(n_.ctx, ast.Load)}
    dirs = None
    for nm in sorted(free):
        v = it.globals.get(nm)
        if isinstance(v, dict) and v and all(isinstance(k_, str) for k_ in v):
            dirs = {k_: (x.fields.get("value") if isinstance(x, microeval.Record) else x) for k_, x in v.items()}

    def as_str(r):
        return r.fields.get("value") if isinstance(r, microeval.Record) else r
    for ms, (msg, kind) in sorted(methods.items()):
        if dirs is not None:
            ctx.check(dirs.get(ms) == msg["messageDirection"], "direction-table", f"method={ms}",
                      f"the direction table gives {dirs.get(ms)!r}, metamodel says {msg['messageDirection']!r}", P_TYPES)
        try:
            r = as_str(it.call(fn, [ms]))
        except microeval.Raised as e:
            r = f"<raises {e.exc_name}>"
        ctx.check(r == msg["messageDirection"], "direction-function", f"method={ms}",
                  f"message_direction({ms!r}) folds to {r!r}, metamodel says {msg['messageDirection']!r}", P_TYPES,
                  fn.lineno, sample={"method": ms, "direction": r})
    for ms in sorted(dirs or {}):
        ctx.check(ms in methods, "no-extra-method", f"direction:{ms}", f"{ms!r} in the direction table is not a method", P_TYPES)
    # MessageDirection enum
    md = t.classes.get("MessageDirection")
    want_dirs = sorted({m["messageDirection"] for m, _ in mm.all_methods()})
    ctx.check(md is not None and md.kind == "enum" and sorted(v for _, v in md.members) == want_dirs,
              "direction-enum", "MessageDirection", f"MessageDirection values should be {want_dirs}", P_TYPES)

    # ALL_TYPES_MAP
    amap = t.tables.get("ALL_TYPES_MAP")
    if not isinstance(amap, ast.Dict):
        raise AnalysisError(f"{t.rel}: ALL_TYPES_MAP is not a dict display")
    keys = {}
    for k, v in zip(amap.keys, amap.values):
        if not (isinstance(k, ast.Constant) and isinstance(k.value, str)):
            raise AnalysisError(f"{t.rel}: ALL_TYPES_MAP key is not a string")
        vn = v.id if isinstance(v, ast.Name) else None
        ctx.check(vn == k.value, "registry-name-bound", f"name={k.value}",
                  f"ALL_TYPES_MAP[{k.value!r}] is bound to {vn}, not {k.value}", P_TYPES, k.lineno)
        keys[k.value] = vn
    ctx.floor("ALL_TYPES_MAP entries", len(keys), 600)
    defined = (set(t.classes) | set(t.aliases)) - UNION_TABLES
    for n in sorted(defined):
        ctx.check(n in keys, "registry-complete", f"name={n}",
                  f"{n} is defined by the module but missing from ALL_TYPES_MAP: forward references to it cannot resolve",
                  P_TYPES)
    for n in sorted(keys):
        ctx.check(n in t.env, "registry-name-bound", f"name={n}:defined", f"{n} is not defined in the module", P_TYPES)
    # message unions
    exp_sets = {"REQUESTS": set(), "RESPONSES": set(), "NOTIFICATIONS": set()}
    for name, (kind, msg) in env_shape.items():
        exp_sets[{"request": "REQUESTS", "response": "RESPONSES", "notification": "NOTIFICATIONS"}[kind]].add(("cls", name))
    for an, want in exp_sets.items():
        got = set(members(t.aliases[an])) if an in t.aliases else set()
        ctx.check(got == want, "message-union", an,
                  f"{an}: missing {sorted(show(x) for x in want - got)[:5]} extra {sorted(show(x) for x in got - want)[:5]}", P_TYPES)
    ctx.extra["disagreements_checked"] = ctx.obligations


def _registry_not_shrunk(ctx: Ctx):
    """The registry has to stay complete for the life of the process: no code of the package removes or rebinds
    entries of ALL_TYPES_MAP (attrs.resolve_types only ever adds `__builtins__`)."""
    from ..common import P_HOOKS, P_CONVERTERS
    from ..genlint import Module, dotted
    n = 0
    for rel in (P_HOOKS, P_CONVERTERS, P_TYPES):
        m = Module(rel, ctx.src.text(rel))
        for node in ast.walk(m.tree):
            tgt = how = None
            if isinstance(node, ast.Delete):
                for t_ in node.targets:
                    if isinstance(t_, ast.Subscript):
                        tgt, how = t_.value, "del ...[key]"
            elif isinstance(node, ast.Call) and isinstance(node.func, ast.Attribute) and \
                    node.func.attr in ("pop", "popitem", "clear", "__delitem__"):
                tgt, how = node.func.value, f".{node.func.attr}()"
            elif isinstance(node, (ast.Assign, ast.AugAssign)):
                for t_ in (node.targets if isinstance(node, ast.Assign) else [node.target]):
                    if isinstance(t_, ast.Subscript):
                        tgt, how = t_.value, "...[key] = value"
                    elif isinstance(t_, ast.Attribute) and t_.attr == "ALL_TYPES_MAP":
                        tgt, how = t_, "rebinding"
            if tgt is None:
                continue
            d = dotted(tgt) or ""
            if d.split(".")[-1] == "ALL_TYPES_MAP":
                n += 1
                fn = m.enclosing_function(node)
                ctx.fail("registry-stays-complete", f"{rel}:{getattr(fn, 'name', '<module>')}:{how}",
                         f"{getattr(fn, 'name', 'module code')} changes ALL_TYPES_MAP ({how}): after it has run, protocol types "
                         "are missing from / rebound in the public registry", rel, node.lineno)
    if n == 0:
        ctx.ok("registry-stays-complete")


_run_c09 = run


def run(ctx: Ctx):  # noqa: F811
    _run_c09(ctx)
    _registry_not_shrunk(ctx)


_run_before_base_protocol = run


def run(ctx: Ctx):  # noqa: F811
    _run_before_base_protocol(ctx)
    # base-protocol classes (not in the metamodel; emitted from hand-written templates): their shape is part of the message catalogue
    from . import _imgbase as _ib
    from ..common import P_TYPES as _PT
    for construct, ok, msg, ln in _ib.base_protocol_shape(_ib.image(ctx)):
        ctx.check(ok, "envelope-base-protocol", construct, msg, _PT, ln)
