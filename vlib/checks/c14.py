"""C14 -- every union in the protocol can be parsed in each of its alternatives."""
from ..common import Ctx, P_HOOKS
from ..pymodel import show
from . import _sitebase

META = {
    "level": "other",
    "explanation": (
        "Static analysis (ast only). Every union type reachable from a field of a generated attrs class is a "
        "dispatch site; its handler is determined by the cattrs dispatch model A1 (registered hook by set-equal "
        "key, Optional, native attrs-union disambiguator A2 with every admissible unique-key choice). The handler "
        "body is evaluated as a decision tree on every alternative of the union and every world (optional probed "
        "key present/absent, array empty/non-empty, alternative of nested values). Obligations per leaf: the "
        "handler does not raise / fall through / return None for a non-null value (supported) and the class it "
        "structures into accepts every valid value of the alternative in that world (sound, metamodel-level "
        "subsumption computed coinductively). Sites without any handler are reported."),
    "rule": "one obligation per (site, handler variant, alternative, world); plus one per site for 'has a handler'",
    "trusted_base": ["A1 cattrs 24.1 dispatch order", "A2 create_default_dis_func", "A3 generated attrs structure fn",
                     "typing: unions compare as sets, flatten, dedupe"],
    "assumptions": ["types.py is the image of lsp.json (decided by C04)",
                    "values are metamodel-valid for the alternative under analysis"],
    "not_decided": ["structuring directly against module-level alias objects that still hold ForwardRefs"],
}


def run(ctx: Ctx):
    sa = _sitebase.analysis(ctx)
    _sitebase.floors(ctx, sa)
    _sitebase.report(ctx, sa, {"unsupported": "supported", "unsound": "sound"},
                     {"unsupported": "site-has-handler"})
    ctx.extra["sites"] = len(sa.sites)
    ctx.extra["handler_kinds"] = {}
    for s in sa.sites.values():
        k = s.handler_kind.split(":")[0]
        ctx.extra["handler_kinds"][k] = ctx.extra["handler_kinds"].get(k, 0) + 1
    ctx.extra["native_disambiguators"] = {k: [{"table": t, "fallback": fb} for t, fb in v if t != "typeerror"]
                                          for k, v in sa.native_tables.items()}
    ctx.extra["worlds"] = sa.worlds
