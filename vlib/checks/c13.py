"""C13 -- enums carry exactly the metamodel's values; open ones accept custom values."""
import collections

from ..common import Ctx, P_TYPES, P_HOOKS
from ..pymodel import show, walk_ty, members, NONE
from . import _imgbase, _sitebase

META = {
    "level": "translation_validation",
    "explanation": (
        "Static. (1) for each of the metamodel's enumerations the enum class has the mapped base type and its "
        "member values equal the metamodel's values as a multiset (and no member lacks a metamodel value); "
        "@enum.unique only where the values are unique. (2) Use sites: every occurrence of an open enumeration "
        "(supportsCustomValues or the documented CompletionItemKind customisation) in any resolved annotation is "
        "inside a union with its base type, and at every such dispatch site the handler, evaluated as a decision "
        "tree, passes a primitive of the base kind through unchanged (custom values accepted and round-tripped) "
        "and never raises for a declared value; (3) every occurrence of a closed enumeration is bare / Optional / "
        "sequence element / map value -- cattrs then applies E(v), which rejects non-members (A1) -- it never "
        "shares a union with its own base type, and where a closed enumeration is a member of a larger union the "
        "leaf reached for its JSON kind must be structure(_, E), not a pass-through."),
    "trusted_base": ["A1: enum positions are structured by E(v); enum.Enum rejects non-members",
                     "hooktree evaluation (E4)"],
    "assumptions": ["lsp.json is the reference"],
    "not_decided": ["member names (API naming, not wire values)"],
}


def run(ctx: Ctx):
    im = _imgbase.image(ctx)
    t, mm = im.types, im.mm
    ctx.floor("metamodel enumerations", len(mm.enums), 30)
    ctx.extra["programs"] = len(mm.enums)
    nvals = 0
    for en, e in mm.enums.items():
        c = t.classes.get(en)
        if c is None or c.kind != "enum":
            ctx.fail("enum-exists", f"enum={en}", "no enum class of that name", P_TYPES)
            continue
        ctx.ok("enum-exists")
        ctx.check(c.enum_base == mm.enum_base(en), "enum-base", f"enum={en}",
                  f"base type should be {mm.enum_base(en)}, found {c.enum_base}", P_TYPES, c.lineno)
        want = collections.Counter(v["value"] for v in e["values"])
        got = collections.Counter(v for _, v in c.members)
        nvals += sum(want.values())
        for v in sorted(set(want) | set(got), key=repr):
            ctx.check(want[v] == got[v], "enum-values", f"enum={en} value={v!r}",
                      f"value {v!r}: metamodel has it {want[v]}x, {en} has it {got[v]}x", P_TYPES, c.lineno,
                      sample={"enum": en, "value": v})
        uniq = any(d.split("(")[0] == "enum.unique" for d in c.decorators)
        if uniq:
            ctx.check(max(got.values(), default=0) <= 1, "unique-only-if-unique", f"enum={en}",
                      "@enum.unique on an enumeration with duplicate values", P_TYPES, c.lineno)
    ctx.floor("enumeration values", nvals, 200)

    # use sites
    sa = _sitebase.analysis(ctx)
    open_enums = {en for en in mm.enums if mm.enum_open(en)}
    occ = collections.Counter()
    for c in t.attrs_classes():
        for f in c.fields:
            for sub in walk_ty(f.resolved):
                if sub[0] == "enum" and sub[1] in mm.enums:
                    occ[sub[1]] += 1
            # membership context
            for sub in walk_ty(f.resolved):
                if sub[0] == "union":
                    for m in sub[1]:
                        if m[0] == "enum" and m[1] in mm.enums:
                            base = ("prim", mm.enum_base(m[1]))
                            if m[1] in open_enums:
                                ctx.check(base in sub[1], "open-enum-in-union-with-base", f"{c.name}.{f.name}:{m[1]}",
                                          f"open enumeration {m[1]} occurs in {show(sub)} without its base type", P_TYPES, f.lineno)
                            else:
                                ctx.check(base not in sub[1], "closed-enum-not-widened", f"{c.name}.{f.name}:{m[1]}",
                                          f"closed enumeration {m[1]} shares the union {show(sub)} with its base type: "
                                          "arbitrary values are accepted", P_TYPES, f.lineno)
            def bare_occurrences(ty, in_union=False):
                k = ty[0]
                if k == "enum" and ty[1] in open_enums and not in_union:
                    yield ty[1]
                elif k == "union":
                    for m in ty[1]:
                        yield from bare_occurrences(m, True)
                elif k in ("seq", "list"):
                    yield from bare_occurrences(ty[1])
                elif k == "map":
                    yield from bare_occurrences(ty[1])
                    yield from bare_occurrences(ty[2])
                elif k == "tup":
                    for x in ty[1]:
                        yield from bare_occurrences(x)
            for en in bare_occurrences(f.resolved):
                ctx.fail("open-enum-in-union-with-base", f"{c.name}.{f.name}:{en}",
                         f"open enumeration {en} is used bare: custom values are rejected", P_TYPES, f.lineno)
    ctx.extra["enum_occurrences"] = dict(sorted(occ.items()))
    ctx.floor("enumeration use sites", sum(occ.values()), 60)

    n_open_sites = 0
    for o in sa.outcomes:
        enums_in_site = [m[1] for m in members(o.site.ty) if m[0] == "enum" and m[1] in mm.enums]
        if not enums_in_site:
            continue
        for en in enums_in_site:
            base = ("prim", mm.enum_base(en))
            if en in open_enums:
                if o.alt == base or o.alt == ("enum", en):
                    n_open_sites += 1
                    bad = [m for c_, m in o.issues if c_ in ("unsupported", "unsound")]
                    ok = not bad and (o.leaf_kind == "pass" or (o.alt == ("enum", en) and o.leaf_kind == "structure"))
                    ctx.check(ok, "open-enum-passthrough", f"{o.handler} alt={show(o.alt)} site={show(o.site.ty)}",
                              f"custom / declared values of {en} are not passed through unchanged: leaf {o.leaf} {bad}",
                              P_HOOKS, sample={"site": show(o.site.ty), "alt": show(o.alt), "leaf": o.leaf})
            else:
                if o.alt == ("enum", en):
                    lenient = [m for c_, m in o.issues if c_ == "nonstrict-lookup"]
                    ok = (o.leaf_kind == "structure" and o.leaf_ty == ("enum", en)) or \
                        (o.leaf_kind == "lookup" and not lenient)
                    ctx.check(ok, "closed-enum-in-union-structured", f"{o.handler} alt={show(o.alt)} site={show(o.site.ty)}",
                              f"closed enumeration {en} inside {show(o.site.ty)} reaches leaf {o.leaf}: values outside "
                              "the enumeration are accepted unchanged", P_HOOKS,
                              sample={"site": show(o.site.ty), "alt": show(o.alt), "leaf": o.leaf})
    ctx.floor("open-enum dispatch outcomes", n_open_sites, 10)
    ctx.extra["disagreements_checked"] = ctx.obligations


def _enum_class_hooks(ctx: Ctx):
    """Closedness rests on axiom A1: an enum position is structured by E(value).  A structure hook registered
    for an enum class replaces that: fold it (E5) on non-member candidates derived from the members (case
    variants, stringified / shifted integers); an accepted non-member is a violation, an unfoldable hook leaves the
    clause undecided."""
    import ast as _ast
    from ..common import AnalysisError
    from ..microeval import Interp, Record, ClassRef, Raised
    im = _imgbase.image(ctx)
    t, mm, h = im.types, im.mm, im.hooks
    n = 0
    for key, reg in h.class_hooks_effective().items():
        if key[0] != "enum" or key[1] not in mm.enums or mm.enum_open(key[1]):
            continue
        n += 1
        c = t.classes[key[1]]
        values = [v for _, v in c.members]
        members = [Record(c.name, {"value": v, "name": nm}) for nm, v in c.members]

        def ctor(v, _members=members, _values=values):
            for m_, val in zip(_members, _values):
                if val == v and type(val) is type(v):
                    return m_
            raise Raised("ValueError", (f"{v!r} is not a valid {c.name}",))
        cref = ClassRef(c.name, "enum", ["Enum"], call=ctor, iter=lambda _m=members: _m)
        cands = set()
        for v in values:
            if isinstance(v, str):
                cands |= {v.upper(), v.capitalize(), v.lower(), v + " ", " " + v, v.swapcase(), v.title()}
            else:
                cands |= {str(v), v + 1000, -v - 1, float(v) + 0.5}
        cands |= {"__no_such_member__", "", 987654}
        cands = [x for x in cands if not any(x == v and type(x) is type(v) for v in values)]
        if not isinstance(reg.hook, (_ast.FunctionDef, _ast.Lambda)):
            raise AnalysisError(f"{h.rel}: hook for {c.name} is not a function")
        it = Interp(name=h.rel)
        reported = False
        for cand in sorted(cands, key=repr):
            if reported:
                break          # one witness per enumeration is enough
            try:
                clo = getattr(reg, "closure", None)
                if clo is not None and getattr(clo, "env", None) is not None and callable(clo):
                    # a hook made by a factory: evaluated in the environment the registration fold built for it (its
                    # lookup table, flags)
                    r = clo(cand, cref)
                else:
                    r = it.call(reg.hook, [cand, cref], closure_env={reg.conv_name: Record("Converter", {})})
                accepted = True
            except Raised:
                accepted = False
            reported = accepted
            ctx.check(not accepted, "closed-enum-rejects-nonmembers", f"hook={reg.hook_name} enum={c.name} value={cand!r}",
                      f"the structure hook {reg.hook_name} registered for the closed enumeration {c.name} accepts the "
                      f"non-member {cand!r} (as {getattr(r, 'fields', r) if accepted else None})", h.rel, reg.lineno,
                      sample={"enum": c.name, "value": repr(cand)})
    if n == 0:
        ctx.ok("closed-enum-rejects-nonmembers", {"class_keyed_hooks_for_closed_enums": 0, "argument": "axiom A1: E(value)"})


_run_c13 = run


def run(ctx: Ctx):  # noqa: F811
    _run_c13(ctx)
    _enum_class_hooks(ctx)


_run_before_converter_precondition = run


def run(ctx: Ctx):  # noqa: F811
    _run_before_converter_precondition(ctx)
    from . import _sitebase as _sb
    _sb.converter_precondition(ctx)
