#!/usr/bin/env python3
"""Regenerates /verif/MANIFEST.json from the table below (kept in one place so it stays valid)."""
import json, os

ROOT = os.path.dirname(os.path.dirname(os.path.abspath(__file__)))

CHECKS = {
    # id: (category, design_ref, technique, text, note)
}

NA = {
    # id: reason
}


def load_tables():
    import importlib.util
    spec = importlib.util.spec_from_file_location("manifest_table", os.path.join(ROOT, "tools", "manifest_table.py"))
    m = importlib.util.module_from_spec(spec)
    spec.loader.exec_module(m)
    return m.CHECKS, m.NA, getattr(m, "FIX_COMMITS", [])


def main():
    checks, na, fixes = load_tables()
    man = {
        "version": 1,
        "setup_cmd": "./vcheck selftest --setup",
        "hooks": {
            "guard": "LSPROTOCOL_VERIF",
            "enable": "none needed: the checks are static analyses of the working tree; no instrumentation is compiled in",
            "baseline_off_cmd": "cd /repo && /venv/bin/python -m pytest -ra -q -p no:cacheprovider --timeout=900 --continue-on-collection-errors",
            "source_commits": fixes,
            "add_only": True,
        },
        "engines": [
            {"name": "pymodel+hooks (E1)", "path": "vlib/pymodel.py", "serves_properties": ["C01", "C02", "C03", "C04", "C09", "C10", "C11", "C12", "C13", "C14", "C15", "C19", "C20"], "kind_free_text": "ast model of types.py/_hooks.py with a typing-faithful type IR"},
            {"name": "metamodel (E2)", "path": "vlib/metamodel.py", "serves_properties": ["C01", "C02", "C03", "C04", "C07", "C09", "C10", "C11", "C12", "C13", "C14"], "kind_free_text": "lsp.json as data + independent statement of the documented mapping + JSON shape algebra"},
            {"name": "hooktree+sites (E3/E4)", "path": "vlib/hooktree.py", "serves_properties": ["C01", "C03", "C13", "C14", "C15"], "kind_free_text": "cattrs dispatch model and abstract interpretation of union hooks over alternative x key-shape worlds"},
            {"name": "microeval (E5)", "path": "vlib/microeval.py", "serves_properties": ["C02", "C09", "C10", "C12", "C20"], "kind_free_text": "whitelisted AST interpreter: constant folding and finite-representative abstract interpretation"},
            {"name": "genlint (E6)", "path": "vlib/genlint.py", "serves_properties": ["C06", "C08", "C16", "C17", "C18", "C19"], "kind_free_text": "syntax-directed lints over generator/ (guards, dominance, for-target liveness, taint, exhaustiveness)"},
            {"name": "rustparse (E7)", "path": "vlib/rustparse.py", "serves_properties": ["C07"], "kind_free_text": "tokeniser + item parser for lib.rs"},
        ],
        "checks": [],
        "not_applicable": [{"property_id": k, "reason": v} for k, v in sorted(na.items())],
        "notes": "All checks are static analyses (python stdlib ast only) of /repo's current working tree; exit 0 ok, 1 violation, 2 analysis error. See DESIGN.md.",
    }
    for pid in sorted(checks):
        cat, ref, tech, text, note = checks[pid]
        man["checks"].append({
            "property_id": pid,
            "quick_cmd": f"./vcheck {pid} --tier quick",
            "thorough_cmd": f"./vcheck {pid} --tier thorough",
            "evidence_file": f"/verif/evidence/{pid}.json",
            "replay_cmd_template": f"./vcheck {pid} --replay {{path}}",
            "engine": "vlib",
            "level_claimed": {"category": cat, "text": text, "design_ref": ref},
            "level_note": note,
            "technique": tech,
        })
    with open(os.path.join(ROOT, "MANIFEST.json"), "w") as f:
        json.dump(man, f, indent=1)
        f.write("\n")
    print("checks:", len(man["checks"]), "not_applicable:", len(man["not_applicable"]))


if __name__ == "__main__":
    main()
