from ..common import Ctx
from ..image import Image


def image(ctx: Ctx) -> Image:
    # cached on the Sources object itself (never keyed by id(): ids are reused after garbage collection)
    im = getattr(ctx.src, "_image", None)
    if im is None:
        im = Image(ctx.src)
        ctx.src._image = im
    return im


def open_enum_without_base(mm, ty, in_union=False):
    """Names of open enumerations (custom values supported) that occur in the type expression without their base
    type next to them: such a position only takes members of the enumeration."""
    k = ty[0]
    if k == "enum" and ty[1] in mm.enums and mm.enum_open(ty[1]) and not in_union:
        yield ty[1]
    elif k == "union":
        for m_ in ty[1]:
            if m_[0] == "enum" and m_[1] in mm.enums and mm.enum_open(m_[1]) and ("prim", mm.enum_base(m_[1])) not in ty[1]:
                yield m_[1]
            elif m_[0] != "enum":
                yield from open_enum_without_base(mm, m_, True)
    elif k in ("seq", "list"):
        yield from open_enum_without_base(mm, ty[1])
    elif k == "map":
        yield from open_enum_without_base(mm, ty[2])
    elif k == "tup":
        for x in ty[1]:
            yield from open_enum_without_base(mm, x)
