"""Harvest seeded changes written by sub-agents: tools/harvest.py <dir with Cxx worktrees> <round>.
Each <dir>/<Cxx>/_seed/change<k>/ is verified (tools/seedtool.py verify) and, if confirmed and applicable to /repo, copied to
/verif/seeded/<Cxx>-<next>/ with a meta.json."""
import json, os, subprocess, sys, shutil, glob
SRC=sys.argv[1].rstrip('/'); ROUND=int(sys.argv[2])
sys.path.insert(0,'/verif/tools')
PY='/venv/bin/python'
props={json.loads(l)['id']:json.loads(l) for l in open('/verif/properties.jsonl')}
def sh(cmd,cwd=None):
    r=subprocess.run(cmd,cwd=cwd,shell=isinstance(cmd,str),capture_output=True,text=True,timeout=1800); return r.returncode,r.stdout+r.stderr
def one(pid):
    wt=f'{SRC}/{pid}'
    out=[]
    sh(['git','-C',wt,'checkout','--','.'])
    existing=[int(os.path.basename(d.rstrip('/')).split('-')[1]) for d in glob.glob(f'/verif/seeded/{pid}-*/')]
    nxt=max(existing)+1
    for k in (1,2,3):
        cd=f'{wt}/_seed/change{k}'
        if not os.path.exists(cd+'/patch.diff') or not os.path.exists(cd+'/demo.py'):
            out.append((pid,k,'missing')); continue
        rc,o=sh([PY,'/verif/tools/seedtool.py','verify',wt,cd])
        try: res=json.loads(o)
        except Exception: out.append((pid,k,'verify-error '+o[-200:])); continue
        if not res.get('ok'):
            out.append((pid,k,'NOT-CONFIRMED '+json.dumps({x:res.get(x) for x in ('demo_clean_rc','applies','tests_rc','demo_patched_rc','tests_tail')}))); continue
        # applies to current /repo?
        rc,o=sh(['git','-C','/repo','apply','--check',cd+'/patch.diff'])
        if rc!=0:
            out.append((pid,k,'does-not-apply-to-current-repo '+o[-150:])); continue
        dst=f'/verif/seeded/{pid}-{nxt}'
        os.makedirs(dst,exist_ok=True)
        shutil.copy(cd+'/patch.diff',dst+'/patch.diff')
        demo=open(cd+'/demo.py').read().replace(wt,'/repo')
        open(dst+'/demo.py','w').write(demo)
        if os.path.exists(cd+'/README.md'): shutil.copy(cd+'/README.md',dst+'/README.md')
        meta={"property":pid,"change":nxt,"round":ROUND,"breaks":props[pid]['title'],"files":res.get('files',[]),
              "origin":"written by an independent sub-agent that saw only the property text and a scratch worktree of /repo (nothing from /verif); round "+str(ROUND)+": see DESIGN.md for what that round's prompt asked for",
              "needs_to_manifest":"see README.md (written by the sub-agent)",
              "confirmed":{"how":"tools/seedtool.py verify: demo passes on the clean tree, patch applies, the pinned test suite passes with it (122 passed), demo fails with it; then reverted","ok":True},
              "detection":{"how":"tools/seedtool.py try / matrix"},
              "demo":f"apply patch.diff to /repo, then `cd /repo && /venv/bin/python /verif/seeded/{pid}-{nxt}/demo.py` exits 1; on the unchanged tree it prints PASS"}
        json.dump(meta,open(dst+'/meta.json','w'),indent=1)
        out.append((pid,k,f'kept as {pid}-{nxt}'))
        nxt+=1
    return out
if __name__=='__main__':
    from concurrent.futures import ThreadPoolExecutor
    pids=[f'C{i:02d}' for i in range(1,21) if i!=5]
    if len(sys.argv)>3: pids=[x for x in pids if x in sys.argv[3].split(',')]
    with ThreadPoolExecutor(10) as ex:
        for res in ex.map(one,pids):
            for r in res: print(*r,flush=True)
