"""C18 -- model loading is lossless, merge is concatenation, invalid models write nothing."""
import ast

from ..common import Ctx, P_MODEL, P_MAIN, P_SCHEMA, AnalysisError
from ..genlint import Module, model_classes, dotted, in_list_values, statement_order, calls_in

META = {
    "level": "other",
    "explanation": (
        "Static analysis of generator/model.py, generator/__main__.py and lsp.schema.json (read as data). "
        "(a) every hand-written __eq__: each self.x / other.x names a declared field of that class (so comparing "
        "never raises AttributeError), the random id_ is never compared, operands are combined only as "
        "`self.f == other.f` conjunctions under an isinstance guard with `return False` otherwise, and the compared "
        "set contains every structural field (all fields except documentation/since/sinceTags/proposed/deprecated "
        "and id_; named exceptions below). (b) loader <-> schema, by walking the schema and the attrs converter "
        "chain in parallel from MetaModel <-> LSPModel: every schema property is a field of the class the chain "
        "instantiates for that definition, every field without default is schema-required, every nested "
        "declaration has a converter that builds it, every kind the schema's Type admits is a key of "
        "convert_to_lsp_type's table, and the in_([...]) name lists equal the schema enums. (c) create_lsp_model "
        "extends every list-valued field of LSPModel, in order, from every further model. (d) gate: in main(), "
        "jsonschema.validate is applied to each loaded document before it is appended to the list handed to "
        "create_lsp_model, is not inside a try, and precedes create_lsp_model, the plugin import and the plugin "
        "call; no write call precedes it; the schema handed to validate constrains the document root (its root key "
        "set, followed back to the json.load of lsp.schema.json and every later item assignment / merge, contains an "
        "assertion keyword, and a root $ref names the MetaModel definition) -- without that the call accepts anything."),
    "trusted_base": ["attrs: a class called with an unknown keyword raises TypeError; converters run before validators",
                     "jsonschema (draft-07): validate raises iff the instance violates an assertion keyword reachable from the schema root"],
    "assumptions": ["plugins are only entered through main()"],
    "not_decided": ["equality of documentation-only differences (by design not structural)",
                    "Request/Notification.params given as an array of types (schema allows it; the loader keeps the raw list)"],
}

ANNOTATION_FIELDS = {"documentation", "since", "sinceTags", "proposed", "deprecated"}
# generation hints, not structure (kept from the reference tree; reason recorded in DESIGN.md C18)
EQ_EXCEPTIONS = {("Enum", "supportsCustomValues"), ("Request", "typeName"), ("Notification", "typeName")}


ASSERTING_KEYWORDS = {"$ref", "type", "properties", "required", "additionalProperties", "allOf", "anyOf", "oneOf", "not",
                      "if", "enum", "const", "patternProperties", "propertyNames", "minProperties", "maxProperties"}


def _schema_constrains_root(ctx: Ctx, mm, order, vi, vcall, vfn):
    """The gate only works if the schema handed to jsonschema.validate says something about the document root: a JSON
    schema without assertion keywords at its root accepts every document.  The value of the schema argument is
    followed backwards through main() and its helpers (assignments, json.load of the schema file, dict displays /
    merges / item assignments, parameters of helpers); its root key set must contain an assertion keyword, and a root
    `$ref` must name the MetaModel definition of lsp.schema.json."""
    env: dict = {}
    rets: dict = {}
    mod_consts = {}
    for st_ in mm.tree.body:
        if isinstance(st_, (ast.Assign, ast.AnnAssign)) and isinstance(getattr(st_, "value", None), ast.Constant) \
                and isinstance(st_.value.value, str):
            for t_ in (st_.targets if isinstance(st_, ast.Assign) else [st_.target]):
                if isinstance(t_, ast.Name):
                    mod_consts[t_.id] = st_.value.value

    def strs_of(node, fn):
        out = set()
        for n in ast.walk(node):
            if isinstance(n, ast.Constant) and isinstance(n.value, str):
                out.add(n.value)
            elif isinstance(n, ast.Name):
                v = env.get((fn.name, n.id))
                if isinstance(v, dict) and v.get("kind") == "call":
                    v = rets.get(v["fn"])
                if isinstance(v, dict) and "strs" in v:
                    out |= v["strs"]
                elif v is None and n.id in mod_consts:
                    out.add(mod_consts[n.id])
        return out

    def schema_file_value():
        try:
            root = ctx.src.json(P_SCHEMA)
        except AnalysisError:
            raise
        if not isinstance(root, dict):
            raise AnalysisError(f"{P_SCHEMA}: root is not an object")
        return {"kind": "schema", "items": {k: (v if isinstance(v, (str, bool, int)) else "<object>") for k, v in root.items()}}

    def ev(node, fn):
        if isinstance(node, ast.Name):
            v = env.get((fn.name, node.id))
            if isinstance(v, dict) and v.get("kind") == "call":
                r = rets.get(v["fn"])
                return r
            return v
        if isinstance(node, ast.Call):
            d = dotted(node.func) or ""
            if d in ("json.load", "json.loads"):
                ss = strs_of(node, fn)
                if any(x.endswith("lsp.schema.json") for x in ss):
                    return schema_file_value()
                return {"kind": "json", "strs": ss}
            if d in mm.functions:
                return {"kind": "call", "fn": d}
            if d in ("dict", "copy.deepcopy", "copy.copy") and node.args:
                base = ev(node.args[0], fn)
                if isinstance(base, dict) and base.get("kind") == "schema":
                    items = dict(base["items"])
                    for kw in node.keywords:
                        if kw.arg is None:
                            o = ev(kw.value, fn)
                            if not (isinstance(o, dict) and o.get("kind") == "schema"):
                                return None
                            items.update(o["items"])
                        else:
                            items[kw.arg] = kw.value.value if isinstance(kw.value, ast.Constant) else "<expr>"
                    return {"kind": "schema", "items": items}
                return None
            if isinstance(node.func, ast.Attribute) and node.func.attr == "copy" and not node.args:
                return ev(node.func.value, fn)
            return {"kind": "other", "strs": strs_of(node, fn)}
        if isinstance(node, ast.Dict):
            items = {}
            for k, v in zip(node.keys, node.values):
                if k is None:
                    o = ev(v, fn)
                    if not (isinstance(o, dict) and o.get("kind") == "schema"):
                        return None
                    items.update(o["items"])
                elif isinstance(k, ast.Constant) and isinstance(k.value, str):
                    items[k.value] = v.value if isinstance(v, ast.Constant) else "<expr>"
                else:
                    return None
            return {"kind": "schema", "items": items}
        if isinstance(node, ast.BinOp) and isinstance(node.op, ast.BitOr):
            a, b = ev(node.left, fn), ev(node.right, fn)
            if all(isinstance(x, dict) and x.get("kind") == "schema" for x in (a, b)):
                return {"kind": "schema", "items": {**a["items"], **b["items"]}}
            return None
        if isinstance(node, ast.Constant):
            return {"kind": "other", "strs": {node.value} if isinstance(node.value, str) else set()}
        return {"kind": "other", "strs": strs_of(node, fn)}

    def const(node):
        if isinstance(node, ast.Constant):
            return node.value
        if isinstance(node, ast.Name) and node.id in mod_consts:
            return mod_consts[node.id]          # a hoisted module-level string constant
        return "<expr>"

    for i_, st, c, fn in order:
        if i_ > vi:
            break
        # parameters of helpers called from this statement
        if not isinstance(st, (ast.For, ast.If, ast.Try, ast.With, ast.While)):
            for call in calls_in(st):
                d = dotted(call.func)
                if d in mm.functions and d != fn.name:
                    prm = [a.arg for a in mm.functions[d].args.args]
                    for pn, a in zip(prm, call.args):
                        env[(d, pn)] = ev(a, fn)
                    for kw in call.keywords:
                        if kw.arg in prm:
                            env[(d, kw.arg)] = ev(kw.value, fn)
        if i_ == vi:
            break
        if isinstance(st, (ast.Assign, ast.AnnAssign)) and getattr(st, "value", None) is not None:
            tgts = st.targets if isinstance(st, ast.Assign) else [st.target]
            for t in tgts:
                if isinstance(t, ast.Name):
                    env[(fn.name, t.id)] = ev(st.value, fn)
                elif isinstance(t, ast.Subscript) and isinstance(t.value, ast.Name):
                    cur = env.get((fn.name, t.value.id))
                    if isinstance(cur, dict) and cur.get("kind") == "schema":
                        if isinstance(t.slice, ast.Constant) and isinstance(t.slice.value, str):
                            cur["items"][t.slice.value] = const(st.value)
                        else:
                            env[(fn.name, t.value.id)] = None
        elif isinstance(st, ast.Return) and st.value is not None:
            rets[fn.name] = ev(st.value, fn)
            # the call sites waiting for this helper's result get it now (the helper may be called again later with
            # other arguments)
            for k_, v_ in list(env.items()):
                if isinstance(v_, dict) and v_.get("kind") == "call" and v_.get("fn") == fn.name:
                    r_ = rets[fn.name]
                    env[k_] = dict(r_, items=dict(r_["items"])) if isinstance(r_, dict) and "items" in r_ else r_
        elif isinstance(st, ast.With):
            for item in st.items:
                if isinstance(item.optional_vars, ast.Name):
                    env[(fn.name, item.optional_vars.id)] = ev(item.context_expr, fn)
        elif isinstance(st, ast.Expr) and isinstance(st.value, ast.Call) and isinstance(st.value.func, ast.Attribute) \
                and isinstance(st.value.func.value, ast.Name):
            call = st.value
            cur = env.get((fn.name, call.func.value.id))
            if isinstance(cur, dict) and cur.get("kind") == "schema":
                m = call.func.attr
                if m == "setdefault" and len(call.args) == 2 and isinstance(call.args[0], ast.Constant):
                    cur["items"].setdefault(call.args[0].value, const(call.args[1]))
                elif m == "update" and len(call.args) == 1:
                    o = ev(call.args[0], fn)
                    if isinstance(o, dict) and o.get("kind") == "schema":
                        cur["items"].update(o["items"])
                    else:
                        env[(fn.name, call.func.value.id)] = None
                    for kw in call.keywords:
                        if kw.arg:
                            cur["items"][kw.arg] = const(kw.value)
                elif m in ("pop", "clear", "popitem", "__delitem__", "__setitem__"):
                    env[(fn.name, call.func.value.id)] = None
        elif isinstance(st, ast.Delete):
            for t in st.targets:
                if isinstance(t, ast.Subscript) and isinstance(t.value, ast.Name):
                    env[(fn.name, t.value.id)] = None
    if len(vcall.args) < 2 and not any(k.arg == "schema" for k in vcall.keywords):
        raise AnalysisError(f"{P_MAIN}: jsonschema.validate is not given a schema")
    sarg = vcall.args[1] if len(vcall.args) >= 2 else next(k.value for k in vcall.keywords if k.arg == "schema")
    sv = ev(sarg, vfn)
    if not (isinstance(sv, dict) and sv.get("kind") == "schema"):
        raise AnalysisError(f"{P_MAIN}:{vcall.lineno}: cannot determine the schema handed to jsonschema.validate "
                            f"(`{ast.unparse(sarg)}`)")
    items = sv["items"]
    asserting = sorted(set(items) & ASSERTING_KEYWORDS)
    ctx.check(bool(asserting), "gate-schema-constrains-document", "main:validate:schema-root",
              f"the schema handed to jsonschema.validate has the root keys {sorted(items)}: none of them constrains the "
              "document, so every model file passes validation and the generator runs on schema-violating models",
              P_MAIN, vcall.lineno, sample={"root_keys": sorted(items)})
    if "$ref" in items:
        ref = items["$ref"]
        defs = ctx.src.json(P_SCHEMA).get("definitions", {})
        ok = isinstance(ref, str) and ref.startswith("#/definitions/") and ref.split("/")[-1] in defs
        ctx.check(ok and ref == "#/definitions/MetaModel", "gate-schema-constrains-document", "main:validate:schema-root-ref",
                  f"the root of the validation schema refers to {ref!r}; a model document is the schema's MetaModel",
                  P_MAIN, vcall.lineno)


def check_eq(ctx: Ctx, cname: str, info: dict, it, classes):
    """Semantic check of one hand-written __eq__ (E5): it is evaluated on abstract instances whose fields hold
    distinct sentinels.  (1) a foreign operand gives False (never raises); (2) two instances equal in every field
    compare equal, also when only the random id_ differs; (3) instances that differ in exactly one structural field
    compare unequal -- for list-valued fields the difference is a prefix, a permutation and a multiplicity change;
    (4) nothing raises.  Independent of how the method is written (guard clause, helper, early return)."""
    from ..microeval import Record, Raised
    fn = info["methods"].get("__eq__")
    fields = info["fields"]
    if fn is None:
        ctx.fail("eq-defined", f"class={cname}", "no hand-written __eq__ (attrs' generated one would compare id_)", P_MODEL,
                 info["node"].lineno)
        return
    ctx.fn(f"model.py:{cname}.__eq__")
    listy = {f for f, mf in fields.items() if mf.converter is not None and isinstance(mf.converter, ast.Call)
             and dotted(mf.converter.func) == "list_converter"}

    def inst(**over):
        vals = {}
        for i_, f in enumerate(fields):
            vals[f] = [f"{f}-1", f"{f}-2"] if f in listy else f"{f}-value"
        vals.update(over)
        return Record(cname, vals, classes)

    def call(a, b):
        try:
            r = it.call(fn, [a, b])
        except Raised as e:
            return ("raises", e.exc_name)
        return r
    base = inst()
    for label, other in (("foreign-object", Record("SomethingElse", {}, classes)), ("none", None), ("string", "x")):
        r = call(base, other)
        ctx.check(r is False or r is NotImplemented, "eq-never-raises", f"{cname}.__eq__:{label}",
                  f"{cname}.__eq__(<{label}>) gives {r!r}; it must return False", P_MODEL, fn.lineno)
    r = call(base, inst())
    ctx.check(r is True, "eq-same-content-equal", f"{cname}.__eq__:identical",
              f"two {cname} instances with identical content compare as {r!r} (comparing two loads of one document "
              f"{'raises' if isinstance(r, tuple) else 'gives unequal'})", P_MODEL, fn.lineno,
              sample={"class": cname, "case": "identical content"})
    if "id_" in fields:
        r = call(base, inst(id_="another-random-id"))
        ctx.check(r is True, "eq-ignores-random-id", f"{cname}.__eq__:id_",
                  f"instances that differ only in the random id_ compare as {r!r}: two loads of one document are unequal",
                  P_MODEL, fn.lineno)
    want = [f for f in fields if f not in ANNOTATION_FIELDS and f != "id_" and (cname, f) not in EQ_EXCEPTIONS]
    for f in want:
        variants = [("changed", f"{f}-other")]
        if f in listy:
            variants = [("element-changed", [f"{f}-1", f"{f}-X"]), ("prefix", [f"{f}-1"]), ("extended", [f"{f}-1", f"{f}-2", f"{f}-3"]),
                        ("permuted", [f"{f}-2", f"{f}-1"]), ("multiplicity", [f"{f}-1", f"{f}-1", f"{f}-2"])]
        for label, val in variants:
            for a, b, side in ((base, inst(**{f: val}), "right"), (inst(**{f: val}), base, "left")):
                r = call(a, b)
                ctx.check(r is False, "eq-compares-structure", f"{cname}.{f}:{label}",
                          f"two {cname} instances that differ only in `{f}` ({label}) compare as {r!r}: structurally "
                          "different documents compare equal" if not isinstance(r, tuple) else
                          f"comparing {cname} instances that differ in `{f}` raises {r[1]}", P_MODEL, fn.lineno,
                          sample={"class": cname, "field": f, "variant": label})


def conv_target(expr):
    """converter expression -> ('class', Name) | ('type',) | ('mapkey',) | None"""
    if expr is None:
        return None
    if isinstance(expr, ast.Call) and dotted(expr.func) in ("list_converter", "partial_apply") and len(expr.args) == 1:
        n = dotted(expr.args[0])
        if n == "convert_to_lsp_type":
            return ("type",)
        return ("class", n)
    if isinstance(expr, ast.Name):
        if expr.id == "convert_map_key":
            return ("mapkey",)
        if expr.id == "convert_to_lsp_type":
            return ("type",)
    if isinstance(expr, ast.Lambda) and isinstance(expr.body, ast.Call):
        n = dotted(expr.body.func)
        if n and n[0].isupper():
            return ("class", n)
        if n in ("str", "int"):
            return None
    return ("unknown", ast.unparse(expr))


def _fold_readback(ctx: Ctx, mod, classes, extra_globals):
    """Loading is lossless, decided on probe documents: the model classes are emulated in the micro-evaluator (a
    constructor call binds the keywords, applies each field's own converter expression -- evaluated from the source -- and
    fills defaults; validators are not run), a schema-valid probe for every kind of type expression and for a structure is
    loaded through convert_to_lsp_type / the class, and the model read back (fields other than id_, unset ones left out)
    must equal the probe: every declaration, property and type expression, in order.  A converter written as a function
    of its own (flattening, de-duplicating, sorting what it is given) is decided here, whatever its shape."""
    from ..microeval import Interp, Record, ClassRef, Raised
    from ..microeval import ModuleRef

    class _Validators:
        """attrs.validators: any validator constructor gives an opaque validator (validators are not run by the fold)"""
        def e5_attr(self, a):
            return ("host", lambda *a_, **k_: Record("validator", {"name": a}))
    fields_host = extra_globals["attrs"].attrs["fields"]
    attrs_stub = ModuleRef("attrs", attrs={"fields": fields_host, "validators": _Validators(), "NOTHING": ("NOTHING",),
                                           "field": ("host", lambda **kw: Record("field_spec", kw)),
                                           "Factory": ("host", lambda f_, **k_: Record("Factory", {"factory": f_}))})
    attr_stub = ModuleRef("attr", attrs={**attrs_stub.attrs, "ib": attrs_stub.attrs["field"]})
    it = Interp(mod.tree, name=P_MODEL, extra_globals={"attrs": attrs_stub, "attr": attr_stub})
    it.globals["attrs"], it.globals["attr"] = attrs_stub, attr_stub
    import itertools as _itc
    _ids = _itc.count(1)
    it.globals["uuid"] = ModuleRef("uuid", attrs={"uuid4": ("host", lambda: f"<uuid {next(_ids)}>")})
    it.load_module(mod.tree)          # module-level helpers that build fields (functools.partial(attrs.field, ...)) fold now

    _specs = {}

    def spec_of(cn, mf):
        """(has_default, default thunk, converter value | None) of a field, from its definition evaluated as written
        (attrs.field(...) directly, through a helper, or a plain default value)"""
        key = (cn, mf.name)
        if key in _specs:
            return _specs[key]
        v = mf.node.value
        if v is None:
            out = (False, None, None)
        else:
            try:
                val = it.eval(v, it.globals)
            except (AnalysisError, Raised) as e:
                raise AnalysisError(f"{P_MODEL}:{mf.node.lineno}: the definition of {cn}.{mf.name} does not fold ({e})")
            if isinstance(val, Record) and val.cls_name == "field_spec":
                kw = val.fields
                conv = kw.get("converter")
                if "factory" in kw:
                    out = (True, (lambda f_=kw["factory"]: it.apply(f_, [], {})), conv)
                elif "default" in kw and isinstance(kw["default"], Record) and kw["default"].cls_name == "Factory":
                    out = (True, (lambda f_=kw["default"].fields["factory"]: it.apply(f_, [], {})), conv)
                elif "default" in kw and kw["default"] != ("NOTHING",):
                    out = (True, (lambda d_=kw["default"]: d_), conv)
                else:
                    out = (False, None, conv)
            else:
                out = (True, (lambda d_=val: d_), None)
        _specs[key] = out
        return out

    def make_ctor(cn):
        flds = classes[cn]["fields"]

        def ctor(*a, **kw):
            if a:
                raise AnalysisError(f"{P_MODEL}: positional construction of {cn} in the loader")
            extra = sorted(set(kw) - set(flds))
            if extra:
                raise Raised("TypeError", (f"{cn}() got an unexpected keyword argument {extra[0]!r}",))
            vals = {}
            for fname, mf in flds.items():
                has_default, dflt, conv = spec_of(cn, mf)
                if fname in kw:
                    v = kw[fname]
                elif has_default:
                    v = dflt()
                else:
                    raise Raised("TypeError", (f"{cn}() missing {fname}",))
                if conv is not None:
                    v = it.apply(conv, [v], {})       # attrs runs the converter on defaults too
                vals[fname] = v
            r = Record(cn, vals)
            r.given = {k for k in kw}
            return r
        return ctor
    for cn in classes:
        ref = it.globals.get(cn)
        if isinstance(ref, ClassRef):
            ref.call = make_ctor(cn)

    def rb(v):
        if isinstance(v, Record):
            return {k: rb(x) for k, x in v.fields.items() if k != "id_" and x is not None}
        if isinstance(v, (list, tuple)):
            return [rb(x) for x in it.iterate(v)]
        if hasattr(v, "__iter__") and not isinstance(v, (str, dict)):
            return [rb(x) for x in it.iterate(v)]
        return v

    def diff(a, b, path="$"):
        if type(a) is not type(b) and not (isinstance(a, (list, tuple)) and isinstance(b, (list, tuple))):
            return f"{path}: document has {a!r}, model has {b!r}"
        if isinstance(a, dict):
            for k in a:
                if k not in b:
                    return f"{path}.{k}: missing from the model"
                d_ = diff(a[k], b[k], f"{path}.{k}")
                if d_:
                    return d_
            for k in b:
                if k not in a:
                    return f"{path}.{k}: the model has {b[k]!r}, the document has no such entry"
            return None
        if isinstance(a, list):
            if len(a) != len(b):
                return f"{path}: the document lists {len(a)} entries, the model {len(b)}"
            for i_, (x, y) in enumerate(zip(a, b)):
                d_ = diff(x, y, f"{path}[{i_}]")
                if d_:
                    return d_
            return None
        return None if a == b else f"{path}: document has {a!r}, model has {b!r}"

    def B(n):
        return {"kind": "base", "name": n}

    def R(n):
        return {"kind": "reference", "name": n}
    type_probes = {
        "or nested in or": {"kind": "or", "items": [B("string"), {"kind": "or", "items": [B("integer"), B("null")]}]},
        "or with a repeated member": {"kind": "or", "items": [B("string"), R("A"), B("string")]},
        "or not in sorted order": {"kind": "or", "items": [R("Zed"), R("Alpha"), B("null")]},
        "array of or": {"kind": "array", "element": {"kind": "or", "items": [B("string"), B("null")]}},
        "array of array": {"kind": "array", "element": {"kind": "array", "element": B("uinteger")}},
        "map to array": {"kind": "map", "key": B("string"), "value": {"kind": "array", "element": B("integer")}},
        "map with reference key": {"kind": "map", "key": R("K"), "value": B("string")},
        "tuple": {"kind": "tuple", "items": [B("integer"), B("integer")]},
        "and": {"kind": "and", "items": [R("B"), R("A")]},
        "literal": {"kind": "literal", "value": {"properties": [
            {"name": "p", "type": B("string"), "optional": True},
            {"name": "q", "type": {"kind": "or", "items": [B("string"), B("null")]}}]}},
        "empty literal": {"kind": "literal", "value": {"properties": []}},
        "stringLiteral": {"kind": "stringLiteral", "value": "x"},
    }
    ctl = it.globals.get("convert_to_lsp_type")
    if ctl is None:
        raise AnalysisError(f"{P_MODEL}: convert_to_lsp_type not found")
    ctx.fn("model.py:convert_to_lsp_type and the converters of the model classes (folded on probe documents)")
    import copy as _copy
    n = 0
    for label, doc in type_probes.items():
        given = _copy.deepcopy(doc)
        try:
            node = mod.functions["convert_to_lsp_type"]
            r = it.call(node, [], given) if node.args.kwarg is not None and not node.args.args else it.call(node, [given])
        except Raised as e:
            ctx.fail("load-readback-equals-document", f"type:{label}", f"loading the type expression `{label}` raises {e.exc_name}",
                     P_MODEL, None)
            continue
        n += 1
        d_ = diff(doc, rb(r))
        ctx.check(d_ is None, "load-readback-equals-document", f"type:{label}",
                  f"the type expression `{label}` does not read back as written: {d_}", P_MODEL, None,
                  sample={"probe": label})
    s_doc = {"name": "S", "properties": [{"name": "b", "type": B("string")},
                                         {"name": "a", "type": type_probes["or nested in or"], "optional": True}],
             "extends": [R("Y"), R("X")], "mixins": [R("M")], "documentation": "doc", "since": "3.17.0"}
    sref = it.globals.get("Structure")
    if isinstance(sref, ClassRef) and "Structure" in classes:
        try:
            r = sref.call(**_copy.deepcopy(s_doc))
            n += 1
            d_ = diff(s_doc, rb(r))
            ctx.check(d_ is None, "load-readback-equals-document", "structure",
                      f"a structure declaration does not read back as written: {d_}", P_MODEL, None)
        except Raised as e:
            ctx.fail("load-readback-equals-document", "structure", f"loading a structure declaration raises {e.exc_name}", P_MODEL, None)
    ctx.floor("probe documents loaded and read back", n, 12)


def run(ctx: Ctx):
    mod = Module(P_MODEL, ctx.src.text(P_MODEL))
    classes = model_classes(mod)
    ctx.floor("attrs model classes", len(classes), 18)
    from ..microeval import Interp
    eq_it = Interp(name=P_MODEL)
    eq_classes = {cn: dict(inf["methods"]) for cn, inf in classes.items()}
    eq_it.classes = eq_classes
    for st in mod.tree.body:        # module-level helper functions the methods may call
        if isinstance(st, ast.FunctionDef):
            from ..microeval import Closure, ClassRef
            eq_it.globals[st.name] = Closure(st, None, eq_it)
    for cn in classes:
        from ..microeval import ClassRef
        eq_it.globals[cn] = ClassRef(cn)
    for cname, info in classes.items():
        check_eq(ctx, cname, info, eq_it, eq_classes)

    from ..microeval import Interp as _Interp
    const_it = _Interp(mod.tree, name=P_MODEL)      # module-level constants (hoisted name lists)
    # ------------------------------------------------------------------ (b) loader <-> schema
    schema = ctx.src.json(P_SCHEMA)
    defs = schema.get("definitions")
    if not isinstance(defs, dict) or "MetaModel" not in defs:
        raise AnalysisError(f"{P_SCHEMA}: definitions/MetaModel missing")
    # convert_to_lsp_type table
    ctl = mod.functions.get("convert_to_lsp_type")
    if ctl is None:
        raise AnalysisError(f"{P_MODEL}: convert_to_lsp_type not found")
    # kind -> class: convert_to_lsp_type is evaluated (E5) once per kind of the schema's TypeKind with the model classes
    # stubbed (a call records the class); attrs.fields(<class>).<field>.validator.options is answered from the parsed
    # class bodies, so a table derived from the classes' own `kind` validators folds as well as a literal one
    from ..microeval import Interp as _KI, Record as _KRec, ModuleRef as _KMod, Raised as _KRaised, ClassRef as _KCR

    def _fields_stub(cref):
        cn_ = getattr(cref, "name", None)
        if cn_ not in classes:
            raise _KRaised("TypeError", ("not an attrs class",))
        out = {}
        for fname_, mf in classes[cn_]["fields"].items():
            opts = in_list_values(mf.validator, const_it)
            out[fname_] = _KRec("Attribute", {"name": fname_, "validator": _KRec("Validator", {"options": opts}) if opts is not None
                                              else None})
        return _KRec("Fields", out)
    kit = _KI(mod.tree, name=P_MODEL, extra_globals={"attrs": _KMod("attrs", attrs={"fields": ("host", _fields_stub)}),
                                                      "attr": _KMod("attr", attrs={"fields": ("host", _fields_stub)})})
    for cn_ in classes:
        ref_ = kit.globals.get(cn_)
        if isinstance(ref_, _KCR):
            ref_.call = (lambda _cn: (lambda *a, **kw: _KRec(_cn, kw)))(cn_)
    _fold_readback(ctx, mod, classes, {"attrs": _KMod("attrs", attrs={"fields": ("host", _fields_stub)}),
                                       "attr": _KMod("attr", attrs={"fields": ("host", _fields_stub)})})
    lut = {}
    type_kinds = defs.get("TypeKind", {}).get("enum") or []
    for k_ in type_kinds:
        try:
            payload = {"kind": k_, "name": "x", "value": "v", "element": None, "items": [], "key": None}
            if ctl.args.kwarg is not None and not ctl.args.args:
                r_ = kit.call(ctl, [], payload)
            else:
                r_ = kit.call(ctl, [payload])
        except _KRaised:
            continue
        if isinstance(r_, _KRec):
            lut[k_] = r_.cls_name
    ctx.floor("convert_to_lsp_type table entries", len(lut), 8)
    ctx.fn("model.py:convert_to_lsp_type")

    def ref_of(s):
        if "$ref" in s:
            return s["$ref"].rsplit("/", 1)[1]
        return None

    seen = set()

    def walk(dname, cname, via):
        if (dname, cname) in seen:
            return
        seen.add((dname, cname))
        d = defs.get(dname)
        if d is None:
            raise AnalysisError(f"{P_SCHEMA}: definition {dname} missing")
        if cname not in classes:
            ctx.fail("schema-def-has-class", f"def={dname}", f"the loader maps {dname} to {cname}, which is not an "
                     f"attrs class of model.py (via {via})", P_MODEL)
            return
        fields = classes[cname]["fields"]
        props = d.get("properties", {})
        for p, s in sorted(props.items()):
            if p not in fields:
                ctx.fail("schema-property-is-field", f"{dname}.{p}",
                         f"schema-valid property {dname}.{p} is not a field of model.{cname}: loading a document "
                         f"that uses it raises TypeError (unexpected keyword)", P_MODEL, classes[cname]["node"].lineno)
                continue
            ctx.ok("schema-property-is-field", {"schema": f"{dname}.{p}", "model": f"{cname}.{p}"})
            f = fields[p]
            # value lists
            if "const" in s:
                vals = in_list_values(f.validator, const_it)
                ctx.check(vals == [s["const"]], "name-lists-agree", f"{cname}.{p}",
                          f"{cname}.{p} accepts {vals}, schema const is {s['const']!r}", P_MODEL, f.node.lineno)
            tgt_schema = ref_of(s)
            members = [s] + list(s.get("anyOf", []))
            arr = None
            for m in members:
                if m.get("type") == "array" and isinstance(m.get("items"), dict) and ref_of(m["items"]):
                    arr = ref_of(m["items"])
                if ref_of(m) and tgt_schema is None:
                    tgt_schema = ref_of(m)
            if tgt_schema is None and arr is not None and "anyOf" not in s:
                tgt_schema = arr
            if tgt_schema is None:
                continue
            sd = defs.get(tgt_schema, {})
            if "enum" in sd:       # string enum definition (BaseTypes, MessageDirection)
                vals = in_list_values(f.validator, const_it)
                ctx.check(vals is not None and sorted(vals) == sorted(sd["enum"]), "name-lists-agree", f"{cname}.{p}",
                          f"{cname}.{p} accepts {vals}; schema {tgt_schema} allows {sd['enum']}", P_MODEL, f.node.lineno)
                continue
            ct = conv_target(f.converter)
            if ct is None:
                ctx.fail("nested-declarations-built", f"{cname}.{p}",
                         f"{cname}.{p} holds {tgt_schema} declarations but has no converter: they stay raw dicts",
                         P_MODEL, f.node.lineno)
                continue
            if ct[0] == "unknown":
                # a converter written as a function of its own: what it builds is decided by the read-back fold on probe
                # documents (rule load-readback-equals-document); the schema walk continues through the generic table
                fnode = mod.functions.get(ct[1]) if isinstance(f.converter, ast.Name) else None
                if fnode is None:
                    raise AnalysisError(f"{P_MODEL}:{f.node.lineno}: converter {ct[1]} of {cname}.{p} is not understood")
                ctx.ok("nested-declarations-built", {"field": f"{cname}.{p}", "converter": ct[1], "decided_by": "read-back fold"})
                if tgt_schema == "Type" or any(isinstance(n_, ast.Name) and n_.id == "convert_to_lsp_type" for n_ in ast.walk(fnode)):
                    walk_type(f"{cname}.{p}")
                continue
            ctx.ok("nested-declarations-built")
            if ct[0] == "class":
                walk(tgt_schema, ct[1], f"{cname}.{p}")
            elif ct[0] == "type":
                if tgt_schema != "Type":
                    # a concrete type definition reached through the generic table
                    pass
                walk_type(f"{cname}.{p}")
            elif ct[0] == "mapkey":
                walk_mapkey(tgt_schema)
        for f in fields.values():
            if not f.has_default and f.name != "id_":
                ctx.check(f.name in (d.get("required") or []), "required-fields-are-schema-required", f"{cname}.{f.name}",
                          f"model.{cname}.{f.name} has no default but the schema does not require {dname}.{f.name}: "
                          "a schema-valid document without it raises TypeError", P_MODEL, f.node.lineno)
        for r in d.get("required") or []:
            ctx.check(r in fields, "schema-property-is-field", f"{dname}.{r}:required",
                      f"required {dname}.{r} is not a field of {cname}", P_MODEL)

    type_walked = []

    def walk_type(via):
        if type_walked:
            return
        type_walked.append(via)
        t = defs.get("Type")
        if not t or "anyOf" not in t:
            raise AnalysisError(f"{P_SCHEMA}: definitions/Type.anyOf missing")
        for m in t["anyOf"]:
            dn = ref_of(m)
            kind = defs[dn]["properties"]["kind"].get("const")
            cn = lut.get(kind)
            if cn is None:
                ctx.fail("schema-kind-is-loadable", f"kind={kind}",
                         f"the schema's Type admits kind '{kind}' ({dn}) but convert_to_lsp_type has no entry for it: "
                         "loading raises ValueError('Unknown LSP type')", P_MODEL, ctl.lineno)
                continue
            ctx.ok("schema-kind-is-loadable", {"kind": kind, "class": cn})
            walk(dn, cn, f"convert_to_lsp_type[{kind}]")
        kinds = defs.get("TypeKind", {}).get("enum", [])
        for k in lut:
            ctx.check(k in kinds, "schema-kind-is-loadable", f"lut:{k}", f"table kind '{k}' is not a schema TypeKind", P_MODEL)

    def walk_mapkey(dname):
        d = defs[dname]
        for m in d.get("anyOf", []):
            if ref_of(m):
                walk(ref_of(m), "ReferenceMapKeyType", "convert_map_key")
            else:
                names = m["properties"]["name"].get("enum")
                f = classes.get("BaseMapKeyType", {}).get("fields", {}).get("name")
                vals = in_list_values(f.validator, const_it) if f else None
                ctx.check(vals is not None and sorted(vals) == sorted(names), "name-lists-agree", "BaseMapKeyType.name",
                          f"BaseMapKeyType.name accepts {vals}; schema allows {names}", P_MODEL)

    walk("MetaModel", "LSPModel", "root")
    ctx.floor("schema definition <-> model class pairs", len(seen), 18)
    ctx.extra["schema_model_pairs"] = sorted(f"{a}<->{b}" for a, b in seen)

    # ------------------------------------------------------------------ (c) merge
    # create_lsp_model is executed in the micro-evaluator on three synthetic documents with LSPModel stubbed: the
    # result must be the first document's model extended, in order, by the others' declarations, for every
    # list-valued field; the caller's documents must be left untouched and a second load must give the same model.
    from ..microeval import Interp as _I2, Record as _Rec, ClassRef as _CR, Raised as _Raised
    import copy as _copy
    clm = mod.functions.get("create_lsp_model")
    if clm is None:
        raise AnalysisError(f"{P_MODEL}: create_lsp_model not found")
    ctx.fn("model.py:create_lsp_model")
    lsp_fields = classes["LSPModel"]["fields"]
    list_fields = [n for n, f in lsp_fields.items()
                   if isinstance(f.converter, ast.Call) and dotted(f.converter.func) == "list_converter"]
    ctx.floor("list-valued LSPModel fields", len(list_fields), 5)
    docs = []
    for di in range(3):
        # later documents re-declare something the first one has (`shared`) and repeat an entry of their own: a merge
        # is concatenation, not a set union
        d = {n: [f"{n}-{di}-a", f"{n}-{di}-b", f"{n}-shared"] + ([f"{n}-{di}-a"] if di == 2 else []) for n in list_fields}
        d["metaData"] = {"version": f"v{di}"}
        docs.append(d)
    pristine = _copy.deepcopy(docs)

    def mk_model(**kw):
        missing = [n for n in lsp_fields if n not in kw]
        if missing:
            raise _Raised("TypeError", (f"missing {missing}",))
        # list-valued fields go through the module's own list_converter (folded): whether the model gets a list of
        # its own or the caller's is the converter's doing
        return _Rec("LSPModel", {k: (listconv(v) if k in list_fields and isinstance(v, list) else v) for k, v in kw.items()})
    mit = _I2(mod.tree, name=P_MODEL)
    mit.globals["LSPModel"] = _CR("LSPModel", "attrs", call=mk_model)
    lc = mit.globals.get("list_converter")
    if lc is None:
        raise AnalysisError(f"{P_MODEL}: list_converter not found")
    try:
        listconv_c = mit.apply(lc, [("host", lambda **kw: kw)], {})
    except _Raised as e:
        raise AnalysisError(f"{P_MODEL}: list_converter raises {e.exc_name} when folded")

    def listconv(v):
        out = mit.apply(listconv_c, [v], {})
        return out if isinstance(out, list) else list(mit.iterate(out))
    results = []
    for _round in range(2):
        try:
            r = mit.call(clm, [docs])
        except _Raised as e:
            ctx.fail("merge-extends-all", "create_lsp_model:raises", f"create_lsp_model raises {e.exc_name} on three documents", P_MODEL, clm.lineno)
            r = None
        results.append(r)
    r = results[0]
    if isinstance(r, _Rec):
        for n in list_fields:
            want = [x for d in pristine for x in d[n]]
            got = r.fields.get(n)
            ctx.check(got == want, "merge-extends-all", f"LSPModel.{n}",
                      f"loading three documents gives {n} = {got}; expected the first document's list extended in order by the "
                      f"others': {want}", P_MODEL, clm.lineno, sample={"field": n, "merged": got})
        ctx.check(r.fields.get("metaData") == pristine[0]["metaData"], "merge-extends-all", "LSPModel.metaData",
                  "the merged model does not keep the first document's metaData", P_MODEL, clm.lineno)
        ctx.check(docs == pristine, "merge-leaves-documents-untouched", "create_lsp_model:inputs",
                  "create_lsp_model modifies the documents it is given: loading them again gives a different model",
                  P_MODEL, clm.lineno)
        r2 = results[1]
        same = isinstance(r2, _Rec) and all(r2.fields.get(n) == r.fields.get(n) for n in list_fields)
        ctx.check(same, "merge-leaves-documents-untouched", "create_lsp_model:second-load",
                  "a second load of the same documents gives a different model", P_MODEL, clm.lineno)
    # exactly two documents (the common "base + proposed" invocation)
    try:
        two = mit.call(clm, [_copy.deepcopy(pristine[:2])])
        for n in list_fields:
            want2 = [x for d in pristine[:2] for x in d[n]]
            got2 = two.fields.get(n) if isinstance(two, _Rec) else None
            ctx.check(got2 == want2, "merge-extends-all", f"LSPModel.{n}:two-documents",
                      f"loading two documents gives {n} = {got2}; expected {want2}", P_MODEL, clm.lineno)
    except _Raised as e:
        ctx.fail("merge-extends-all", "create_lsp_model:two-documents", f"create_lsp_model raises {e.exc_name} on two documents",
                 P_MODEL, clm.lineno)
    # a first document whose lists are empty (an extension-only setup): the later documents fill the model, not the
    # first document itself
    e_docs = [{**{n: [] for n in list_fields}, "metaData": {"version": "v0"}}, _copy.deepcopy(pristine[1])]
    e_pristine = _copy.deepcopy(e_docs)
    try:
        e1 = mit.call(clm, [e_docs])
        e2 = mit.call(clm, [e_docs])
        ctx.check(e_docs == e_pristine, "merge-leaves-documents-untouched", "create_lsp_model:inputs:empty-first",
                  "create_lsp_model writes the later documents' declarations into a first document whose lists are empty",
                  P_MODEL, clm.lineno)
        ctx.check(isinstance(e1, _Rec) and isinstance(e2, _Rec) and
                  all(e1.fields.get(n) == e2.fields.get(n) == e_pristine[1][n] for n in list_fields),
                  "merge-leaves-documents-untouched", "create_lsp_model:second-load:empty-first",
                  "two loads of the same documents (the first with empty lists) give different models", P_MODEL, clm.lineno)
    except _Raised as e:
        ctx.fail("merge-extends-all", "create_lsp_model:empty-first", f"create_lsp_model raises {e.exc_name} when the first "
                 "document has empty lists", P_MODEL, clm.lineno)
    try:
        single = mit.call(clm, [[_copy.deepcopy(pristine[0])]])
        ok1 = isinstance(single, _Rec) and all(single.fields.get(n) == pristine[0][n] for n in list_fields)
    except _Raised:
        ok1 = False
    ctx.check(ok1, "merge-extends-all", "create_lsp_model:single", "a single document is not loaded as itself", P_MODEL, clm.lineno)

    # ------------------------------------------------------------------ (d) gate
    mm = Module(P_MAIN, ctx.src.text(P_MAIN))
    main = mm.functions.get("main")
    if main is None:
        raise AnalysisError(f"{P_MAIN}: main not found")
    ctx.fn("__main__.py:main")

    # main() with calls to helper functions of the same module expanded in place (so that the order of effects is
    # the run-time order however the code is split into functions)
    def expanded(fn, depth=0, ctxs=()):
        out = []
        for _i, st, c in statement_order(fn):
            compound = isinstance(st, (ast.For, ast.If, ast.Try, ast.With, ast.While))
            out.append((st, ctxs + c, fn))
            if compound or depth >= 3:
                continue
            for call in calls_in(st):
                d = dotted(call.func)
                if d in mm.functions and d != fn.name:
                    out.extend(expanded(mm.functions[d], depth + 1, ctxs + c + ((st, "call:" + d),)))
        return out
    order = [(i_, st, c, fn) for i_, (st, c, fn) in enumerate(expanded(main))]

    def simple_calls(st):
        return [] if isinstance(st, (ast.For, ast.If, ast.Try, ast.With, ast.While)) else list(calls_in(st))

    def first(pred):
        for i_, st, c, fn in order:
            for call in simple_calls(st):
                if pred(call):
                    return i_, st, c, call, fn
        return None
    # a validation point: jsonschema.validate(doc, schema), or the same thing spelled out with a validator object --
    # V = <Validator>(schema); V.validate(doc)  /  err = best_match(V.iter_errors(doc)); if err is not None: raise err --
    # which is viewed as the call validate(doc, schema)
    _views = {}

    def validate_view(call, f):
        if id(call) in _views:
            return _views[id(call)]
        d = dotted(call.func) or ""
        out = None
        if d.endswith("jsonschema.validate") or d == "validate":
            out = call
        elif isinstance(call.func, ast.Attribute) and call.func.attr in ("validate", "iter_errors") \
                and isinstance(call.func.value, ast.Name) and len(call.args) == 1 and f is not None:
            vname = call.func.value.id
            schema = None
            for n_ in ast.walk(f):
                if isinstance(n_, ast.Assign) and any(isinstance(t_, ast.Name) and t_.id == vname for t_ in n_.targets) \
                        and isinstance(n_.value, ast.Call) and (n_.value.args or any(k.arg == "schema" for k in n_.value.keywords)):
                    schema = n_.value.args[0] if n_.value.args else next(k.value for k in n_.value.keywords if k.arg == "schema")
            enforced = call.func.attr == "validate"
            if not enforced:
                # the errors found must end in a raise: `E = g(V.iter_errors(doc))` ... `if E [is not None]: raise ...`
                # at the same level, or `for e in V.iter_errors(doc): raise e`
                for n_ in ast.walk(f):
                    if isinstance(n_, ast.For) and any(x is call for x in ast.walk(n_.iter)) and n_.body \
                            and isinstance(n_.body[0], ast.Raise):
                        enforced = True
                for blk in [b_ for n_ in ast.walk(f) for b_ in (getattr(n_, "body", None), getattr(n_, "orelse", None))
                            if isinstance(b_, list)]:
                    for i_, st_ in enumerate(blk):
                        if isinstance(st_, ast.Assign) and len(st_.targets) == 1 and isinstance(st_.targets[0], ast.Name) \
                                and any(x is call for x in ast.walk(st_.value)) \
                                and (dotted(getattr(st_.value, "func", None)) or "").split(".")[-1] in ("best_match", "next", "list", "tuple", "sorted"):
                            en = st_.targets[0].id
                            for nx in blk[i_ + 1:]:
                                if isinstance(nx, ast.If) and not nx.orelse and nx.body and isinstance(nx.body[-1], ast.Raise) \
                                        and (ast.unparse(nx.test) in (en, f"{en} is not None", f"{en} != None", f"len({en}) > 0", f"len({en})")):
                                    enforced = True
                                    break
                                if any(isinstance(x, ast.Name) and x.id == en and isinstance(x.ctx, ast.Store) for x in ast.walk(nx)):
                                    break
            if schema is not None and enforced:
                out = ast.Call(func=ast.Attribute(value=ast.Name(id="jsonschema", ctx=ast.Load()), attr="validate", ctx=ast.Load()),
                               args=[call.args[0], schema], keywords=[])
                ast.copy_location(out, call)
                ast.fix_missing_locations(out)
        _views[id(call)] = out
        return out

    def first_validate():
        for i_, st, c, fn in order:
            for call in simple_calls(st):
                v_ = validate_view(call, fn)
                if v_ is not None:
                    return i_, st, c, v_, fn
        return None
    val = first_validate()
    create = first(lambda c: (dotted(c.func) or "").endswith("create_lsp_model"))
    plug_import = first(lambda c: dotted(c.func) in ("importlib.import_module",))
    plug_call = first(lambda c: (dotted(c.func) or "").endswith(".generate"))
    if create is None or plug_call is None:
        raise AnalysisError(f"{P_MAIN}: create_lsp_model / plugin generate call not found in main")
    ctx.check(val is not None, "validate-dominates", "main:validate-present",
              "main() never calls jsonschema.validate", P_MAIN, main.lineno)
    if val is not None:
        vi, vst, vctx, vcall, vfn = val
        in_try = any(isinstance(s_, ast.Try) for s_, _ in vctx)
        ctx.check(not in_try, "validate-dominates", "main:validate-not-in-try",
                  "jsonschema.validate is inside a try block: a validation error may be swallowed", P_MAIN, vst.lineno)
        cond = [s_ for s_, _ in vctx if isinstance(s_, (ast.If, ast.While))]
        ctx.check(not cond, "validate-dominates", "main:validate-unconditional",
                  "jsonschema.validate is guarded by a condition", P_MAIN, vst.lineno)
        ctx.check(vi < create[0] and vi < plug_call[0] and (plug_import is None or vi < plug_import[0]),
                  "validate-dominates", "main:validate-before-generate",
                  "jsonschema.validate does not precede create_lsp_model / plugin import / plugin call", P_MAIN, vst.lineno)
        # every document reaching create_lsp_model was validated: a small interprocedural "validated" dataflow over the
        # functions of __main__.py.  A name is validated in f once `validate(name, ...)` ran on it (unconditionally, not in a
        # try); f *returns a validated document* if every return is such a name (after the call) or a call to a function
        # that does; a list is all-validated if it starts empty and only ever grows by append(<validated document>), or is
        # a display / comprehension of validated documents, or comes from a function returning such a list.
        def is_validate(c):
            return (dotted(c.func) or "").endswith("jsonschema.validate") or dotted(c.func) == "validate"

        def validated_at(f):
            """{name: position of the validate statement} for unconditional validate calls of f"""
            out = {}
            for i_, st, c in statement_order(f):
                if isinstance(st, (ast.For, ast.If, ast.Try, ast.With, ast.While)):
                    continue
                if any(isinstance(s_, (ast.If, ast.Try, ast.While)) for s_, _ in c):
                    continue
                for call in calls_in(st):
                    v_ = validate_view(call, f)
                    if v_ is not None and v_.args and dotted(v_.args[0]):
                        out.setdefault(dotted(v_.args[0]), i_)
            return out

        def rebinds_after(f, name, pos):
            for i_, st, c in statement_order(f):
                if i_ <= pos:
                    continue
                for n_ in ast.walk(st) if not isinstance(st, (ast.For, ast.If, ast.Try, ast.With, ast.While)) else []:
                    if isinstance(n_, ast.Name) and n_.id == name and isinstance(n_.ctx, ast.Store):
                        return True
            return False

        def elem_ok(e, f, pos, seen=()):
            if isinstance(e, ast.Name):
                va = validated_at(f)
                return e.id in va and va[e.id] < pos and not rebinds_after(f, e.id, va[e.id])
            if isinstance(e, ast.Call):
                d = dotted(e.func)
                return d in mm.functions and returns_doc(d, seen)
            return False

        def returns_doc(name, seen=()):
            if name in seen:
                return False
            f = mm.functions[name]
            rets = [(i_, st) for i_, st, c in statement_order(f) if isinstance(st, ast.Return)]
            return bool(rets) and all(st.value is not None and elem_ok(st.value, f, i_, seen + (name,)) for i_, st in rets)

        def list_ok(e, f, pos, seen=()):
            if isinstance(e, ast.List):
                return all(elem_ok(x, f, pos, seen) for x in e.elts)
            if isinstance(e, ast.ListComp):
                return elem_ok(e.elt, f, pos, seen)
            if isinstance(e, ast.Call):
                d = dotted(e.func)
                if d in mm.functions:
                    return returns_list(d, seen)
                if d == "list" and len(e.args) == 1:
                    return list_ok(e.args[0], f, pos, seen) or (isinstance(e.args[0], ast.GeneratorExp)
                                                                and elem_ok(e.args[0].elt, f, pos, seen))
                return False
            if isinstance(e, ast.Name):
                inits, grows_ok, other = [], True, False
                for i_, st, c in statement_order(f):
                    if isinstance(st, (ast.For, ast.If, ast.Try, ast.With, ast.While)):
                        if isinstance(st, ast.For) and any(isinstance(t_, ast.Name) and t_.id == e.id for t_ in ast.walk(st.target)):
                            other = True
                        continue
                    if isinstance(st, (ast.Assign, ast.AnnAssign)) and getattr(st, "value", None) is not None:
                        tg = st.targets if isinstance(st, ast.Assign) else [st.target]
                        if any(isinstance(t_, ast.Name) and t_.id == e.id for t_ in tg):
                            inits.append((i_, st.value))
                            continue
                    if isinstance(st, ast.AugAssign) and isinstance(st.target, ast.Name) and st.target.id == e.id:
                        grows_ok = grows_ok and isinstance(st.op, ast.Add) and list_ok(st.value, f, i_, seen)
                        continue
                    for call in calls_in(st):
                        if isinstance(call.func, ast.Attribute) and isinstance(call.func.value, ast.Name) \
                                and call.func.value.id == e.id:
                            m = call.func.attr
                            if m == "append" and len(call.args) == 1:
                                grows_ok = grows_ok and elem_ok(call.args[0], f, i_, seen)
                            elif m == "extend" and len(call.args) == 1:
                                grows_ok = grows_ok and list_ok(call.args[0], f, i_, seen)
                            elif m in ("insert", "__setitem__", "__iadd__"):
                                grows_ok = False
                if e.id in [a_.arg for a_ in f.args.args]:
                    return False
                return bool(inits) and not other and grows_ok and all(
                    (isinstance(v, ast.List) and not v.elts) or (isinstance(v, ast.Call) and dotted(v.func) == "list" and not v.args)
                    or list_ok(v, f, i_, seen) for i_, v in inits)
            return False

        def returns_list(name, seen=()):
            if name in seen:
                return False
            f = mm.functions[name]
            rets = [(i_, st) for i_, st, c in statement_order(f) if isinstance(st, ast.Return)]
            # a generator function: the stream it produces is all-validated when every `yield` hands out a validated
            # document (`yield from` an all-validated list) and nothing is returned
            ys = [(i_, n_) for i_, st, c in statement_order(f)
                  if not isinstance(st, (ast.For, ast.If, ast.Try, ast.With, ast.While))
                  for n_ in ast.walk(st) if isinstance(n_, (ast.Yield, ast.YieldFrom))]
            if ys:
                return all(st.value is None for _, st in rets) and all(
                    n_.value is not None and (list_ok(n_.value, f, i_, seen + (name,)) if isinstance(n_, ast.YieldFrom)
                                              else elem_ok(n_.value, f, i_, seen + (name,))) for i_, n_ in ys)
            return bool(rets) and all(st.value is not None and list_ok(st.value, f, i_, seen + (name,)) for i_, st in rets)

        cfn = create[4]
        cpos = next((i_ for i_, st, c in statement_order(cfn) if any(cl is create[3] for cl in calls_in(st))), 10 ** 9)
        carg = create[3].args[0] if create[3].args else None
        all_validated = carg is not None and list_ok(carg, cfn, cpos)
        ctx.check(all_validated, "validate-dominates", "main:every-model-validated",
                  f"not every document handed to create_lsp_model (`{ast.unparse(carg) if carg is not None else '?'}`) is one "
                  "that was validated first", P_MAIN, vst.lineno)
        _schema_constrains_root(ctx, mm, order, vi, vcall, vfn)
        # no write before validation
        writes = []
        for i_, st, c, fn in order:
            if i_ >= vi:
                break
            for call in simple_calls(st):
                d = dotted(call.func) or ""
                if d.split(".")[-1] in ("write_text", "write_bytes", "mkdir", "unlink", "write", "makedirs", "rmtree"):
                    writes.append(d)
                if d == "open" or d.endswith(".open"):
                    mode = call.args[1 if d == "open" else 0] if len(call.args) > (1 if d == "open" else 0) else None
                    if isinstance(mode, ast.Constant) and isinstance(mode.value, str) and any(ch in mode.value for ch in "wax+"):
                        writes.append(d)
        ctx.check(not writes, "validate-dominates", "main:no-write-before-validate",
                  f"file-system writes {writes} precede validation", P_MAIN)
