"""DEVELOPMENT ONLY -- not a registered check, not evidence for any property.

Compares the static model (vlib.pymodel / vlib.hooks) with what the installed attrs/cattrs
actually compute on the current tree, to guard the trusted base (DESIGN.md section 6).
Run with /venv/bin/python dev/validate_model.py
"""
import os, sys, typing, enum
sys.path.insert(0, os.path.dirname(os.path.dirname(os.path.abspath(__file__))))
sys.path.insert(0, "/repo/packages/python")
import attrs
from vlib import pymodel
from vlib.common import Sources
from lsprotocol import types as T, converters

NoneType = type(None)

def rt2ir(t):
    if t is NoneType or t is None: return pymodel.NONE
    if t is typing.Any: return pymodel.ANY
    if isinstance(t, typing.ForwardRef): return ("fwd", t.__forward_arg__)
    if isinstance(t, str): return ("fwd", t)
    o = typing.get_origin(t)
    if o is typing.Union:
        return pymodel.mk_union([rt2ir(a) for a in t.__args__])
    if o is typing.Literal:
        return ("lit", tuple(t.__args__))
    import collections.abc as cabc
    if o is cabc.Sequence: return ("seq", rt2ir(t.__args__[0]))
    if o is list: return ("list", rt2ir(t.__args__[0]))
    if o is dict: return ("map", rt2ir(t.__args__[0]), rt2ir(t.__args__[1]))
    if o is tuple: return ("tup", tuple(rt2ir(a) for a in t.__args__))
    if isinstance(t, type):
        if t in (int, str, bool, float, object): return ("prim", t.__name__)
        if issubclass(t, enum.Enum): return ("enum", t.__name__)
        if attrs.has(t): return ("cls", t.__name__)
        return ("opaque", t.__name__)
    raise ValueError(t)

def main():
    conv = converters.get_converter()
    m = pymodel.TypesModule(Sources())
    bad = 0; n = 0
    for c in m.attrs_classes():
        rc = getattr(T, c.name)
        rf = {a.name: a for a in attrs.fields(rc)}
        if list(rf) != [f.name for f in c.fields]:
            print("FIELDS DIFFER", c.name, list(rf), [f.name for f in c.fields]); bad += 1
        for f in c.fields:
            n += 1
            a = rf[f.name]
            if rt2ir(a.type) != f.resolved:
                print("TYPE", c.name, f.name, pymodel.show(rt2ir(a.type)), "!=", pymodel.show(f.resolved)); bad += 1
            d = pymodel.MISSING if a.default is attrs.NOTHING else a.default
            if d != f.default:
                print("DEFAULT", c.name, f.name, a.default, f.default); bad += 1
            # union arg order
            if typing.get_origin(a.type) is typing.Union:
                ro = [rt2ir(x) for x in a.type.__args__]
                so = m.resolve_order(f.ty_order)
                if ro != so:
                    print("ORDER", c.name, f.name, [pymodel.show(x) for x in ro], [pymodel.show(x) for x in so]); bad += 1
    print("fields compared", n, "differences", bad)
    # aliases as module objects (definition time, unresolved)
    for name, ty in m.aliases.items():
        obj = getattr(T, name)
        if rt2ir(obj) != ty:
            print("ALIAS", name, pymodel.show(rt2ir(obj)), pymodel.show(ty)); bad += 1
    print("aliases compared", len(m.aliases))
    try:
        from vlib import hooks as H
    except ImportError:
        return bad
    hm = H.HooksModule(Sources(), m)
    reg = conv._union_struct_registry
    skeys = {k for k, *_ in hm.union_registry_items()}
    rkeys = {rt2ir(k) for k in reg}
    print("union registry keys static", len(skeys), "runtime", len(rkeys), "diff", len(skeys ^ rkeys))
    for k in skeys ^ rkeys:
        print("  KEYDIFF", pymodel.show(k)); bad += 1
    # dispatch prediction for every union occurrence
    from vlib import hooktree as HT
    disp = HT.Dispatcher(m, hm)
    cnt = 0
    seen = set()
    def occ(t):
        yield t
        for a in getattr(t, "__args__", ()) or ():
            if a is not Ellipsis and not isinstance(a, (str, int)):
                yield from occ(a)
    for c in m.attrs_classes():
        rc = getattr(T, c.name)
        for a in attrs.fields(rc):
            for t in occ(a.type):
                if typing.get_origin(t) is not typing.Union: continue
                cnt += 1
                ir = rt2ir(t)
                pred = disp.handler_kind(ir)
                try:
                    h = conv._structure_func.dispatch(t)
                    nm = getattr(h, "__name__", repr(h))
                except Exception as e:
                    nm = "ERR:" + type(e).__name__
                if nm == "<lambda>": act = "hook:<lambda>"
                elif nm.startswith("_") and nm.endswith("_hook"): act = "hook:" + nm
                elif nm == "_structure_optional": act = "optional"
                elif nm == "structure_attrs_union": act = "native"
                elif nm == "raise_error" or nm.startswith("ERR"): act = "unsupported"
                else: act = nm
                if pred != act:
                    key = (pred, act, pymodel.show(ir))
                    if key not in seen:
                        seen.add(key); bad += 1
                        print("DISPATCH", c.name, a.name, pymodel.show(ir), "pred", pred, "actual", act)
    print("union occurrences", cnt, "dispatch mismatches", len(seen))
    return bad

if __name__ == "__main__":
    sys.exit(1 if main() else 0)
