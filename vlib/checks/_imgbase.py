from ..common import Ctx
from ..image import Image

_cache: dict = {}


def image(ctx: Ctx) -> Image:
    key = id(ctx.src)
    if key not in _cache:
        _cache.clear()
        _cache[key] = Image(ctx.src)
    return _cache[key]
