"""Null-versus-omitted machinery shared by C01, C02 and C10: the special-property table, the folded
is_special_property/_omit helpers and the wiring of the two per-class factories."""
from __future__ import annotations

import ast

from .common import AnalysisError, P_HOOKS, P_TYPES
from .pymodel import dotted, MISSING
from .image import Image
from . import microeval


def expected_special(im: Image) -> dict[str, str]:
    """'Class.attr' -> reason, for every attribute that must never be omitted."""
    out: dict[str, str] = {}
    for p in im.pairs:
        if p.prop.literal:
            out[f"{p.cls.name}.{p.field.name}"] = "string literal"
        elif p.prop.null_admitting:
            out[f"{p.cls.name}.{p.field.name}"] = "null-admitting"
    for name, (kind, msg) in im.envelope_names().items():
        if kind in ("request", "notification"):
            out[f"{name}.method"] = "envelope method"
            out[f"{name}.jsonrpc"] = "envelope jsonrpc"
        else:
            out[f"{name}.result"] = "response result"
            out[f"{name}.jsonrpc"] = "envelope jsonrpc"
    out["ResponseErrorMessage.error"] = "error response"
    out["ResponseErrorMessage.jsonrpc"] = "envelope jsonrpc"
    return out


def types_interp(t) -> "microeval.Interp":
    """An evaluator holding the module level of types.py as far as the helper functions need it: every class as a
    class object (enum classes with their members), the string constants, every module-level table that folds, and
    every module-level function -- whatever the tables and helpers are called."""
    cached = getattr(t, "_types_interp", None)
    if cached is not None:
        return cached
    from .microeval import Interp, ClassRef, Closure, Record, Raised
    tit = Interp(name=t.rel)
    for name, c in t.classes.items():
        if c.kind == "enum":
            members = [Record(name, {"value": val, "name": mn}) for mn, val in c.members]

            def ctor(v, _members=members, _name=name):
                for m_ in _members:
                    if m_.fields["value"] == v and type(m_.fields["value"]) is type(v):
                        return m_
                raise Raised("ValueError", (f"{v!r} is not a valid {_name}",))
            tit.globals[name] = ClassRef(name, "enum", ["Enum"], call=ctor, iter=lambda _m=members: _m,
                                         attrs={m_.fields["name"]: m_ for m_ in members})
        else:
            tit.globals[name] = ClassRef(name, c.kind, [])
    tit.globals.update(t.str_consts)
    tit.globals.setdefault("MappingProxyType", ("host", lambda d: d))
    for k, v in t.other_consts.items():
        tit.globals.setdefault(k, v)
    for name, node in t.tables.items():
        try:
            tit.globals[name] = tit.eval(node, {})
        except (AnalysisError, Raised):
            pass        # a table that does not fold is only a problem if a folded helper needs it (lookup fails then)
    for fname, fdef in t.functions.items():
        tit.globals[fname] = Closure(fdef, None, tit)
    t._types_interp = tit
    return tit


def special_table(im: Image) -> list[str]:
    """Qualified names Class.attr for which the package's own is_special_property folds to True (the table behind it
    may have any name or shape)."""
    t = im.types
    tit = types_interp(t)
    fn = tit.globals.get("is_special_property")
    if not isinstance(fn, microeval.Closure):
        raise AnalysisError(f"{t.rel}: is_special_property not found")
    out = []
    for c in t.attrs_classes():
        ref = tit.globals[c.name]
        for f in c.fields:
            try:
                r = fn(ref, f.name)
            except microeval.Raised as e:
                raise AnalysisError(f"{t.rel}: is_special_property({c.name}, {f.name!r}) raises {e.exc_name}")
            if r is True:
                out.append(f"{c.name}.{f.name}")
            elif r is not False:
                raise AnalysisError(f"{t.rel}: is_special_property does not return a bool")
    return out


def fold_omit(im: Image):
    """-> function (class name, attr name) -> bool computed by the package's own _omit /
    is_special_property, constant-folded by E5."""
    t, h = im.types, im.hooks
    tit = types_interp(t)
    if "is_special_property" not in t.functions:
        raise AnalysisError(f"{t.rel}: is_special_property not found")
    types_mod = microeval.ModuleRef("types", interp=tit)
    reg = h.functions.get("_register_custom_property_hooks")
    if reg is None:
        raise AnalysisError(f"{h.rel}: _register_custom_property_hooks not found")
    omit = next((s for s in reg.body if isinstance(s, ast.FunctionDef) and s.name == "_omit"), None)
    if omit is None:
        raise AnalysisError(f"{h.rel}: _omit not found")
    hit = microeval.Interp(name=h.rel, extra_globals={h.types_alias: types_mod})
    for k_, v_ in microeval.std_modules(hit).items():
        hit.globals.setdefault(k_, v_)

    def f(cname: str, attr: str) -> bool:
        try:
            r = hit.call(omit, [microeval.ClassRef(cname), attr])
        except microeval.Raised as e:
            raise AnalysisError(f"{h.rel}: _omit({cname}, {attr!r}) raises {e.exc_name}")
        if not isinstance(r, bool):
            raise AnalysisError(f"{h.rel}: _omit does not return a bool")
        return r
    return f


def folded(im: Image) -> "FactoryFold":
    ff = getattr(im, "_factory_fold", None)
    if ff is None:
        ff = fold_factories(im)
        im._factory_fold = ff
    return ff


def factory_wiring(im: Image) -> list[tuple[str, str, int]]:
    """Problems with the two per-class factories, decided semantically (see fold_factories): registration with
    attrs.has on the converter given, one override(rename=, omit_if_default=) per attrs.fields(cls) entry handed to
    make_dict_(un)structure_fn bound to the same converter, the generated function returned as is, and overrides
    that do not depend on the order in which classes are first met.  -> [(construct, problem, lineno)]"""
    ff = folded(im)
    probs = list(ff.problems)
    for direction, attr, msg in ff.order_dependent:
        probs.append((f"{direction}-factory:order:{attr}",
                      f"the override computed for {attr} depends on which classes the converter met before: {msg}", 0))
    return probs


def folded_omit(im: Image):
    """(class, attr) -> omit_if_default as handed to cattrs by the unstructure factory."""
    ff = folded(im)
    table = ff.overrides["unstructure"]

    def f(cname, attr):
        if (cname, attr) not in table:
            raise AnalysisError(f"{im.hooks.rel}: the unstructure factory produced no override for {cname}.{attr}")
        v = table[(cname, attr)][1]
        if not isinstance(v, bool):
            raise AnalysisError(f"{im.hooks.rel}: omit_if_default for {cname}.{attr} does not fold to a bool ({v!r})")
        return v
    return f


def folded_rename(im: Image, direction: str):
    ff = folded(im)
    table = ff.overrides[direction]

    def f(cname, attr):
        return table.get((cname, attr), (None, None))[0]
    return f


# ------------------------------------------------------------------------------------------------
# semantic form of the factory wiring: run _register_custom_property_hooks in the micro-evaluator with
# attrs / cattrs.gen stubbed, call the registered factories for every class and read off the overrides

class FactoryFold:
    def __init__(self):
        self.overrides: dict[str, dict] = {"structure": {}, "unstructure": {}}   # dir -> {(cls, attr): (rename, omit)}
        self.problems: list[tuple[str, str, int]] = []                            # (construct, message, lineno)
        self.order_dependent: list[tuple[str, str, str]] = []
        self.classes = 0


def _probe_structure_wrapper(it, wrapper, gen, attrs_):
    """Call the wrapper (E5) on probe payloads: the declared wire names, plus undeclared keys -- a fresh name and the
    snake_case / trailing-underscore spellings of the attributes.  -> None when the generated function receives every
    declared key with its value and no undeclared key is turned into a declared one, else the reason."""
    from .microeval import Record, Raised
    ov = gen.fields["overrides"]
    wire = {}
    for a in attrs_:
        n_ = a.fields["name"]
        o = ov.get(n_)
        rn = o.fields.get("rename") if isinstance(o, Record) else None
        wire[n_] = rn or n_
    declared = {w_: f"<{w_}>" for w_ in wire.values()}
    undeclared = {"xFreshUndeclared": "<fresh>", "x_fresh_undeclared": "<fresh2>"}
    for n_, w_ in wire.items():
        for alias in (n_, n_ + "_", w_ + "_", w_.upper()):
            if alias not in declared:
                undeclared[alias] = f"<undeclared {alias}>"
    for label, payload in (("declared keys only", dict(declared)), ("declared and undeclared keys", {**declared, **undeclared}),
                           ("undeclared keys only", dict(undeclared))):
        given = dict(payload)
        try:
            res = wrapper(given, gen.fields["cls"])
        except Raised as e:
            return f"the wrapper around the generated structure function raises {e.exc_name} for a payload with {label}"
        if not (isinstance(res, Record) and res.cls_name == "generated_result" and res.fields["fn"] is gen):
            return "the wrapper around the generated structure function does not return that function's result"
        got = res.fields["payload"]
        if not isinstance(got, dict):
            return "the wrapper hands the generated structure function something that is not the payload mapping"
        for w_ in declared:
            want = payload.get(w_, "<absent>")
            have = got.get(w_, "<absent>")
            if want != have:
                return (f"the wrapper around the generated structure function changes what the declared key {w_!r} holds "
                        f"(payload with {label}: {want} -> {have}): an undeclared key is read as a declared one")
    return None


def fold_factories(im) -> FactoryFold:
    """`im` is anything with `.types` (TypesModule) and `.hooks` (HooksModule): an Image or a SiteAnalysis."""
    from .microeval import Interp, Record, ClassRef, ModuleRef, Closure, Raised
    t, h = im.types, im.hooks
    reg = h.functions.get("_register_custom_property_hooks")
    if reg is None:
        raise AnalysisError(f"{h.rel}: _register_custom_property_hooks not found")
    out = FactoryFold()
    class_names = [c.name for c in t.attrs_classes()]
    out.classes = len(class_names)
    from .pymodel import MISSING as _MISSING
    from .pymodel import NONE as _NONE_TY

    class _Fields(list):
        """attrs.fields(cls): a tuple of Attribute objects that also answers `.attr_name`"""
        def e5_attr(self, a):
            for x in self:
                if x.fields["name"] == a:
                    return x
            raise Raised("AttributeError", (a,))
    # `.type` of an attribute annotated `None` is NoneType once forward references are resolved (which get_converter
    # does before any factory runs); every other type is kept as the analysis' type expression
    fields_of = {c.name: _Fields([Record("Attribute", {"name": f.name, "type": type(None) if f.resolved == _NONE_TY else f.resolved,
                                                 "default": ("NOTHING",) if f.default is _MISSING else f.default,
                                                 "validator": f.validator})
                          for f in c.fields]) for c in t.attrs_classes()}

    def one_pass(order):
        tit = types_interp(t)
        if "is_special_property" not in t.functions:
            raise AnalysisError(f"{t.rel}: is_special_property not found")
        types_mod = ModuleRef("types", interp=tit)
        captured = {}

        made = {}

        def mk_gen(direction):
            def gen(cls, conv, **kw):
                r_ = Record("generated_fn", {"direction": direction, "cls": cls, "converter": conv, "overrides": kw})
                # calling the generated function (a wrapper may): records what it was handed
                if direction == "structure":
                    r_.fields["__call__"] = ("host", lambda payload, *a_, **k_: Record("generated_result", {"fn": r_, "payload": payload}))
                else:
                    def unstructure(obj, *a_, **k_):
                        # what cattrs' generated unstructure function does with its overrides (axiom A4): one entry per
                        # attribute under its wire name, left out when omit_if_default and the value is the default
                        if not (isinstance(obj, Record) and obj.cls_name == "probe_instance"):
                            raise AnalysisError(f"{h.rel}: the generated unstructure function is called on something the fold did not make")
                        out_ = {}
                        for a in fields_of.get(getattr(cls, "name", None), []):
                            n_ = a.fields["name"]
                            o_ = kw.get(n_)
                            rn = o_.fields.get("rename") if isinstance(o_, Record) else None
                            om = o_.fields.get("omit_if_default") if isinstance(o_, Record) else False
                            v_ = obj.fields["values"][n_]
                            if om and a.fields["default"] != ("NOTHING",) and v_ == a.fields["default"]:
                                continue
                            out_[rn or n_] = v_
                        return out_
                    r_.fields["__call__"] = ("host", unstructure)
                made[(direction, getattr(cls, "name", None))] = r_
                return r_
            return ("host", gen)

        def fields(cls):
            if not isinstance(cls, ClassRef) or cls.name not in fields_of:
                raise AnalysisError(f"{h.rel}: attrs.fields() called on something that is not a generated class")
            return fields_of[cls.name]
        gen_mod = ModuleRef("cattrs.gen", attrs={
            "override": ("host", lambda **kw: Record("override", kw)),
            "make_dict_unstructure_fn": mk_gen("unstructure"),
            "make_dict_structure_fn": mk_gen("structure"),
        })
        cattrs_mod = ModuleRef("cattrs", attrs={"gen": gen_mod})
        attrs_mod = ModuleRef("attrs", attrs={"fields": ("host", fields), "NOTHING": ("NOTHING",),
                                              "has": ("host", lambda c: isinstance(c, ClassRef) and c.name in fields_of)})

        def reg_factory(direction):
            def r(pred, factory=None):
                captured[direction] = (pred, factory)
                return factory
            return ("host", r)
        conv = Record("Converter", {"register_unstructure_hook_factory": reg_factory("unstructure"),
                                    "register_structure_hook_factory": reg_factory("structure")})
        it = Interp(name=h.rel, extra_globals={"attrs": attrs_mod, "cattrs": cattrs_mod, h.types_alias: types_mod})
        from .microeval import std_modules as _std
        for k_, v_ in _std(it).items():
            it.globals.setdefault(k_, v_)
        # module-level state of _hooks.py that the register function may use (caches, constants)
        for st in h.tree.body:
            if isinstance(st, (ast.Assign, ast.AnnAssign)):
                tgt = st.targets[0] if isinstance(st, ast.Assign) else st.target
                if isinstance(tgt, ast.Name) and st.value is not None and isinstance(st.value, (ast.Dict, ast.List, ast.Constant, ast.Set)):
                    try:
                        it.globals[tgt.id] = it.eval(st.value, {})
                    except (AnalysisError, Raised):
                        pass
            elif isinstance(st, ast.FunctionDef):
                it.globals.setdefault(st.name, Closure(st, None, it))
        try:
            ret = it.call(reg, [conv])
        except Raised as e:
            raise AnalysisError(f"{h.rel}: _register_custom_property_hooks raises {e.exc_name} when folded")
        if ret is not conv:
            out.problems.append(("_register_custom_property_hooks:return", "does not return the converter it was given", reg.lineno))
        res = {"structure": {}, "unstructure": {}}
        for direction in ("unstructure", "structure"):
            if direction not in captured:
                out.problems.append((f"{direction}-factory", f"no {direction} hook factory is registered on the converter", reg.lineno))
                continue
            pred, factory = captured[direction]
            if not (isinstance(pred, tuple) and pred[0] == "host"):
                out.problems.append((f"{direction}-factory", "factory predicate is not attrs.has", reg.lineno))
            for cname in order:
                # the class object of types.py itself (identity tests such as is_keyword_class(cls) hold for it)
                cref = tit.globals.get(cname)
                if not isinstance(cref, ClassRef):
                    cref = ClassRef(cname, "attrs")
                try:
                    r = it.apply(factory, [cref], {})
                except Raised as e:
                    out.problems.append((f"{direction}-factory:{cname}", f"factory raises {e.exc_name} for {cname}", reg.lineno))
                    continue
                if direction == "structure" and isinstance(r, Closure):
                    # a wrapper around the generated function that keeps its `.overrides`: transparent exactly when it
                    # hands the payload on unchanged (as far as the declared wire names go) whatever else the payload has
                    g_ = made.get((direction, cname))
                    if g_ is not None and r.__dict__.get("fattrs", {}).get("overrides") is g_.fields["overrides"]:
                        why = _probe_structure_wrapper(it, r, g_, fields_of[cname])
                        if why is None:
                            r = g_
                        else:
                            out.problems.append((f"structure-factory:{cname}:wrapper", why, reg.lineno))
                            continue
                if not (isinstance(r, Record) and r.cls_name == "generated_fn"):
                    if direction == "structure":
                        out.problems.append((f"{direction}-factory:returns",
                                             "the structure factory does not return the function generated by "
                                             "make_dict_structure_fn itself: cattrs' native union disambiguator reads its "
                                             "`.overrides` (axiom A2) and would fall back to snake_case keys", reg.lineno))
                        break
                    # the unstructure factory returns a wrapper around the generated function: its effect is read off by
                    # probing it (E5) with an instance whose attributes are all unset and one whose attributes are all set
                    g_ = made.get((direction, cname))
                    if g_ is None or not isinstance(r, Closure):
                        raise AnalysisError(f"{h.rel}: the unstructure factory returns something that is neither the generated "
                                            "function nor a function wrapping it")
                    attrs_ = fields_of[cname]
                    unset = Record("probe_instance", {"values": {a.fields["name"]: (f"<required {a.fields['name']}>" if a.fields["default"] == ("NOTHING",)
                                                                                    else a.fields["default"]) for a in attrs_}})
                    allset = Record("probe_instance", {"values": {a.fields["name"]: f"<set {a.fields['name']}>" for a in attrs_}})
                    try:
                        d0, d1 = r(unset), r(allset)
                    except Raised as e:
                        out.problems.append((f"unstructure-factory:{cname}:wrapper", f"the wrapper around the generated unstructure "
                                             f"function raises {e.exc_name}", reg.lineno))
                        continue
                    if not isinstance(d0, dict) or not isinstance(d1, dict):
                        out.problems.append((f"unstructure-factory:{cname}:wrapper", "the wrapper around the generated unstructure "
                                             "function does not return a mapping", reg.lineno))
                        continue
                    gov = g_.fields["overrides"]
                    for a in attrs_:
                        n_ = a.fields["name"]
                        wire = next((k_ for k_, v_ in d1.items() if v_ == f"<set {n_}>"), None)
                        if wire is None:
                            out.problems.append((f"unstructure-factory:{cname}.{n_}", "a set attribute is missing from what the "
                                                 "wrapped unstructure function returns", reg.lineno))
                            continue
                        if a.fields["default"] == ("NOTHING",):
                            o_ = gov.get(n_)
                            omit = bool(o_.fields.get("omit_if_default")) if isinstance(o_, Record) else False
                        else:
                            omit = wire not in d0
                        res[direction][(cname, n_)] = (wire, omit)
                    extra_keys = set(d1) - {w_ for (c_, _), (w_, _) in res[direction].items() if c_ == cname}
                    if extra_keys:
                        out.problems.append((f"unstructure-factory:{cname}:wrapper", f"the wrapped unstructure function adds keys "
                                             f"{sorted(extra_keys)[:3]} no attribute stands for", reg.lineno))
                    continue
                f = r.fields
                if f["direction"] != direction:
                    out.problems.append((f"{direction}-factory:maker", f"the {direction} factory builds a {f['direction']} function", reg.lineno))
                if not (isinstance(f["cls"], ClassRef) and f["cls"].name == cname):
                    out.problems.append((f"{direction}-factory:{cname}", "generated function is built for another class", reg.lineno))
                if f["converter"] is not conv:
                    out.problems.append((f"{direction}-factory:converter", "generated function is not bound to this converter", reg.lineno))
                ov = f["overrides"]
                names = {a.fields["name"] for a in fields_of[cname]}
                if set(ov) != names:
                    out.problems.append((f"{direction}-factory:{cname}",
                                         f"overrides are given for {sorted(set(ov) ^ names)[:4]} differently from attrs.fields({cname})",
                                         reg.lineno))
                for an, o in ov.items():
                    if not (isinstance(o, Record) and o.cls_name == "override"):
                        out.problems.append((f"{direction}-factory:{cname}.{an}", "override is not cattrs.gen.override(...)", reg.lineno))
                        continue
                    extra = set(o.fields) - {"rename", "omit_if_default"}
                    if extra:
                        out.problems.append((f"{direction}-factory:{cname}.{an}", f"override carries {sorted(extra)}", reg.lineno))
                    res[direction][(cname, an)] = (o.fields.get("rename"), o.fields.get("omit_if_default"))
        return res

    first = one_pass(class_names)
    second = one_pass(list(reversed(class_names)))
    for direction in ("structure", "unstructure"):
        out.overrides[direction] = first[direction]
        for key, v in first[direction].items():
            v2 = second[direction].get(key)
            if v2 is not None and v2 != v:
                what = "rename" if v2[0] != v[0] else "omit_if_default"
                out.order_dependent.append((direction, f"{key[0]}.{key[1]}",
                                            f"{what}: {v} when classes are met in declaration order, {v2} in the reverse order"))
    return out
