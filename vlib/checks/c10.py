"""C10 -- null-versus-omitted rule holds for every property of every class."""
from ..common import Ctx, P_HOOKS, P_TYPES
from ..pymodel import MISSING
from .. import special
from . import _imgbase

META = {
    "level": "other",
    "explanation": (
        "Static, exhaustive over every attribute of every generated attrs class. (a) _SPECIAL_PROPERTIES as a set "
        "equals {Class.attr : the metamodel property is null-admitting or a string literal} plus the envelope "
        "entries (method/jsonrpc of requests and notifications, result/jsonrpc of responses, error/jsonrpc of "
        "ResponseErrorMessage), both inclusions. (b) every attribute whose default is not None is special (else "
        "omit_if_default would drop a discriminator equal to its default); every special or optional attribute "
        "has a default (so an absent key is accepted when parsing). (c) the package's own is_special_property "
        "and _omit are constant-folded (E5) for every (class, attribute): omit <=> not special. (d) both "
        "per-class factories pass rename=_to_camel_case(a.name), omit_if_default=_omit(cls, a.name) for every "
        "entry of attrs.fields(cls) to make_dict_(un)structure_fn and are registered with predicate attrs.has "
        "(dataflow shape). With axiom A4 (omit_if_default drops a key iff value == default) this is the rule for "
        "every attribute; no sampling."),
    "trusted_base": ["A4 cattrs unstructure: omit_if_default drops a key iff value == default",
                     "A3 structure: a field with a default accepts an absent key"],
    "assumptions": ["class <-> structure pairing and attribute defaults as decided by C04"],
    "not_decided": [],
}


def run(ctx: Ctx):
    im = _imgbase.image(ctx)
    t = im.types
    exp = special.expected_special(im)
    table = special.special_table(im)
    tset = set(table)
    ctx.floor("_SPECIAL_PROPERTIES entries", len(table), 300)
    ctx.floor("expected special attributes", len(exp), 300)
    for k, why in sorted(exp.items()):
        ctx.check(k in tset, "special-table-complete", k,
                  f"{k} ({why}) is missing from _SPECIAL_PROPERTIES: it would be omitted when None / equal to its default",
                  P_TYPES, sample={"attr": k, "why": why})
    for k in sorted(tset):
        ctx.check(k in exp, "special-table-exact", k,
                  f"{k} is listed in _SPECIAL_PROPERTIES but is neither null-admitting, literal nor an envelope field: "
                  "it would be written as null when unset", P_TYPES)
    ctx.check(len(table) == len(tset), "special-table-exact", "_SPECIAL_PROPERTIES:duplicates",
              "the special-property set contains duplicates", P_TYPES)
    # (b) defaults
    nfields = 0
    for c in t.attrs_classes():
        for f in c.fields:
            nfields += 1
            q = f"{c.name}.{f.name}"
            if f.has_default and f.default is not None:
                ctx.check(q in tset, "non-none-default-is-special", q,
                          f"{q} has default {f.default!r} and is not special: a value equal to the default is dropped "
                          "from the output", P_TYPES, f.lineno)
            if q in exp:
                ctx.check(f.has_default, "special-has-default", q,
                          f"{q} is {exp[q]} but has no default: an absent key is rejected when parsing", P_TYPES, f.lineno)
    ctx.floor("attributes", nfields, 1500)
    # (c) fold
    omit = special.folded_omit(im)
    ctx.fn("_hooks.py:_register_custom_property_hooks (folded)")
    ctx.fn("types.py:is_special_property")
    for c in t.attrs_classes():
        for f in c.fields:
            q = f"{c.name}.{f.name}"
            got = omit(c.name, f.name)
            want = q not in exp
            if not f.has_default and q not in exp:
                # a required attribute is never unset: omit_if_default has nothing to compare it with (either value is fine)
                ctx.ok("omit-iff-not-special", {"attr": q, "required": True})
                continue
            ctx.check(got == want, "omit-iff-not-special", q,
                      f"_omit({c.name}, {f.name!r}) folds to {got}; the rule requires {want} "
                      f"({exp.get(q, 'plain optional/required property')})", P_HOOKS, f.lineno,
                      sample={"attr": q, "omit": got})
    # (d) wiring
    probs = special.factory_wiring(im)
    for construct, msg, ln in probs:
        ctx.fail("factory-wiring", construct, msg, P_HOOKS, ln)
    if not probs:
        ctx.ok("factory-wiring", {"factories": [f.factory.name for f in im.hooks.factories]})
        ctx.ok("factory-wiring")


_run_before_converter_precondition = run


def run(ctx: Ctx):  # noqa: F811
    _run_before_converter_precondition(ctx)
    from . import _sitebase as _sb
    _sb.converter_precondition(ctx)
