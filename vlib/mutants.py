"""Self-test, firing direction: a catalogue of single edits of the CURRENT /repo sources, applied in memory
(Sources overlay; nothing is written under /repo).  Each mutant is a realistic change that still compiles
and names the property + rule that must report it.  A mutant whose anchor text no longer occurs exactly
once is skipped and counted (the tree changed), never reported as a violation.

Run: ./vcheck selftest [C01 ...]     (also run by each thorough command for its own property)
"""
from __future__ import annotations

import ast
import importlib
import io
import contextlib
import concurrent.futures
import os
import sys
import time

from . import common
from .common import (P_TYPES, P_HOOKS, P_CONVERTERS, P_VALIDATORS, P_MODEL, P_MAIN, P_PYUTILS, P_LIBRS, P_LSPJSON)

P_TD = "generator/plugins/testdata/testdata_generator.py"
P_TDU = "generator/plugins/testdata/testdata_utils.py"
P_DN = "generator/plugins/dotnet/dotnet_classes.py"
P_DNE = "generator/plugins/dotnet/dotnet_enums.py"
P_DNU = "generator/plugins/dotnet/dotnet_utils.py"
P_RC = "generator/plugins/rust/rust_commons.py"


def R(old, new, count=1):
    """replace exactly `count` occurrence(s) (anchor must be unique unless count given)"""
    def f(text):
        if text.count(old) < 1 or (count == 1 and text.count(old) != 1):
            return None
        return text.replace(old, new, count)
    return f


def RN(old, new, nth):
    """replace the nth (0-based) occurrence"""
    def f(text):
        parts = text.split(old)
        if len(parts) <= nth + 1:
            return None
        return old.join(parts[:nth + 1]) + new + old.join(parts[nth + 1:])
    return f


# (id, property, file, edit, expected rule (substring of the finding key), what the change is)
MUTANTS = [
    # ---------------- C01 / C14 / C03 / C15: hooks
    ("c14-drop-hook-entry", "C14", P_HOOKS,
     R("        (Optional[Union[bool, lsp_types.HoverOptions]], _hover_provider_hook),\n", ""),
     "site-has-handler", "a hook-table entry is deleted: the union has no handler"),
    ("c14-key-not-optional", "C14", P_HOOKS,
     R("            Optional[Union[lsp_types.SaveOptions, bool]],\n            _save_hook,",
       "            Union[lsp_types.SaveOptions, bool],\n            _save_hook,"),
     "site-has-handler", "hook registered for the non-Optional spelling only"),
    ("c14-wrong-discriminator", "C14", P_HOOKS,
     R('        if "targetUri" in object_[0]:', '        if "targetRange" in object_[0] and "uri" in object_[0]:'),
     "sound", "location hook: discriminator no longer separates LocationLink from Location"),
    ("c14-symbols-first-element", "C14", P_HOOKS,
     R("""        if any(
            "deprecated" not in item
            and ("data" in item or "range" not in item["location"])
            for item in object_
        ):""", """        if "deprecated" not in object_[0] and (
            ("data" in object_[0]) or ("range" not in object_[0]["location"])
        ):"""),
     "sound", "the original defect D9: element class decided from the first element only"),
    ("c01-lossy-discriminator", "C01", P_HOOKS,
     RN('        if "id" in object_ or "documentSelector" in object_:', '        if "id" in object_:', 0),
     "dispatch-lossless", "registration options recognised by id only: documentSelector is dropped"),
    ("c14-text-edit-order", "C14", P_HOOKS,
     R('        if "snippet" in object_:\n            return converter.structure(object_, lsp_types.SnippetTextEdit)\n        if "annotationId" in object_:\n            return converter.structure(object_, lsp_types.AnnotatedTextEdit)\n        return converter.structure(object_, lsp_types.TextEdit)',
       '        if "annotationId" in object_:\n            return converter.structure(object_, lsp_types.AnnotatedTextEdit)\n        if "snippet" in object_:\n            return converter.structure(object_, lsp_types.SnippetTextEdit)\n        return converter.structure(object_, lsp_types.TextEdit)'),
     "sound", "SnippetTextEdit with an annotationId is parsed as AnnotatedTextEdit (newText missing)"),
    ("c03-hook-returns-input", "C03", P_HOOKS,
     R("        return converter.structure(object_, lsp_types.HoverOptions)", "        return object_"),
     "leaf-type-in-union", "hover hook returns the raw dict"),
    ("c03-raw-list", "C03", P_HOOKS,
     R("        return [\n            converter.structure(item, lsp_types.InlayHintLabelPart) for item in object_\n        ]",
       "        return [item for item in object_]"),
     "leaf-type-in-union", "label parts left as raw dicts"),
    ("c03-class-outside-union", "C03", P_HOOKS,
     R("        return converter.structure(object_, lsp_types.DefinitionOptions)",
       "        return converter.structure(object_, lsp_types.DeclarationOptions)"),
     "leaf-type-in-union", "hook structures into a class that is not a member of its union"),
    ("c03-resolver-skips", "C03", P_HOOKS,
     R("            return isinstance(p[1], type) and attrs.has(p[1])",
       "            return isinstance(p[1], type) and attrs.has(p[1]) and not p[0].endswith(\"Params\")"),
     "resolver-visits-all", "forward references of *Params classes are never resolved"),
    ("c15-probe-undeclared", "C15", P_HOOKS,
     R('        if "notebook" in object_:\n            return converter.structure(\n                object_, lsp_types.NotebookDocumentFilterWithNotebook',
       '        if "notebook" in object_ or "notebookSelector" in object_:\n            return converter.structure(\n                object_, lsp_types.NotebookDocumentFilterWithNotebook'),
     "probe-hygiene", "hook probes a key no alternative declares: an unknown property steers dispatch"),
    ("c15-forbid-extra", "C15", P_CONVERTERS,
     R("        converter = cattrs.Converter()", "        converter = cattrs.Converter(forbid_extra_keys=True)"),
     "no-forbid-extra-keys", "default converter forbids extra keys"),
    ("c15-forbid-extra-fn", "C15", P_HOOKS,
     R("        return cattrs.gen.make_dict_structure_fn(cls, converter, **attributes)",
       "        return cattrs.gen.make_dict_structure_fn(cls, converter, _cattrs_forbid_extra_keys=True, **attributes)"),
     "no-forbid-extra-keys", "generated structure functions forbid extra keys"),
    ("c15-len-mapping", "C15", P_HOOKS,
     R('        if "kind" in object_:\n            return converter.structure(object_, lsp_types.MarkupContent)',
       '        if len(object_) == 2 and "kind" in object_:\n            return converter.structure(object_, lsp_types.MarkupContent)'),
     "no-mapping-iteration", "hook measures the mapping: an extra key changes the choice"),
    # ---------------- C13 / C11
    ("c13-drop-enum-member", "C13", P_TYPES, R('    Decorator = "decorator"\n', ""), "enum-values", "an enum value is dropped"),
    ("c13-alter-enum-value", "C13", P_TYPES, R('    Incremental = 2\n', "    Incremental = 3\n"), "enum-values", "an enum value is altered"),
    ("c13-closed-passthrough", "C13", P_HOOKS,
     R("            return converter.structure(object_, lsp_types.TextDocumentSyncKind)", "            return object_"),
     "closed-enum-in-union-structured", "closed enum inside a union passed through"),
    ("c13-open-enum-raises", "C13", P_HOOKS,
     R("        if object_ is None:\n            return None\n        if isinstance(object_, (bool, int, str, float)):\n            return object_\n        return converter.structure(object_, lsp_types.CodeActionKind)",
       "        if object_ is None:\n            return None\n        return converter.structure(object_, lsp_types.CodeActionKind)"),
     "open-enum-passthrough", "custom code action kinds are rejected"),
    ("c11-required-gets-default", "C11", P_TYPES,
     R('    uri: str = attrs.field(validator=attrs.validators.instance_of(str))\n    """A file:// URI for the location of the file/folder being created."""',
       '    uri: str = attrs.field(validator=attrs.validators.instance_of(str), default="")\n    """A file:// URI for the location of the file/folder being created."""'),
     "required-has-no-default", "a required property silently gets a default"),
    ("c11-literal-unenforced", "C11", P_TYPES,
     RN("validator=attrs.validators.in_([\"create\"]), default=\"create\"", "default=\"create\"", 0),
     "literal-is-enforced", "literal discriminator no longer enforced"),
    # ---------------- C04 / C09 / C10 / C02
    ("c04-optional-flip", "C04", P_TYPES,
     RN('    delete_count: int = attrs.field(validator=validators.uinteger_validator)',
        '    delete_count: Optional[int] = attrs.field(validator=attrs.validators.optional(validators.uinteger_validator), default=None)', 0),
     "requiredness", "required attribute becomes optional"),
    ("c04-swap-validator", "C04", P_TYPES,
     RN('    delete_count: int = attrs.field(validator=validators.uinteger_validator)',
        '    delete_count: int = attrs.field(validator=validators.integer_validator)', 0),
     "validator", "uinteger attribute carries the integer validator"),
    ("c12-swap-validator", "C12", P_TYPES,
     RN('    delete_count: int = attrs.field(validator=validators.uinteger_validator)',
        '    delete_count: int = attrs.field(validator=validators.integer_validator)', 0),
     "int-field-has-validator", "uinteger attribute carries the integer validator"),
    ("c04-wrong-annotation", "C04", P_TYPES,
     R('    data: Optional[Sequence[int]] = attrs.field(default=None)\n    """The elements to insert."""',
       '    data: Optional[Sequence[str]] = attrs.field(default=None)\n    """The elements to insert."""'),
     "annotation", "element type changed"),
    ("c09-swap-direction", "C09", P_TYPES,
     R('    TEXT_DOCUMENT_PUBLISH_DIAGNOSTICS: "serverToClient",', '    TEXT_DOCUMENT_PUBLISH_DIAGNOSTICS: "clientToServer",'),
     "direction-table", "one direction flipped"),
    ("c09-missing-registry-name", "C09", P_TYPES,
     R('    "SnippetTextEdit": SnippetTextEdit,\n', ""), "registry-complete", "a type is missing from ALL_TYPES_MAP"),
    ("c10-drop-special", "C10", P_TYPES,
     R('    "RenameRegistrationOptions.document_selector",\n', ""), "special-table-complete", "a null-admitting property is no longer special"),
    ("c10-extra-special", "C10", P_TYPES,
     R('    "RenameRegistrationOptions.document_selector",\n',
       '    "RenameRegistrationOptions.document_selector",\n    "RenameRegistrationOptions.prepare_provider",\n'),
     "special-table-exact", "a plain optional property is written as null"),
    ("c01-omit-inverted", "C01", P_HOOKS,
     R("        return not special", "        return special and prop != \"jsonrpc\""), "null-survives", "omit rule inverted"),
    ("c02-camel-title", "C02", P_HOOKS,
     R('        return parts[0] + "".join(p.title() for p in parts[1:])', '        return parts[0] + "".join(p.capitalize() for p in parts[1:-1] + parts[-1:])' if False else '        return parts[0] + "".join(p.upper() if len(p) == 2 else p.title() for p in parts[1:])'),
     "wire-name", "two-letter parts are upper-cased (e.g. ...Id -> ...ID)"),
    # ---------------- C12 / C20
    ("c12-off-by-one", "C12", P_VALIDATORS, R("\nINTEGER_MAX_VALUE = 2**31 - 1", "\nINTEGER_MAX_VALUE = 2**31"), "reject-out-of-range", "off-by-one upper bound"),
    ("c12-strict-compare", "C12", P_VALIDATORS,
     R("        UINTEGER_MIN_VALUE <= value <= UINTEGER_MAX_VALUE", "        UINTEGER_MIN_VALUE < value <= UINTEGER_MAX_VALUE"),
     "accept-in-range", "0 rejected for uinteger"),
    ("c12-typeerror-path", "C12", P_VALIDATORS,
     R("    if not isinstance(value, int) or not (\n        INTEGER_MIN_VALUE <= value <= INTEGER_MAX_VALUE\n    ):",
       "    if not (\n        INTEGER_MIN_VALUE <= value <= INTEGER_MAX_VALUE\n    ) or not isinstance(value, int):"),
     "total-on-any-argument", "range test before the isinstance test: TypeError for strings"),
    ("c20-gt-ge", "C20", P_TYPES,
     R("        return (self.line, self.character) > (o.line, o.character)", "        return (self.line, self.character) >= (o.line, o.character)"),
     "position-gt-lexicographic", ">= for >"),
    ("c20-line-only", "C20", P_TYPES,
     R("        return (self.line, self.character) > (o.line, o.character)", "        return self.line > o.line or self.character > o.character"),
     "position-gt-lexicographic", "non-lexicographic order"),
    ("c20-range-eq", "C20", P_TYPES,
     R("        return (self.start == o.start) and (self.end == o.end)", "        return (self.start == o.start) or (self.end == o.end)"),
     "range-eq-structural", "Range equality too weak"),
    ("c20-generator-side", "C20", P_PYUTILS,
     R('                f"{indent}return (self.line, self.character) > (o.line, o.character)",', '                f"{indent}return (self.line, self.character) > (o.line, o.line)",'),
     "position-gt-lexicographic", "generator would inject a wrong __gt__"),
    # ---------------- C16 / C17 / C18 / C19 / C08 / C06
    ("c16-unsorted-set", "C16", P_PYUTILS,
     R("            + sorted([f\"{_snake_case_item_name(m).upper()} = '{m}'\" for m in methods])", "            + [f\"{_snake_case_item_name(m).upper()} = '{m}'\" for m in methods]"),
     "set-order-confined", "method constants emitted in set order"),
    ("c16-id-leak", "C16", P_RC,
     R('            "/// This allows a field to have two types.",', '            f"/// This allows a field to have two types. {type_data._id_data and list(type_data._id_data)[0]}",') if False else
     R("        self._id_data[type_def.id_] = (type_name, type_def, impl)", "        self._id_data[type_def.id_] = (type_name, type_def, impl + [f\"// {type_def.id_}\"])"),
     "uuid-confined", "random id written into the output"),
    ("c16-no-cleanup", "C16", P_TDU, R("    cleanup(output)\n", ""), "write-discipline", "stale test vectors survive"),
    ("c17-drop-conjunct", "C17", P_TD, R("            yield (valid1 and valid2, [value1, value2])", "            yield (valid1, [value1, value2])"),
     "flag-covers-value", "second element's validity ignored"),
    ("c17-request-flag", "C17", P_TD,
     RN("            yield (valid1 and valid2, message)", "            yield (valid1, message)", 0),
     "flag-covers-value", "params validity ignored for requests"),
    ("c17-tuple-always-valid", "C17", P_TD,
     R("        is_valid = all(valid for valid, _ in product)\n        values = [value for _, value in product if not isinstance(value, Ignore)]\n        yield (is_valid, tuple(values))",
       "        is_valid = True\n        values = [value for _, value in product if not isinstance(value, Ignore)]\n        yield (is_valid, tuple(values))"),
     "flag-covers-value", "tuples always labelled valid"),
    ("c17-base-label", "C17", P_TD, R("        yield (False, LSP_OVER_MAX_INT)", "        yield (True, LSP_OVER_MAX_INT)"), "base-table-label", "out-of-range integer labelled valid"),
    ("c17-filename-label", "C17", P_TD,
     RN('-{valid}-{get_hash_from(content)}.json"', '-{True}-{get_hash_from(content)}.json"', 1),
     "filename-template", "response vectors always named True"),
    ("c18-eq-drops-field", "C18", P_MODEL,
     R("                self.name == other.name\n                and self.type == other.type\n                and self.optional == other.optional",
       "                self.name == other.name\n                and self.type == other.type"),
     "eq-compares-structure", "Property equality ignores `optional`"),
    ("c18-validate-after", "C18", P_MAIN,
     R("        jsonschema.validate(json_model, schema)\n        json_models.append(json_model)", "        json_models.append(json_model)"),
     "validate-dominates", "schema validation removed"),
    ("c18-merge-forgets", "C18", P_MODEL, R("            spec.enumerations.extend(addition.enumerations)\n", ""), "merge-extends-all", "merge forgets enumerations"),
    ("c19-no-lock", "C19", P_HOOKS,
     R("    with _resolve_forward_references_lock:\n        if not _resolved_forward_references:", "    if True:\n        if not _resolved_forward_references:"),
     "flag-write-under-lock", "lock removed"),
    ("c19-flag-early", "C19", P_HOOKS,
     R("            items = list(filter(_filter, lsp_types.ALL_TYPES_MAP.items()))\n", "            _resolved_forward_references = True\n            items = list(filter(_filter, lsp_types.ALL_TYPES_MAP.items()))\n"),
     "flag-set-after-work", "flag set before the work is done"),
    ("c19-module-converter", "C19", P_HOOKS,
     R("LSPAny = lsp_types.LSPAny\n", "LSPAny = lsp_types.LSPAny\n_shared = cattrs.Converter()\n"),
     "no-module-level-state", "module-level converter"),
    ("c08-stale-request", "C08", P_DN,
     R("to_upper_camel_case(notification.messageDirection)", "to_upper_camel_case(request.messageDirection)"),
     "no-stale-for-target", "the original defect D2"),
    ("c08-wire-name-mangled", "C08", P_DN,
     R("            f'[DataMember(Name = \"{prop_def.name}\")]',", "            f'[DataMember(Name = \"{name}\")]',"),
     "verbatim-wire-data", "DataMember uses the C# property name"),
    ("c08-uinteger-as-int", "C08", P_DN,
     R('    elif lsp_type.name in ["integer"]:\n        return "int"\n    elif lsp_type.name in ["uinteger"]:\n        return "long"',
       '    elif lsp_type.name in ["integer", "uinteger"]:\n        return "int"'),
     "member-type-mapped", "uinteger members become int"),
    ("c08-open-int-enum-as-string", "C08", P_DN,
     R('            if _is_str_enum(enum_def):\n                name = "string"\n            elif _is_int_enum(enum_def):\n                name = "int"',
       '            name = "string"'),
     "member-type-mapped", "open integer enumerations are typed string"),
    ("c08-or-keeps-null", "C08", P_DN,
     R('    elif type_def.kind == "or":\n        subset = filter_null_base_type(type_def.items)\n        if len(subset) == 1:\n            name = get_type_name',
       '    elif type_def.kind == "or":\n        subset = list(type_def.items)\n        if len(subset) == 1:\n            name = get_type_name'),
     "member-type-mapped", "T|null becomes OrType<T, object>"),
    ("c18-append-unvalidated", "C18", P_MAIN,
     R('        json_models.append(json_model)', '        json_models.append(json.load(model_file.open("rb")))'),
     "every-model-validated", "the list handed to create_lsp_model holds a re-read, unvalidated document"),
    ("c18-append-before-validate", "C18", P_MAIN,
     R('        jsonschema.validate(json_model, schema)\n        json_models.append(json_model)',
       '        json_models.append(json_model)\n        json_model = dict(json_model)\n        jsonschema.validate(json_model, schema)'),
     "every-model-validated", "what is validated is a copy made after the original was queued"),
    ("c18-schema-root-vacuous", "C18", P_MAIN,
     R('    schema.setdefault("$ref", "#/definitions/MetaModel")\n', ''),
     "gate-schema-constrains-document", "the original defect D15: the schema file has no root reference"),
    ("c18-schema-root-wrong-def", "C18", P_MAIN,
     R('schema.setdefault("$ref", "#/definitions/MetaModel")', 'schema.setdefault("$ref", "#/definitions/MetaData")'),
     "gate-schema-constrains-document", "documents are validated against the wrong definition"),
    ("c06-kind-missing", "C06", P_TD,
     R('    elif type_def.kind == "map":\n        yield from generate_for_map(type_def.key, type_def.value, spec, visited)\n', ""),
     "kind-exhaustive", "testdata generator silently yields nothing for map types"),
    ("c06-hasattr-guard", "C06", P_RC,
     R('    if hasattr(type_def, "typeName") and type_def.typeName:', '    if hasattr(type_def, "typeName"):'),
     "optional-attr-guarded", "the original defect D3"),
]


def run_one(mid, prop, rel, edit, expect, what):
    src = common.Sources()
    text = src.text(rel)
    new = edit(text)
    if new is None or new == text:
        return (mid, prop, "skipped", "anchor text not found exactly once (tree changed)")
    if rel.endswith(".py"):
        try:
            ast.parse(new)
        except SyntaxError as e:
            return (mid, prop, "broken", f"mutant does not parse: {e}")
    msrc = common.Sources(overlay={rel: new})
    ctx = common.Ctx(prop, "quick", 0, msrc, quiet=True)
    mod = importlib.import_module(f"vlib.checks.{prop.lower()}")
    # checks cache analyses per Sources object id; a fresh Sources gives a fresh analysis
    try:
        mod.run(ctx)
    except common.AnalysisError as e:
        # as in run_check: violations found before the analysis got stuck still count
        if not ctx.findings:
            return (mid, prop, "analysis-error", str(e)[:200])
    known = common.known_keys_for(prop)
    hits = [f for f in ctx.findings if f.key not in known]
    good = [f for f in hits if expect in f.key]
    if good:
        return (mid, prop, "caught", f"{good[0].rule}: {good[0].construct[:90]}")
    if hits:
        return (mid, prop, "caught-other", f"{hits[0].rule}: {hits[0].construct[:90]}")
    return (mid, prop, "MISSED", what)


# ------------------------------------------------------------------------------------------------
# patch-based variants: the seeded changes kept under /verif/seeded (each confirmed to break its property while
# the test suite passes) and the behaviour-preserving refactors under /verif/neutral.  The unified diff is applied to
# the *current* source text in memory; a patch whose context no longer matches is skipped (the tree moved on).

VERIF_DIR = os.path.dirname(os.path.dirname(os.path.abspath(__file__)))


def parse_patch(text: str) -> dict:
    """git unified diff -> {rel: [ (old_start, [(tag, line)]) ]}; tag in ' ', '-', '+'.  None for a file the patch
    deletes or renames (not supported: the variant is skipped)."""
    files, cur, hunk = {}, None, None
    lines = text.split("\n")
    i = 0
    while i < len(lines):
        ln = lines[i]
        if ln.startswith("diff --git "):
            cur, hunk = None, None
        elif ln.startswith("rename from") or ln.startswith("deleted file"):
            return None
        elif ln.startswith("+++ "):
            path = ln[4:].strip()
            if path == "/dev/null":
                return None
            cur = path[2:] if path[:2] in ("a/", "b/") else path
            files[cur] = []
        elif ln.startswith("--- "):
            pass
        elif ln.startswith("@@") and cur is not None:
            try:
                old = ln.split(" ")[1]
                start = int(old[1:].split(",")[0])
            except (IndexError, ValueError):
                return None
            hunk = (start, [])
            files[cur].append(hunk)
        elif hunk is not None and ln[:1] in (" ", "-", "+"):
            hunk[1].append((ln[0], ln[1:]))
        elif hunk is not None and ln.startswith("\\"):
            pass       # "\ No newline at end of file"
        elif hunk is not None and ln == "" and i == len(lines) - 1:
            pass
        elif hunk is not None and ln == "":
            hunk[1].append((" ", ""))
        i += 1
    return files


def apply_hunks(text: str, hunks) -> "str | None":
    src = text.split("\n")
    out, pos = [], 0
    for start, body in hunks:
        old = [l for t, l in body if t in (" ", "-")]
        want = max(start - 1, 0)
        # exact position first, then the nearest position where the old side matches (as `git apply` does)
        cands = [want] + [want + d * sgn for d in range(1, 400) for sgn in (1, -1)]
        at = None
        for c in cands:
            if c >= pos and c + len(old) <= len(src) and src[c:c + len(old)] == old:
                at = c
                break
        if at is None:
            return None
        out.extend(src[pos:at])
        out.extend(l for t, l in body if t in (" ", "+"))
        pos = at + len(old)
    out.extend(src[pos:])
    return "\n".join(out)


def patch_overlay(patch_path: str):
    """-> ({rel: new text}, None) or (None, reason)"""
    try:
        with open(patch_path, encoding="utf-8") as f:
            files = parse_patch(f.read())
    except OSError as e:
        return None, str(e)
    if not files:
        return None, "patch creates, deletes or renames a file / is empty"
    src = common.Sources()
    overlay = {}
    for rel, hunks in files.items():
        if not src.exists(rel):
            if all(t == "+" for _s, b in hunks for t, _l in b):
                overlay[rel] = "\n".join(l for _s, b in hunks for _t, l in b) + "\n"
                continue
            return None, f"{rel} is not in the tree"
        new = apply_hunks(src.text(rel), hunks)
        if new is None:
            return None, f"context of a hunk for {rel} no longer matches the tree"
        if rel.endswith(".py"):
            try:
                ast.parse(new)
            except SyntaxError as e:
                return None, f"patched {rel} does not parse: {e}"
        overlay[rel] = new
    return overlay, None


def patch_variants(prop: str):
    """[(id, kind, patch path)] for one property: its seeded changes that its own check is on record as catching, and
    every neutral refactor."""
    import glob
    import json
    out = []
    for d in sorted(glob.glob(os.path.join(VERIF_DIR, "seeded", prop + "-*", ""))):
        try:
            with open(d + "meta.json") as f:
                meta = json.load(f)
        except (OSError, ValueError):
            continue
        if meta.get("detection", {}).get("caught_by_own_property_check"):
            out.append(("seeded/" + os.path.basename(d.rstrip("/")), "seeded", d + "patch.diff"))
    for d in sorted(glob.glob(os.path.join(VERIF_DIR, "neutral", "*", ""))):
        out.append(("neutral/" + os.path.basename(d.rstrip("/")), "neutral", d + "patch.diff"))
    return out


def run_patch(vid, prop, kind, patch_path):
    overlay, why = patch_overlay(patch_path)
    if overlay is None:
        return (vid, prop, "skipped", why)
    msrc = common.Sources(overlay=overlay)
    ctx = common.Ctx(prop, "quick", 0, msrc, quiet=True)
    mod = importlib.import_module(f"vlib.checks.{prop.lower()}")
    err = None
    try:
        mod.run(ctx)
    except common.AnalysisError as e:
        err = str(e)[:200]
    known = common.known_keys_for(prop)
    hits = [f for f in ctx.findings if f.key not in known]
    if kind == "seeded":
        if hits:
            return (vid, prop, "caught", f"{hits[0].rule}: {hits[0].construct[:90]}")
        if err:
            return (vid, prop, "analysis-error", err)
        return (vid, prop, "MISSED", "a seeded change on record as detected is no longer reported")
    if hits:
        return (vid, prop, "FALSE-ALARM", f"{hits[0].rule}: {hits[0].construct[:90]}")
    if err:
        return (vid, prop, "analysis-error", err)
    return (vid, prop, "silent", "")


_TODO = []


def _run_index(i):
    t = _TODO[i]
    try:
        if t[0] == "patch":
            return run_patch(*t[1:])
        return run_one(*t)
    except Exception as e:       # a variant must never take the whole run down (RecursionError in a fold, ...)
        vid, prop = (t[1], t[2]) if t[0] == "patch" else (t[0], t[1])
        return (vid, prop, "analysis-error", f"internal error on this variant: {type(e).__name__}: {str(e)[:120]}")


def collect(props=None, jobs=16, patches=False):
    """Run the catalogue (for the given properties) and return [(id, prop, status, info)]."""
    global _TODO
    props = [p.upper() for p in (props or [])]
    todo = [m for m in MUTANTS if not props or m[1] in props]
    if patches:
        for p_ in props:
            todo += [("patch", vid, p_, kind, path) for vid, kind, path in patch_variants(p_)]
    _TODO = todo
    if jobs and jobs > 1 and len(todo) > 3:
        import multiprocessing as mp
        try:
            with mp.get_context("fork").Pool(min(jobs, len(todo))) as pool:
                return pool.map(_run_index, range(len(todo)))
        except (OSError, ValueError):
            pass
    return [_run_index(i) for i in range(len(todo))]


def run(props=None, jobs=16) -> int:
    props = [p.upper() for p in (props or [])]
    todo = [m for m in MUTANTS if not props or m[1] in props]
    t0 = time.time()
    results = []
    global _TODO
    _TODO = todo
    if jobs and jobs > 1 and len(todo) > 3:
        import multiprocessing as mp
        try:
            ctxmp = mp.get_context("fork")
            with ctxmp.Pool(min(jobs, len(todo))) as pool:
                results = pool.map(_run_index, range(len(todo)))
        except (OSError, ValueError):
            results = [run_one(*m) for m in todo]
    else:
        for m in todo:
            results.append(run_one(*m))
    bad = 0
    counts = {}
    for mid, prop, status, info in results:
        counts[status] = counts.get(status, 0) + 1
        print(f"  mutant {mid:28s} {prop} {status:14s} {info}")
        if status in ("MISSED", "broken"):
            bad += 1
    print(f"selftest: {len(results)} mutants {counts} in {time.time() - t0:.1f}s")
    if bad:
        print(f"ANALYSIS-ERROR selftest: {bad} mutant(s) not detected: the checker lost detection power")
        return 2
    return 0
