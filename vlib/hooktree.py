"""E3 + E4 -- cattrs dispatch model (trusted axioms A1-A4) and abstract interpretation of the union
structure hooks as decision trees over (alternative x key-shape) worlds.

A *site* is a place where cattrs dispatches on a union type.  For every site and every alternative
of the union, the handler (registered hook, Optional, native attrs-union disambiguator) is evaluated
on "an arbitrary metamodel-valid value of that alternative"; undetermined tests fork the world
(optional key present / absent, array empty / non-empty, which alternative a nested value has).
Each leaf reached yields obligations: supported / sound / well-typed / lossless / probe hygiene.
"""
from __future__ import annotations

import ast
import itertools

from .common import AnalysisError
from .pymodel import (TypesModule, NONE, ANY, members, is_optional, strip_none, mk_union, show, dotted,
                      parse_type, walk_ty)
from .hooks import HooksModule, Registration
from .metamodel import MetaModel

PRIM_NAMES = {"bool": "bool", "int": "int", "str": "str", "float": "float", "list": "list",
              "dict": "dict", "tuple": "tuple"}


# ------------------------------------------------------------------------------------------------
# A1: dispatch

class Dispatcher:
    def __init__(self, types: TypesModule, hooks: HooksModule):
        self.types = types
        self.hooks = hooks
        self.registry = dict(hooks.union_registry_items())
        self.class_hooks = hooks.class_hooks_effective()
        self._pred_cache: dict = {}

    def handler(self, ty):
        """-> ('hook', Registration) | ('optional', inner) | ('native', [classes ordered]) |
              ('unsupported', reason) for a union type;  non-union types -> ('plain', ty)."""
        ph = self._predicate_hook(ty)
        if ph is not None and not (ty[0] != "union" and ty in self.class_hooks):
            return ("hook", ph)
        if ty[0] != "union":
            if ty in self.class_hooks:
                return ("hook", self.class_hooks[ty])
            if ty[0] == "fwd":
                return ("unsupported", f"unresolved forward reference {ty[1]!r}")
            return ("plain", ty)
        if ty in self.registry:
            return ("hook", self.registry[ty])
        if is_optional(ty):
            return ("optional", strip_none(ty))
        ms = members(ty)
        if all(m == NONE or m[0] == "cls" for m in ms):
            return ("native", None)
        bad = sorted(show(m) for m in ms if m != NONE and m[0] != "cls")
        return ("unsupported", "no structure hook is registered for this union and it is not a union "
                               f"of attrs classes (non-class members: {', '.join(bad)})")

    def _predicate_hook(self, ty):
        """Function-dispatch hooks registered with register_structure_hook_func: checked (most recent first)
        before the union registry, Optional and the native union handler (axiom A1)."""
        preds = getattr(self.hooks, "predicate_hooks", None)
        if not preds:
            return None
        key = ("pred", ty)
        if key in self._pred_cache:
            return self._pred_cache[key]
        from .hooks import TyVal, Registration
        from .microeval import Raised
        it = self.hooks.fold_interp
        val = self.hooks.fold_from_ty(ty)
        if ty[0] == "union":
            # typing's argument order for this spelling is not known here; predicates must not depend on it
            val = TyVal(ty, sorted(ty[1], key=repr))
        res = None
        for pred, hook, fn_name, conv_name in reversed(preds):
            try:
                r = it.apply(pred, [val], {})
            except Raised:
                r = False      # cattrs ignores predicates that raise
            if not isinstance(r, bool):
                r = bool(r)
            if r:
                node = hook.node
                reg = Registration(ty, [ty], node, getattr(node, "name", "<lambda>"), "<predicate>", node.lineno,
                                   fn_name, conv_name, show(ty))
                reg.closure = hook
                res = reg
                break
        self._pred_cache[key] = res
        return res

    def handler_kind(self, ty) -> str:
        h = self.handler(ty)
        if h[0] == "hook":
            return "hook:" + h[1].hook_name
        return h[0]


# ------------------------------------------------------------------------------------------------
# declared shape of classes (metamodel for structures, Python fields otherwise)

class Decl:
    __slots__ = ("wire", "ty", "required", "literal", "attr")

    def __init__(self, wire, ty, required, literal, attr):
        self.wire = wire
        self.ty = ty              # resolved py tyexpr of the value
        self.required = required  # metamodel-required (must be present in a valid value)
        self.literal = literal    # string literal value or None
        self.attr = attr


class Shapes:
    """JSON-shape view of py tyexprs, annotated from the metamodel."""

    def __init__(self, types: TypesModule, mm: MetaModel, camel):
        self.types = types
        self.mm = mm
        self.camel = camel        # folded _to_camel_case: attr name -> wire name
        self._decl: dict[str, dict[str, Decl]] = {}

    def decl(self, cname: str) -> dict[str, Decl]:
        if cname in self._decl:
            return self._decl[cname]
        c = self.types.classes.get(cname)
        if c is None or c.kind != "attrs":
            raise AnalysisError(f"class {cname} is not an attrs class of types.py")
        out: dict[str, Decl] = {}
        by_wire = {self.camel(f.name): f for f in c.fields}
        if cname in self.mm.structures and cname != "LSPObject":
            for p in self.mm.flatten(cname):
                f = by_wire.get(p.name)
                ty = f.resolved if f is not None else None
                if ty is not None and p.py_optional:
                    ty = strip_none(ty) if not p.null_admitting else ty
                lit = p.type["value"] if p.literal else None
                out[p.name] = Decl(p.name, ty, not p.optional, lit, f.name if f else None)
        else:
            for f in c.fields:
                ty = f.resolved
                lit = None
                if ty[0] == "lit" and len(ty[1]) == 1:
                    lit = ty[1][0]
                elif f.validator and f.validator.startswith("in_(") and f.has_default:
                    lit = f.default
                out[self.camel(f.name)] = Decl(self.camel(f.name), ty, not f.has_default, lit, f.name)
        self._decl[cname] = out
        return out

    def kinds(self, ty) -> frozenset:
        k = ty[0]
        if k == "prim":
            return {
                "none": frozenset(["null"]), "bool": frozenset(["bool"]), "int": frozenset(["num"]),
                "float": frozenset(["num"]), "str": frozenset(["str"]),
                "any": frozenset(["null", "bool", "num", "str", "arr", "obj"]),
                "object": frozenset(["null", "bool", "num", "str", "arr", "obj"]),
            }[ty[1]]
        if k == "enum":
            c = self.types.classes[ty[1]]
            return frozenset(["str" if c.enum_base == "str" else "num"])
        if k in ("cls", "opaque", "map"):
            return frozenset(["obj"])
        if k in ("seq", "list", "tup"):
            return frozenset(["arr"])
        if k == "lit":
            return frozenset("str" if isinstance(v, str) else "num" for v in ty[1])
        if k == "union":
            out = frozenset()
            for m in ty[1]:
                out |= self.kinds(m)
            return out
        raise AnalysisError(f"kinds of {show(ty)}")

    def raw_ok(self, ty, _seen=()) -> bool:
        """May a value of this type be left as uninterpreted JSON (C03)?"""
        k = ty[0]
        if k in ("prim", "enum", "opaque", "lit"):
            return True
        if k in ("seq", "list"):
            return self.raw_ok(ty[1], _seen)
        if k == "map":
            return self.raw_ok(ty[2], _seen)
        if k == "union":
            return all(self.raw_ok(m, _seen) for m in ty[1])
        return False

    # -------------------------------------------------------------------------------------
    def sub(self, a, b, lossless: bool, present=None, absent=frozenset(), _seen=None, narrow=None) -> str | None:
        """Is every valid value of `a` (restricted at top level to the given key shape) accepted as a
        valid value of `b` -- and, when `lossless`, without dropping a declared key?  Returns None
        when yes, else a reason.  Coinductive on (a, b) pairs for recursive structures."""
        if _seen is None:
            _seen = set()
        if a == b and (a[0] != "cls" or (present is None and not absent)) and not narrow:
            return None
        if b[0] == "prim" and b[1] in ("any", "object"):
            return None
        if b[0] == "opaque":
            return None if self.kinds(a) <= frozenset(["obj"]) else f"{show(a)} is not an object"
        if a[0] == "union":
            for m in sorted(a[1], key=repr):
                r = self.sub(m, b, lossless, None, frozenset(), _seen)
                if r:
                    return r
            return None
        if b[0] == "union":
            reasons = []
            for m in sorted(b[1], key=repr):
                r = self.sub(a, m, lossless, present, absent, _seen, narrow)
                if r is None:
                    return None
                reasons.append(r)
            return f"no member of {show(b)} accepts {show(a)}"
        ka, kb = a[0], b[0]
        if ka == "prim" and kb == "prim":
            if a[1] == b[1]:
                return None
            if a[1] == "int" and b[1] == "float":
                return None
            return f"{show(a)} is not {show(b)}"
        if ka == "enum" and kb == "enum":
            return None if a[1] == b[1] else f"enum {a[1]} is not enum {b[1]}"
        if ka in ("prim", "lit") and kb == "enum":
            return f"{b[1]}(value) raises for values outside the enumeration"
        if ka == "enum" and kb == "prim":
            base = self.types.classes[a[1]].enum_base
            return None if base == b[1] else f"enum {a[1]} is not {show(b)}"
        if ka == "lit" and kb == "prim":
            return None if all(isinstance(v, str) for v in a[1]) == (b[1] == "str") else f"{show(a)} is not {show(b)}"
        if ka == "lit" and kb == "lit":
            return None if set(a[1]) <= set(b[1]) else f"{show(a)} is not {show(b)}"
        if ka in ("seq", "list") and kb in ("seq", "list"):
            return self.sub(a[1], b[1], lossless, None, frozenset(), _seen)
        if ka == "tup" and kb == "tup":
            if len(a[1]) != len(b[1]):
                return "tuple arity differs"
            for x, y in zip(a[1], b[1]):
                r = self.sub(x, y, lossless, None, frozenset(), _seen)
                if r:
                    return r
            return None
        if ka == "map" and kb == "map":
            return self.sub(a[1], b[1], lossless, None, frozenset(), _seen) or \
                self.sub(a[2], b[2], lossless, None, frozenset(), _seen)
        if ka == "cls" and kb == "cls":
            key = (a, b, lossless, None if present is None else frozenset(present), frozenset(absent),
                   None if not narrow else tuple(sorted(narrow.items(), key=repr)))
            if key in _seen:
                return None
            _seen.add(key)
            da, db = self.decl(a[1]), self.decl(b[1])
            for w, d in db.items():
                if not d.required:
                    continue
                if w not in da:
                    return f"{b[1]} requires '{w}' which {a[1]} does not declare"
                if w in absent:
                    return f"{b[1]} requires '{w}' which is absent in this shape"
                if not da[w].required and not (present is not None and w in present):
                    return f"{b[1]} requires '{w}' which is optional in {a[1]}"
            for w, d in da.items():
                if w in absent:
                    continue
                if w in db:
                    if d.ty is None or db[w].ty is None:
                        continue
                    if d.literal is not None and db[w].literal is not None and d.literal != db[w].literal:
                        return f"'{w}' is the literal {d.literal!r} in {a[1]} but {db[w].literal!r} in {b[1]}"
                    aty = narrow[w] if narrow and w in narrow else d.ty
                    r = self.sub(aty, db[w].ty, lossless, None, frozenset(), _seen)
                    if r:
                        return f"'{w}': {r}"
                elif lossless:
                    if d.required or (present is not None and w in present):
                        return f"'{w}' of {a[1]} is not declared by {b[1]} and would be dropped"
                    if present is None:
                        return f"optional '{w}' of {a[1]} is not declared by {b[1]} and would be dropped"
                    # optional key whose presence was not constrained on this path: a world where
                    # it is present is covered by the caller (it forks on every declared key the
                    # target lacks), so nothing to report here
                    return f"optional '{w}' of {a[1]} is not declared by {b[1]} and would be dropped"
            return None
        return f"{show(a)} is not accepted as {show(b)}"


# ------------------------------------------------------------------------------------------------
# worlds

class World:
    """Constraints accumulated along one path: chosen alternative per access path, presence of
    keys, emptiness of arrays."""

    def __init__(self, alt, parent=None):
        self.alt = dict(parent.alt) if parent else {(): alt}
        self.keys = dict(parent.keys) if parent else {}
        self.empty = dict(parent.empty) if parent else {}
        # universal constraints on the elements of an array value: path -> [(test node, var name, truth)]
        self.elem = {k: list(v) for k, v in parent.elem.items()} if parent else {}
        self.trace = list(parent.trace) if parent else []

    def fork(self):
        return World(None, self)

    def describe(self):
        bits = []
        for path, a in sorted(self.alt.items(), key=repr):
            if path != () and not (len(path) == 1 and isinstance(path[0], str) and path[0].startswith("#")):
                bits.append(_pstr(path) + ":" + show(a))
        for (path, k), v in sorted(self.keys.items(), key=repr):
            if not isinstance(k, str):
                continue
            bits.append(("+" if v else "-") + _pstr(path, k))
        for path, v in sorted(self.empty.items(), key=repr):
            bits.append((_pstr(path) or "value") + ("=[]" if v else "!=[]"))
        for path, cs in sorted(self.elem.items(), key=repr):
            for node, var, truth in cs:
                bits.append(f"all {(_pstr(path) or 'value')}[*]: " + ("" if truth else "not ") + "(" + ast.unparse(node)[:60] + ")")
        return "{" + ", ".join(bits) + "}"


def _pstr(path, key=None):
    out = ""
    for p in path:
        if isinstance(p, int):
            out += f"[{p}]"
        elif isinstance(p, tuple):
            out += f".get({p[1]})"
        elif isinstance(p, str) and p.startswith("#"):
            out += p[1:]
        else:
            out += ("." if out else "") + str(p)
    if key is not None:
        out += ("." if out else "") + key
    return out


class Fork(Exception):
    """Evaluation needs a decision that the world does not fix yet."""

    def __init__(self, options):
        self.options = options   # list of functions World -> None that apply the constraint


class Leaf:
    def __init__(self, kind, **kw):
        self.kind = kind
        self.__dict__.update(kw)

    def __repr__(self):
        d = {k: v for k, v in self.__dict__.items() if k not in ("kind", "node")}
        return f"{self.kind}{d}"


BOTH = object()


_TYPEPARAM = ("<the type the hook is called for>",)


class HookEval:
    """Evaluates one hook (FunctionDef / Lambda / synthetic decision list) on one alternative."""

    def __init__(self, shapes: Shapes, hooks: HooksModule, fn, conv_name: str, rel: str, closure=None):
        self.sh = shapes
        self.hooks = hooks
        self.fn = fn
        self.conv = conv_name
        self.rel = rel
        # the evaluator closure of the hook (present when registrations were extracted by folding): gives the
        # values of the free variables of the hook at registration time (late-bound loop variables, local tables,
        # helper functions)
        self.closure = closure
        self.probes: list[tuple[tuple, str]] = []   # (path, key) probed
        self.iterated_mapping: list[str] = []
        self.imprecise = False      # a test was approximated as "either outcome" (whole-value test)
        self.boundvals: dict = {}      # parameters bound by functools.partial
        if isinstance(fn, (ast.FunctionDef, ast.Lambda)):
            bound = list(getattr(closure, "bound", ()) or ())
            bound_kw = dict(getattr(closure, "bound_kw", {}) or {})
            names = [a.arg for a in fn.args.args]
            for nm, v in zip(names, bound):
                self.boundvals[nm] = v
            self.boundvals.update(bound_kw)
            rest = [nm for nm in names[len(bound):] if nm not in bound_kw]
            if len(rest) != 2:
                raise AnalysisError(f"{rel}: hook {self.name} does not take (object, type)")
            self.param, self.tparam = rest
        else:
            self.param = "object_"
            self.tparam = "_"
        self.locals: dict[str, tuple] = {}
        self._inline_depth = 0
        self.hook_aliases = {}
        self.accums = {}
        self.nestedfns = {}
        # names bound to folded VALUES (strings, type objects, tables) by helper inlining / loop unrolling
        self.valenv: list[dict] = []
        self.localvals: dict = {}      # locals of the hook bound to folded values
        self.localexprs: dict = {}     # locals bound to an input-dependent type expression (`T = A if "k" in x else B`)
        self.conv_aliases: set = set()  # local aliases of <converter>.structure
        self._synth: dict = {}

    @property
    def name(self):
        return getattr(self.fn, "name", "<lambda>")

    # ---------------------------------------------------------------- free variables of the hook
    _NOVALUE = object()

    def free_value(self, name: str):
        """Value of a free variable of the hook in its evaluator closure, or _NOVALUE."""
        for frame in reversed(self.valenv):
            if name in frame:
                return frame[name]
        if name in self.localvals:
            return self.localvals[name]
        if name in self.boundvals:
            return self.boundvals[name]
        c = self.closure
        if c is None:
            return self._NOVALUE
        e = c.env
        while e is not None:
            if name in e:
                return e[name]
            e = e.get("__parent__")
        g = getattr(c.interp, "globals", {})
        return g.get(name, self._NOVALUE)

    def fold_value(self, node):
        """Constant-fold an expression in the hook's closure (helper arguments, loop iterables); _NOVALUE if it
        does not fold."""
        if isinstance(node, ast.Name):
            return self.free_value(node.id)
        if isinstance(node, ast.Constant):
            return node.value
        c = self.closure
        if c is None:
            return self._NOVALUE
        from .microeval import Raised
        env = {"__parent__": c.env}
        env.update(self.boundvals)
        env.update(self.localvals)
        for frame in self.valenv:
            env.update(frame)
        try:
            return c.interp.eval(node, env)
        except (AnalysisError, Raised):
            return self._NOVALUE

    def helper_fn(self, name: str):
        """A helper function visible from the hook: FunctionDef or None."""
        if name in self.nestedfns:
            return self.nestedfns[name]
        v = self.free_value(name)
        if v is not self._NOVALUE and hasattr(v, "node") and isinstance(v.node, (ast.FunctionDef, ast.Lambda)):
            return v.node
        for fns in self.hooks.local_fns.values():
            if name in fns:
                return fns[name]
        return self.hooks.functions.get(name)

    # ---------------------------------------------------------------- type lookup for leaves
    def target_type(self, node):
        try:
            ty, _ = parse_type(node, f"{self.rel}:{node.lineno} structure target", self.hooks._mk_lookup({}))
            return self.sh.types.resolve(ty)
        except AnalysisError:
            if isinstance(node, ast.Name):
                v = self.free_value(node.id)
                if isinstance(v, type) and v.__name__ in PRIM_NAMES:
                    return ("prim", v.__name__)
                if v is not self._NOVALUE:
                    from .hooks import value_to_ty
                    return self.sh.types.resolve(value_to_ty(self.sh.types, v).ty)
            raise

    def _pin_types(self, elt, var, w, extra):
        """Locals naming an input-dependent structure target that an element expression uses (`T = A if test else B` /
        `... for x in value: structure(x, T)`): T is computed once, before the loop, so it is resolved here, in the world
        of the whole value, and handed to the element worlds as a fixed type."""
        from .hooks import TyVal
        pinned = {}
        for n_ in ast.walk(elt):
            if isinstance(n_, ast.Name) and n_.id != var and n_.id not in pinned:
                fv = self._frame_value(n_.id)
                if isinstance(fv, _LocalExpr) or (fv is None and n_.id in self.localexprs):
                    try:
                        ty = self._type_in_world(n_, w, extra)
                    except AnalysisError:
                        continue            # not a type (a boolean local, ...): left to the element world
                    pinned[n_.id] = TyVal(ty)
        return pinned

    def _type_in_world(self, node, w, extra):
        """structure target that may depend on the input through a conditional expression (directly or via a local)"""
        if isinstance(node, ast.Name):
            fv = self._frame_value(node.id)
            if isinstance(fv, _LocalExpr):
                return self._type_in_world(fv.expr, w, {**fv.extra, **(extra or {})})
            if type(fv).__name__ == "TyVal":
                return self.sh.types.resolve(fv.ty)
        if isinstance(node, ast.Name) and node.id in self.localexprs:
            expr, ex = self.localexprs[node.id]
            return self._type_in_world(expr, w, {**ex, **(extra or {})})
        if isinstance(node, ast.IfExp):
            r = self._decide(node.test, w, extra)
            if isinstance(r, tuple):
                raise AnalysisError(f"{self.rel}:{node.lineno}: the test choosing a structure target raises in {self.name}: {r[1]}")
            return self._type_in_world(node.body if r else node.orelse, w, extra)
        if isinstance(node, ast.Call) and isinstance(node.func, ast.Name) and not node.keywords and node.args \
                and any(self.path_of(a, extra) is not None for a in node.args):
            # a helper of the package that *chooses* the class from the value: inlined, its returns are type expressions
            hf = self.helper_fn(node.func.id)
            if hf is not None and len(hf.args.args) == len(node.args) and self._inline_depth < 4:
                b = self._bind_args(hf, node.args, extra)
                if b is not None:
                    extra2, frame = b
                    self._inline_depth += 1
                    self.valenv.append(frame)
                    try:
                        r = self._type_block(self._body_of(hf), w, extra2, hf)
                    finally:
                        self.valenv.pop()
                        self._inline_depth -= 1
                    if r is None:
                        raise AnalysisError(f"{self.rel}:{node.lineno}: helper {node.func.id} used as a structure target may return nothing")
                    return r
        return self.target_type(node)

    def _type_block(self, body, w, extra, fn):
        for st in body:
            if isinstance(st, ast.Expr) and isinstance(st.value, ast.Constant):
                continue
            if isinstance(st, ast.Return):
                if st.value is None:
                    return None
                return self._type_in_world(st.value, w, extra)
            if isinstance(st, ast.If):
                r = self._decide(st.test, w, extra)
                if isinstance(r, tuple):
                    raise AnalysisError(f"{self.rel}:{st.lineno}: the test choosing a structure target raises in {getattr(fn, 'name', '?')}: {r[1]}")
                sub = self._type_block(st.body if r else st.orelse, w, extra, fn)
                if sub is not None:
                    return sub
                continue
            raise AnalysisError(f"{self.rel}:{st.lineno}: statement {type(st).__name__} in type-choosing helper {getattr(fn, 'name', '?')}")
        return None

    # ---------------------------------------------------------------- access paths
    def path_of(self, node, extra: dict | None = None):
        """object_ | X[0] | X["k"] | X.get("k")  ->  tuple path, or None."""
        extra = extra or {}
        if isinstance(node, ast.Name):
            if node.id == self.param:
                return ()
            if node.id in extra:
                return extra[node.id]
            if node.id in self.locals:
                return self.locals[node.id]
            return None
        if isinstance(node, ast.NamedExpr) and isinstance(node.target, ast.Name):
            p = self.path_of(node.value, extra)
            if p is not None:
                self.locals[node.target.id] = p          # `(kind := object_["kind"]) == ...`
            return p
        if isinstance(node, ast.Subscript):
            base = self.path_of(node.value, extra)
            if base is None:
                return None
            sl = self._const_key(node.slice, extra)
            if sl is not None:
                return base + (sl,)
            return None
        if isinstance(node, ast.Call) and isinstance(node.func, ast.Attribute) and node.func.attr == "get" \
                and len(node.args) >= 1 and self._const_key(node.args[0], extra) is not None:
            base = self.path_of(node.func.value, extra)
            if base is None:
                return None
            return base + (("get", self._const_key(node.args[0], extra)),)
        return None

    def _const_key(self, sl, extra):
        """A subscript / .get() key: a constant, or a name bound to a folded string / int (loop unrolling)."""
        if isinstance(sl, ast.Constant) and isinstance(sl.value, (int, str)) and not isinstance(sl.value, bool):
            return sl.value
        if isinstance(sl, ast.Name) and sl.id != self.param and sl.id not in (extra or {}) and sl.id not in self.locals:
            v = self.free_value(sl.id)
            if isinstance(v, (int, str)) and not isinstance(v, bool):
                return v
        return None

    def value_at(self, w: World, path):
        """tyexpr of the value at `path` in world w (forks over union alternatives lazily).
        Accessing a key that may be absent / an index of a possibly-empty array raises Fork or
        returns the marker ('error', reason)."""
        if path in w.alt:
            return w.alt[path]
        if not path:
            raise AnalysisError(f"{self.rel}: the value of the hook's input is not fixed in this world ({self.name})")
        base = self.value_at(w, path[:-1])
        if isinstance(base, tuple) and base and base[0] == "error":
            return base
        step = path[-1]
        getter = False
        if isinstance(step, tuple) and step[0] == "get":
            getter, step = True, step[1]
        if isinstance(step, int):
            if base[0] == "prim" and base[1] == "any":
                ty = ANY
            elif base[0] in ("seq", "list"):
                emp = w.empty.get(path[:-1])
                if emp is None:
                    def mk(v):
                        def app(x):
                            x.empty[path[:-1]] = v
                        return app
                    raise Fork([mk(True), mk(False)])
                if emp:
                    return ("error", f"index {step} of an empty array")
                ty = base[1]
            elif base[0] == "tup":
                if step >= len(base[1]):
                    return ("error", f"index {step} out of range of {show(base)}")
                ty = base[1][step]
            elif base[0] == "prim" and base[1] == "str":
                ty = ("prim", "str")
            else:
                return ("error", f"integer index on {show(base)}")
        else:
            if base[0] == "cls":
                d = self.sh.decl(base[1])
                self.probes.append((path[:-1], step, base))
                if step not in d:
                    if getter:
                        ty = NONE
                    else:
                        return ("error", f"key '{step}' is not declared by {base[1]}")
                else:
                    pres = self._presence(w, path[:-1], step, d[step])
                    if pres is False:
                        ty = NONE if getter else ("error", f"key '{step}' absent")
                        if not getter:
                            return ty
                    else:
                        ty = d[step].ty
                        if ty is None:
                            raise AnalysisError(f"{self.rel}: {base[1]}.{step} has no Python field")
                        if d[step].literal is not None:
                            ty = ("lit", (d[step].literal,))
            elif base[0] in ("map", "opaque") or (base[0] == "prim" and base[1] == "any"):
                ty = ANY if base[0] != "map" else base[2]
            else:
                return ("error", f"string key on {show(base)}")
        if ty[0] == "union":
            opts = sorted(ty[1], key=repr)

            def mk2(m):
                def app(x):
                    x.alt[path] = m
                return app
            raise Fork([mk2(m) for m in opts])
        w.alt[path] = ty
        return ty

    def _presence(self, w: World, path, key, d: Decl):
        if d.required:
            return True
        v = w.keys.get((path, key))
        if v is None:
            def mk(val):
                def app(x):
                    x.keys[(path, key)] = val
                return app
            raise Fork([mk(True), mk(False)])
        return v

    # ---------------------------------------------------------------- tests
    def truth(self, node, w: World, extra=None):
        """-> True | False  (raises Fork when undetermined) or ('error', reason)."""
        if isinstance(node, ast.BoolOp):
            if isinstance(node.op, ast.And):
                for v in node.values:
                    r = self.truth(v, w, extra)
                    if r is not True:
                        return r
                return True
            for v in node.values:
                r = self.truth(v, w, extra)
                if r is not False:
                    return r
            return False
        if isinstance(node, ast.UnaryOp) and isinstance(node.op, ast.Not):
            r = self.truth(node.operand, w, extra)
            return (not r) if isinstance(r, bool) else r
        if isinstance(node, ast.Constant):
            return bool(node.value)
        if isinstance(node, ast.Compare) and len(node.ops) == 1:
            op, left, right = node.ops[0], node.left, node.comparators[0]
            # X is None / X is not None
            if isinstance(op, (ast.Is, ast.IsNot)) and isinstance(right, ast.Constant) and right.value is None:
                p = self.path_of(left, extra)
                if p is None:
                    raise AnalysisError(f"{self.rel}:{node.lineno}: unsupported `is None` operand in {self.name}")
                v = self.value_at(w, p)
                if v[0] == "error":
                    return v
                ks = self.sh.kinds(v)
                nkey = (("isnone", p), None)
                if ks == frozenset(["null"]):
                    r = True
                elif "null" not in ks:
                    r = False
                elif nkey in w.keys:
                    r = w.keys[nkey]
                else:
                    # undetermined (Any / a union not yet split): both worlds, each remembering what it assumed
                    def mkn(val):
                        def app(x):
                            x.keys[nkey] = val
                            if val:
                                x.alt[p] = NONE
                        return app
                    raise Fork([mkn(True), mkn(False)])
                return r if isinstance(op, ast.Is) else not r
            # a name bound to a folded string (loop unrolling / helper inlining) counts as that constant
            if isinstance(left, ast.Name) and self.path_of(left, extra) is None:
                lv = self.free_value(left.id)
                if isinstance(lv, str):
                    left = ast.copy_location(ast.Constant(value=lv), left)
            if isinstance(right, ast.Name) and self.path_of(right, extra) is None:
                rv = self.free_value(right.id)
                if isinstance(rv, (str, int)) and not isinstance(rv, bool):
                    right = ast.copy_location(ast.Constant(value=rv), right)
                elif isinstance(rv, (tuple, list, set, frozenset)) and all(isinstance(x, (str, int)) for x in rv):
                    right = ast.copy_location(ast.Tuple(elts=[ast.Constant(value=x) for x in rv], ctx=ast.Load()), right)
            # "k" in X / "k" not in X
            if isinstance(op, (ast.In, ast.NotIn)) and isinstance(left, ast.Constant) and isinstance(left.value, str):
                p = self.path_of(right, extra)
                if p is None:
                    raise AnalysisError(f"{self.rel}:{node.lineno}: unsupported `in` operand in {self.name}")
                v = self.value_at(w, p)
                if v[0] == "error":
                    return v
                r = self._has_key(w, p, v, left.value)
                if not isinstance(r, bool):
                    return r
                return r if isinstance(op, ast.In) else not r
            # len(X) == 0 etc.
            if isinstance(left, ast.Call) and dotted(left.func) == "len" and len(left.args) == 1 \
                    and isinstance(right, ast.Constant) and isinstance(right.value, int):
                p = self.path_of(left.args[0], extra)
                if p is None:
                    raise AnalysisError(f"{self.rel}:{node.lineno}: unsupported len() operand in {self.name}")
                v = self.value_at(w, p)
                if v[0] == "error":
                    return v
                if v[0] not in ("seq", "list"):
                    if v[0] in ("cls", "map", "opaque"):
                        self.iterated_mapping.append(f"len() of a mapping at line {node.lineno}")
                        self.imprecise = True
                        return self._fork_bool()
                    if v[0] == "prim" and v[1] == "str":
                        return self._fork_bool()
                    if v[0] == "tup":
                        n = len(v[1])
                        return _cmp_int(op, n, right.value)
                    return ("error", f"len() of {show(v)}")
                emp = w.empty.get(p)
                if emp is None:
                    def mk(val):
                        def app(x):
                            x.empty[p] = val
                        return app
                    raise Fork([mk(True), mk(False)])
                if emp:
                    return _cmp_int(op, 0, right.value)
                # non-empty: length >= 1, unknown otherwise
                if isinstance(op, ast.Eq) and right.value == 0:
                    return False
                if isinstance(op, ast.NotEq) and right.value == 0:
                    return True
                if isinstance(op, ast.Gt) and right.value == 0:
                    return True
                if isinstance(op, ast.GtE) and right.value <= 1:
                    return True
                if isinstance(op, ast.Lt) and right.value <= 1:
                    return False
                return self._fork_bool()
            # X == "lit" / X != "lit" / X in ("a", "b")
            p = self.path_of(left, extra)
            if p is not None and isinstance(op, (ast.Eq, ast.NotEq, ast.In, ast.NotIn)):
                lits = None
                if isinstance(right, ast.Constant):
                    lits = (right.value,)
                elif isinstance(right, (ast.Tuple, ast.List, ast.Set)) and all(isinstance(e, ast.Constant) for e in right.elts):
                    lits = tuple(e.value for e in right.elts)
                if lits is not None:
                    v = self.value_at(w, p)
                    if v[0] == "error":
                        return v
                    pos = isinstance(op, (ast.Eq, ast.In))
                    if v[0] == "lit":
                        if all(x in lits for x in v[1]):
                            return pos
                        if not any(x in lits for x in v[1]):
                            return not pos
                        return self._fork_bool()
                    if v[0] == "enum":
                        vals = [mv for _, mv in self.sh.types.classes[v[1]].members]
                        if not any(x in lits for x in vals) and not self.sh.mm.enum_open(v[1]) if v[1] in self.sh.mm.enums else False:
                            return not pos
                        return self._fork_bool()
                    ks = self.sh.kinds(v)
                    lk = frozenset("str" if isinstance(x, str) else "bool" if isinstance(x, bool) else
                                   "null" if x is None else "num" for x in lits)
                    if not (ks & lk):
                        return not pos
                    return self._fork_bool()
            whole = self._whole_value_ops(node, w, extra)
            if whole:
                # a comparison that looks at a mapping as a whole (its key set): undetermined for the analysis, and it
                # observes undeclared keys (reported under C15)
                self.iterated_mapping.extend(whole)
                self.imprecise = True
                return BOTH
            raise AnalysisError(f"{self.rel}:{node.lineno}: unsupported comparison in {self.name}: "
                                f"{ast.unparse(node)}")
        if isinstance(node, ast.Call) and dotted(node.func) in ("any", "all") and len(node.args) == 1 \
                and isinstance(node.args[0], (ast.GeneratorExp, ast.ListComp)) and len(node.args[0].generators) == 1:
            return self._quantified(node, w, extra)
        if isinstance(node, ast.Call) and dotted(node.func) in ("len", "bool") and len(node.args) == 1 and not node.keywords:
            if dotted(node.func) == "bool":
                return self.truth(node.args[0], w, extra)
            # `if len(x):`  ==  `if len(x) > 0:`
            key = ("synth-len", id(node))
            synth = self._synth.get(key)
            if synth is None:
                synth = ast.Compare(left=node, ops=[ast.Gt()], comparators=[ast.Constant(value=0)])
                ast.copy_location(synth, node)
                ast.fix_missing_locations(synth)
                self._synth[key] = synth
            return self.truth(synth, w, extra)
        if isinstance(node, ast.Call) and isinstance(node.func, ast.Name) and node.func.id not in ("isinstance", "len", "any", "all") \
                and not node.keywords and node.args:
            hf = self.helper_fn(node.func.id)
            if hf is not None and len(hf.args.args) == len(node.args) and self._inline_depth < 4:
                return self._call_bool(hf, node.args, w, extra)
        if isinstance(node, ast.Call) and dotted(node.func) == "isinstance" and len(node.args) == 2:
            p = self.path_of(node.args[0], extra)
            if p is None:
                raise AnalysisError(f"{self.rel}:{node.lineno}: unsupported isinstance operand in {self.name}")
            t = node.args[1]
            names = [dotted(e) for e in t.elts] if isinstance(t, ast.Tuple) else [dotted(t)]
            if isinstance(t, ast.Name) and t.id not in PRIM_NAMES:
                tv = self.free_value(t.id)
                tvs = tv if isinstance(tv, tuple) else (tv,)
                if all(isinstance(x, type) and x.__name__ in PRIM_NAMES for x in tvs):
                    names = [x.__name__ for x in tvs]
            if any(n not in PRIM_NAMES for n in names):
                raise AnalysisError(f"{self.rel}:{node.lineno}: isinstance against {names} in {self.name}")
            v = self.value_at(w, p)
            if v[0] == "error":
                return v
            return self._isinstance(w, p, v, set(names))
        if isinstance(node, ast.Name) and self.path_of(node, extra) is None and isinstance(self._frame_value(node.id), _LocalExpr):
            fv = self._frame_value(node.id)
            return self.truth(fv.expr, w, {**fv.extra, **(extra or {})})
        if isinstance(node, ast.Name) and node.id in self.localexprs and self.path_of(node, extra) is None:
            expr, ex = self.localexprs[node.id]
            return self.truth(expr, w, {**ex, **(extra or {})})
        # a closure flag / folded local used as a test (`if accept_primitives and ...`)
        if isinstance(node, ast.Name) and self.path_of(node, extra) is None:
            fv = self.free_value(node.id)
            if fv is not self._NOVALUE and isinstance(fv, (bool, int, str, type(None), tuple, list, dict, frozenset, set)):
                return bool(fv)
        # truthiness of a value
        p = self.path_of(node, extra)
        if p is not None:
            v = self.value_at(w, p)
            if v[0] == "error":
                return v
            ks = self.sh.kinds(v)
            if ks == frozenset(["null"]):
                return False
            if v[0] in ("seq", "list"):
                emp = w.empty.get(p)
                if emp is None:
                    def mk(val):
                        def app(x):
                            x.empty[p] = val
                        return app
                    raise Fork([mk(True), mk(False)])
                return not emp
            if v[0] == "cls" and any(d.required for d in self.sh.decl(v[1]).values()):
                return True
            if v[0] in ("cls", "map"):
                # truthiness of an object none of whose members is required: `{}` is false, `{"anything": 1}` is true --
                # the test counts keys, undeclared ones included (reported under C15)
                self.iterated_mapping.append(f"truthiness of a mapping ({show(v)}) at line {getattr(node, 'lineno', '?')}")
            if len(ks) > 1:
                return self._fork_any(w, p, v)
            return self._fork_bool()
        whole = self._whole_value_ops(node, w, extra)
        if whole:
            # the test looks at the value as a whole (its key set / size / iteration order): undetermined for
            # the analysis, and for a mapping it observes undeclared keys (reported under C15)
            self.iterated_mapping.extend(whole)
            self.imprecise = True
            return BOTH
        raise AnalysisError(f"{self.rel}:{getattr(node, 'lineno', '?')}: unsupported test in {self.name}: "
                            f"{ast.unparse(node)}")

    def _fork_bool(self):
        return BOTH

    def _whole_value_ops(self, node, w, extra):
        """Uses, inside a test, of a mapping-valued path *as a whole* (anything but: base of a ["k"] / .get("k")
        access, right operand of `"k" in`, operand of `is None`, first argument of isinstance)."""
        parents = {}
        for pnode in ast.walk(node):
            for c in ast.iter_child_nodes(pnode):
                parents[c] = pnode
        out = []
        for n in ast.walk(node):
            if not isinstance(n, (ast.Name, ast.Subscript, ast.Call)):
                continue
            p = self.path_of(n, extra)
            if p is None:
                continue
            par = parents.get(n)
            # skip sub-expressions of a longer path
            if isinstance(par, ast.Subscript) and par.value is n:
                continue
            if isinstance(par, ast.Attribute) and par.attr == "get" and par.value is n:
                continue
            if isinstance(par, ast.Compare):
                if len(par.ops) == 1 and isinstance(par.ops[0], (ast.In, ast.NotIn)) and par.comparators[0] is n \
                        and isinstance(par.left, ast.Constant):
                    continue
                if len(par.ops) == 1 and isinstance(par.ops[0], (ast.Is, ast.IsNot)):
                    continue
                if par.left is n and all(isinstance(c, ast.Constant) for c in par.comparators):
                    continue
            if isinstance(par, ast.Call) and dotted(par.func) == "isinstance" and par.args and par.args[0] is n:
                continue
            try:
                v = self.value_at(w, p)
            except Fork:
                raise
            if v[0] in ("cls", "map", "opaque") or (v[0] == "prim" and v[1] == "any"):
                how = ast.unparse(par)[:50] if par is not None else ast.unparse(n)
                out.append(f"the mapping {ast.unparse(n)} is used as a whole in `{how}` at line {getattr(n, 'lineno', '?')}")
        return out

    def _quantified(self, node, w: World, extra):
        """any(<test on item> for item in X) / all(...): decided from the set of truth values the test can
        take on an arbitrary valid element; an undetermined result forks the world and, in the branch where
        the quantifier fixes every element (any == False, all == True), records a universal element constraint
        that later restricts the element worlds of comprehension leaves over X."""
        which = dotted(node.func)
        comp = node.args[0]
        g = comp.generators[0]
        if g.ifs or not isinstance(g.target, ast.Name) or g.is_async:
            raise AnalysisError(f"{self.rel}:{node.lineno}: unsupported {which}() form in {self.name}")
        p = self.path_of(g.iter, extra)
        if p is None:
            # a quantifier over a constant table (`any(object_.get(k) for k in ("id", "documentSelector"))`): unrolled
            table = self.fold_value(g.iter)
            if table is self._NOVALUE or not isinstance(table, (list, tuple, set, frozenset)) or len(table) > 64:
                raise AnalysisError(f"{self.rel}:{node.lineno}: {which}() over a non-path in {self.name}")
            elems = sorted(table, key=repr) if isinstance(table, (set, frozenset)) else list(table)
            for elem in elems:
                frame = {}
                if isinstance(g.target, ast.Name):
                    frame[g.target.id] = elem
                elif isinstance(g.target, ast.Tuple) and all(isinstance(e, ast.Name) for e in g.target.elts) \
                        and isinstance(elem, (tuple, list)) and len(elem) == len(g.target.elts):
                    frame.update({e.id: x for e, x in zip(g.target.elts, elem)})
                else:
                    raise AnalysisError(f"{self.rel}:{node.lineno}: unsupported {which}() target in {self.name}")
                self.valenv.append(frame)
                try:
                    r = self.truth(comp.elt, w, extra)
                finally:
                    self.valenv.pop()
                if not isinstance(r, bool):
                    return r
                if which == "any" and r:
                    return True
                if which == "all" and not r:
                    return False
            return which == "all"
        v = self.value_at(w, p)
        if v[0] == "error":
            return v
        if v[0] not in ("seq", "list"):
            return ("error", f"{which}() iterates a {show(v)} value")
        emp = w.empty.get(p)
        if emp is None:
            def mk(val):
                def app(x):
                    x.empty[p] = val
                return app
            raise Fork([mk(True), mk(False)])
        if emp:
            return which == "all"
        key = (("quant", id(node)), None)
        if key in w.keys:
            return w.keys[key]
        # possible truth values of the element test over every element alternative x shape
        poss = set()
        var = g.target.id
        for e_alt in sorted(members(v[1]), key=repr):
            root = ("#" + var,)
            start = World(None, w)
            start.alt = {root: e_alt}
            start.keys, start.empty, start.elem = {}, {}, {}
            stack = [start]
            guard = 0
            while stack:
                w2 = stack.pop()
                guard += 1
                if guard > 2000:
                    raise AnalysisError(f"{self.rel}: world explosion in {which}() of {self.name}")
                try:
                    r = self._decide(comp.elt, w2, {**(extra or {}), var: root})
                except Fork as f:
                    for app in f.options:
                        w3 = w2.fork()
                        app(w3)
                        stack.append(w3)
                    continue
                if isinstance(r, tuple):
                    return r
                poss.add(bool(r))
        if poss == {True}:
            return True           # non-empty list, every element satisfies the test
        if poss == {False}:
            return False
        decided_all = which == "all"     # the outcome that pins every element

        def mk2(val):
            def app(x):
                x.keys[key] = val
                if val == decided_all:
                    x.elem.setdefault(p, []).append((comp.elt, var, decided_all))
            return app
        raise Fork([mk2(True), mk2(False)])

    def _fork_any(self, w, p, v):
        """A value of type Any (or a union not yet split): both outcomes are possible."""
        return BOTH

    def _has_key(self, w: World, p, v, key):
        if v[0] == "cls":
            d = self.sh.decl(v[1])
            self.probes.append((p, key, v))
            if key not in d:
                return False
            return self._presence(w, p, key, d[key])
        if v[0] in ("map", "opaque"):
            self.probes.append((p, key, v))
            return BOTH
        if v[0] == "prim" and v[1] == "any":
            return BOTH
        ks = self.sh.kinds(v)
        if ks <= frozenset(["str"]):
            return BOTH   # substring test on a string value
        if ks <= frozenset(["arr"]):
            return BOTH   # element membership
        return ("error", f"`'{key}' in` applied to a {'/'.join(sorted(ks))} value ({show(v)}) raises TypeError")

    def _isinstance(self, w, p, v, names: set):
        ks = self.sh.kinds(v)
        if v[0] == "prim" and v[1] in ("any", "object"):
            return BOTH
        hit = set()
        for k in ks:
            # JSON kind -> python runtime classes after json.loads
            py = {"null": set(), "bool": {"bool", "int"}, "num": {"int", "float"}, "str": {"str"},
                  "arr": {"list"}, "obj": {"dict"}}[k]
            if k == "num":
                # an integer-typed value is an int; a decimal may arrive as int or float
                if v[0] == "prim" and v[1] == "int" or v[0] == "enum" or v[0] == "lit":
                    py = {"int"}
                if py & names:
                    hit.add(True if py <= names else BOTH)
                else:
                    hit.add(False)
                continue
            hit.add(bool(py & names))
        if hit == {True}:
            return True
        if hit == {False}:
            return False
        return BOTH

    # ---------------------------------------------------------------- running
    def run(self, alt, post=None):
        """All (world, leaf, post-result) outcomes of the hook for alternative `alt`.  `post(w, leaf)`
        runs inside the forking loop so that it may itself need further world decisions."""
        out = []
        start = World(alt)
        stack = [start]
        guard = 0
        while stack:
            w = stack.pop()
            guard += 1
            if guard > 4000:
                raise AnalysisError(f"{self.rel}: world explosion in {self.name}")
            try:
                leaf = self._exec_fn(w)
                extra = post(w, leaf) if post is not None else None
                out.append((w, leaf, extra))
            except Fork as f:
                for app in f.options:
                    w2 = w.fork()
                    app(w2)
                    stack.append(w2)
        return out

    def _bind_args(self, fn, args, extra):
        """Arguments of an inlined helper: paths go to the path environment, everything else is folded to a value.
        -> (extra', value frame) or None when an argument is neither."""
        extra2 = dict(extra or {})
        frame = {}
        for prm, a in zip(fn.args.args, args):
            p = self.path_of(a, extra)
            if p is not None:
                extra2[prm.arg] = p
                continue
            if isinstance(a, ast.Name) and self._is_tparam(a):
                frame[prm.arg] = _TYPEPARAM      # the type the hook was called for, handed on to the helper
                continue
            if isinstance(a, ast.Name):
                fv = self._frame_value(a.id)
                if isinstance(fv, _LocalExpr):
                    frame[prm.arg] = fv
                    continue
                if a.id in self.localexprs:
                    frame[prm.arg] = _LocalExpr(*self.localexprs[a.id])
                    continue
            v = self.fold_value(a)
            if v is self._NOVALUE:
                if isinstance(a, (ast.IfExp, ast.BoolOp, ast.Compare, ast.UnaryOp)):
                    # an argument that depends on the input (`A if "k" in value else B`): resolved where it is used
                    frame[prm.arg] = _LocalExpr(a, dict(extra or {}))
                    continue
                return None
            frame[prm.arg] = v
        return extra2, frame

    def _frame_value(self, name):
        for frame in reversed(self.valenv):
            if name in frame:
                return frame[name]
        return None

    def _is_tparam(self, node) -> bool:
        if not isinstance(node, ast.Name):
            return False
        for frame in reversed(self.valenv):
            if node.id in frame:
                return frame[node.id] is _TYPEPARAM
        return node.id == self.tparam

    @staticmethod
    def _body_of(fn):
        """statement list of a helper (a lambda is `return <body>`)"""
        if isinstance(fn, ast.Lambda):
            r = ast.Return(value=fn.body)
            ast.copy_location(r, fn.body)
            return [r]
        return fn.body

    def _call_bool(self, fn, args, w, extra):
        """A helper of the package used as a predicate: inlined."""
        b = self._bind_args(fn, args, extra)
        if b is None:
            raise AnalysisError(f"{self.rel}:{fn.lineno}: arguments of helper {fn.name} do not fold")
        extra2, frame = b
        self._inline_depth += 1
        self.valenv.append(frame)
        try:
            return self._bool_block(self._body_of(fn), w, extra2, fn)
        finally:
            self.valenv.pop()
            self._inline_depth -= 1

    def _bool_block(self, body, w, extra, fn):
        for st in body:
            if isinstance(st, ast.Expr) and isinstance(st.value, ast.Constant):
                continue
            if isinstance(st, ast.Return):
                if st.value is None:
                    return False
                return self.truth(st.value, w, extra)
            if isinstance(st, ast.If):
                r = self._decide(st.test, w, extra)
                if isinstance(r, tuple):
                    return r
                sub = self._bool_block(st.body if r else st.orelse, w, extra, fn)
                if sub is not None:
                    return sub
                continue
            raise AnalysisError(f"{self.rel}:{st.lineno}: statement {type(st).__name__} in predicate helper {fn.name}")
        return None

    def _decide(self, node, w, extra=None):
        r = self.truth(node, w, extra)
        if r is BOTH:
            # an undetermined test that is not tied to a world constraint: remember the choice
            key = (("choice", id(node), tuple(sorted((extra or {}).items(), key=repr))), None)
            if key in w.keys:
                return w.keys[key]

            def mk(val):
                def app(x):
                    x.keys[key] = val
                return app
            raise Fork([mk(True), mk(False)])
        return r

    def _exec_fn(self, w: World):
        fn = self.fn
        if isinstance(fn, ast.Lambda):
            return self._leaf(fn.body, w)
        if isinstance(fn, list):     # synthetic decision list: [(key, cls_ty)], fallback
            raise AnalysisError("synthetic")
        self.locals = {}
        self.localvals = {}
        self.localexprs = {}
        self.conv_aliases = set()
        self.hook_aliases = {}
        self.accums = {}
        self.nestedfns = {}
        r = self._exec_block(fn.body, w)
        if r is _BREAK:
            raise AnalysisError(f"{self.rel}: break outside a loop in {self.name}")
        if isinstance(r, Leaf) and r.kind == "try" and r.handler is None:
            r.handler = Leaf("fallthrough", node=fn)
        if r is None:
            return Leaf("fallthrough", node=fn)
        return r

    def _resolve_pending(self, res, rest, w, extra):
        """`try: return A  except E: pass` leaves the except branch to whatever follows the statement: the rest of
        the block (and, if that falls through too, of the enclosing blocks) is its continuation."""
        if isinstance(res, Leaf) and res.kind == "try" and res.handler is None:
            cont = self._exec_block(rest, w, extra)
            if cont is _BREAK:
                raise AnalysisError(f"{self.rel}: break after a try statement in {self.name}")
            if cont is not None:
                res.handler = cont
        return res

    def _exec_block(self, body, w, extra=None):
        for i_, st in enumerate(body):
            if isinstance(st, ast.Expr) and isinstance(st.value, ast.Constant):
                continue
            if isinstance(st, ast.AnnAssign):
                if st.value is None:
                    continue
                st = ast.copy_location(ast.Assign(targets=[st.target], value=st.value), st)     # `x: T = v`
            if isinstance(st, ast.Pass):
                continue
            if isinstance(st, ast.Break):
                return _BREAK
            if isinstance(st, ast.FunctionDef) and not st.decorator_list:
                self.nestedfns[st.name] = st          # a helper defined inside the hook: inlined where it is called
                continue
            if isinstance(st, ast.Return):
                if st.value is None:
                    return Leaf("none", node=st)
                if isinstance(st.value, ast.Name) and (self._inline_depth, st.value.id) in self.accums:
                    acc = self.accums[(self._inline_depth, st.value.id)]
                    return acc if acc is not None else Leaf("empty", node=st, tuple=False)
                return self._leaf(st.value, w, extra)
            if isinstance(st, ast.Assign) and len(st.targets) == 1 and isinstance(st.targets[0], ast.Name) and (
                    (isinstance(st.value, ast.List) and not st.value.elts)
                    or (isinstance(st.value, ast.Call) and dotted(st.value.func) == "list" and not st.value.args)):
                # `out = []` : possibly the accumulator of a `for x in value: out.append(...)` loop
                self.accums[(self._inline_depth, st.targets[0].id)] = None
                self.localvals[st.targets[0].id] = []
                continue
            if isinstance(st, ast.Assign) and len(st.targets) == 1 and isinstance(st.targets[0], ast.Tuple) \
                    and isinstance(st.value, ast.Tuple) and len(st.value.elts) == len(st.targets[0].elts) \
                    and all(isinstance(e_, ast.Name) for e_ in st.targets[0].elts):
                # `a, b = X[0], X[1]`: one binding per position (no name on the left is read on the right)
                lhs = {e_.id for e_ in st.targets[0].elts}
                if not any(isinstance(n_, ast.Name) and n_.id in lhs for n_ in ast.walk(st.value)):
                    parts = [ast.copy_location(ast.Assign(targets=[t_], value=v_), st)
                             for t_, v_ in zip(st.targets[0].elts, st.value.elts)]
                    for p_ in parts:
                        ast.fix_missing_locations(p_)
                    res = self._exec_block(parts + list(body[i_ + 1:]), w, extra)
                    return res
            if isinstance(st, ast.Assign):
                st = self._norm_assign(st)
            if isinstance(st, ast.Raise):
                return Leaf("raise", node=st, what=ast.unparse(st)[:60])
            if isinstance(st, ast.Assert):
                r = self._decide(st.test, w, extra)
                if isinstance(r, tuple):
                    return Leaf("error", node=st, what=r[1])
                if r is False:
                    return Leaf("raise", node=st, what="assertion fails")
                continue
            if isinstance(st, ast.If):
                r = self._decide(st.test, w, extra)
                if isinstance(r, tuple):
                    return Leaf("error", node=st, what=r[1])
                res = self._exec_block(st.body if r else st.orelse, w, extra)
                if res is not None:
                    return self._resolve_pending(res, body[i_ + 1:], w, extra)
                continue
            if isinstance(st, ast.Assign) and len(st.targets) == 1 and isinstance(st.targets[0], ast.Name):
                p = self.path_of(st.value, extra)
                if p is not None:
                    self.locals[st.targets[0].id] = p
                    continue
                if dotted(st.value) == f"{self.conv}.structure":
                    self.conv_aliases.add(st.targets[0].id)       # `structure = converter.structure`
                    continue
                # a local bound to something that does not depend on the input (a key table, a type): folded
                if not any(self.path_of(n_, extra) is not None for n_ in ast.walk(st.value)
                           if isinstance(n_, (ast.Name, ast.Subscript, ast.Call))):
                    v = self.fold_value(st.value)
                    if v is not self._NOVALUE:
                        self.localvals[st.targets[0].id] = v
                        continue
                if isinstance(st.value, ast.Call) and dotted(st.value.func) == f"{self.conv}.get_structure_hook" \
                        and len(st.value.args) == 1 and not st.value.keywords:
                    # `h = converter.get_structure_hook(T)` ... `h(x, T)` is `converter.structure(x, T)`
                    self.hook_aliases[st.targets[0].id] = ast.unparse(st.value.args[0])
                    continue
                if isinstance(st.value, (ast.IfExp, ast.BoolOp, ast.Compare, ast.UnaryOp)) or (
                        isinstance(st.value, ast.Call) and dotted(st.value.func) in ("isinstance", "any", "all", "len", "bool")) or (
                        isinstance(st.value, ast.Call) and isinstance(st.value.func, ast.Name) and not st.value.keywords
                        and self.helper_fn(st.value.func.id) is not None
                        and any(self.path_of(a_, extra) is not None for a_ in st.value.args)):
                    # `item_type = A if <test on the input> else B` / `is_command = "command" in object_ and ...`:
                    # kept as an expression and resolved in the world where it is used
                    self.localexprs[st.targets[0].id] = (st.value, dict(extra or {}))
                    continue
            if isinstance(st, ast.Try):
                # `try: return A  except Exception: return B`: what the hook returns depends on whether A raises for
                # the value at hand; both leaves are kept and the judge decides (sites.judge, leaf kind "try")
                # handler types: everything a failing structure() call can raise is an Exception; a handler that names
                # exception classes is read as catching those failures (which of them actually arrive depends on the
                # converter's detailed_validation setting: that is C19's clause `handler-independent-of-validation-mode`)
                def hnames(h_):
                    if h_.type is None:
                        return ["Exception"]
                    ts_ = h_.type.elts if isinstance(h_.type, ast.Tuple) else [h_.type]
                    return [(dotted(t_) or "?").split(".")[-1] for t_ in ts_]
                known = {"Exception", "BaseException", "BaseValidationError", "ClassValidationError", "IterableValidationError",
                         "ExceptionGroup", "StructureHandlerNotFoundError", "ForbiddenExtraKeysError", "TypeError", "ValueError",
                         "KeyError", "LookupError", "IndexError", "AttributeError"}
                if st.finalbody or st.orelse or len(st.handlers) != 1 or not set(hnames(st.handlers[0])) <= known:
                    raise AnalysisError(f"{self.rel}:{st.lineno}: try statement inside hook {self.name} of a form that is "
                                        "not modelled (finally / else / several handlers / unknown exception classes)")
                tbody = self._exec_block(st.body, w, extra)
                if tbody is None or tbody is _BREAK:
                    raise AnalysisError(f"{self.rel}:{st.lineno}: try body inside hook {self.name} does not return")
                handler = self._exec_block(st.handlers[0].body, w, extra)
                if handler is _BREAK:
                    raise AnalysisError(f"{self.rel}:{st.lineno}: break in an except branch of {self.name}")
                leaf_ = Leaf("try", node=st, body=tbody, handler=handler, catches=tuple(hnames(st.handlers[0])))
                return self._resolve_pending(leaf_, body[i_ + 1:], w, extra) if handler is None else leaf_
            if isinstance(st, ast.For) and not st.orelse:
                res = self._exec_for(st, w, extra)
                if res is not None:
                    return self._resolve_pending(res, body[i_ + 1:], w, extra)
                continue
            if isinstance(st, (ast.For, ast.While)):
                raise AnalysisError(f"{self.rel}:{st.lineno}: loop statement inside hook {self.name}")
            raise AnalysisError(f"{self.rel}:{st.lineno}: unsupported statement {type(st).__name__} "
                                f"in hook {self.name}")
        return None

    def _exec_for(self, st: ast.For, w, extra):
        """Two loop idioms: (a) `for item in <array path>: if TEST: return LEAF` == `if any(TEST ...): return LEAF`;
        (b) a loop over a table that folds to a constant sequence: unrolled with the targets bound to values."""
        p = self.path_of(st.iter, extra)
        if p is not None:
            body = [s_ for s_ in st.body if not (isinstance(s_, ast.Expr) and isinstance(s_.value, ast.Constant))]
            # leading `if T: continue` guards become conjuncts `not T` of the final test
            guards = []
            while len(body) > 1 and isinstance(body[0], ast.If) and not body[0].orelse and len(body[0].body) == 1 \
                    and isinstance(body[0].body[0], ast.Continue):
                guards.append(ast.UnaryOp(op=ast.Not(), operand=body[0].test))
                body = body[1:]
            if len(body) == 1 and isinstance(body[0], ast.If) and not body[0].orelse and isinstance(st.target, ast.Name) \
                    and len(body[0].body) == 1 and isinstance(body[0].body[0], ast.Return) and body[0].body[0].value is not None:
                ret = body[0].body[0].value
                test = body[0].test if not guards else ast.BoolOp(op=ast.And(), values=guards + [body[0].test])
                if any(isinstance(n_, ast.Name) and n_.id == st.target.id for n_ in ast.walk(ret)):
                    raise AnalysisError(f"{self.rel}:{st.lineno}: loop in {self.name} returns a value built from the loop variable")
                key = ("synth-any", id(st))
                synth = self._synth.get(key)
                if synth is None:
                    gen = ast.GeneratorExp(elt=test, generators=[ast.comprehension(target=st.target, iter=st.iter,
                                                                                           ifs=[], is_async=0)])
                    synth = ast.Call(func=ast.Name(id="any", ctx=ast.Load()), args=[gen], keywords=[])
                    ast.copy_location(synth, st)
                    ast.fix_missing_locations(synth)
                    self._synth[key] = synth
                r = self._decide(synth, w, extra)
                if isinstance(r, tuple):
                    return Leaf("error", node=st, what=r[1])
                return self._leaf(ret, w, extra) if r else None
            # `for x in value: if TEST: V = E; break`  ==  `if any(TEST for x in value): V = E`
            if len(body) == 1 and isinstance(body[0], ast.If) and not body[0].orelse and isinstance(st.target, ast.Name) \
                    and len(body[0].body) >= 2 and isinstance(body[0].body[-1], ast.Break) \
                    and all(isinstance(s_, (ast.Assign, ast.AnnAssign)) for s_ in body[0].body[:-1]) \
                    and not any(isinstance(n_, ast.Name) and n_.id == st.target.id
                                for s_ in body[0].body[:-1] for n_ in ast.walk(s_)):
                test = body[0].test if not guards else ast.BoolOp(op=ast.And(), values=guards + [body[0].test])
                key = ("synth-any", id(st))
                synth = self._synth.get(key)
                if synth is None:
                    gen = ast.GeneratorExp(elt=test, generators=[ast.comprehension(target=st.target, iter=st.iter,
                                                                                           ifs=[], is_async=0)])
                    synth = ast.Call(func=ast.Name(id="any", ctx=ast.Load()), args=[gen], keywords=[])
                    ast.copy_location(synth, st)
                    ast.fix_missing_locations(synth)
                    self._synth[key] = synth
                r = self._decide(synth, w, extra)
                if isinstance(r, tuple):
                    return Leaf("error", node=st, what=r[1])
                if r:
                    res = self._exec_block(body[0].body[:-1], w, extra)
                    if res is not None:
                        return res
                return None
            # `for x in value: ...; out.append(E)`  ==  `out = [E' for x in value]`
            acc = self._accumulate_form(st, extra)
            if acc is not None:
                name, elt = acc
                key = (self._inline_depth, name)
                if self.accums.get(key, 0) is not None:
                    raise AnalysisError(f"{self.rel}:{st.lineno}: {name} in {self.name} is appended to by more than one loop "
                                        "(or is not a fresh list)")
                self.accums[key] = Leaf("each", node=st, path=p, var=st.target.id, elt=elt, ifs=[],
                                        frames=[dict(f) for f in self.valenv] + [self._pin_types(elt, st.target.id, w, extra)],
                                        extra=dict(extra or {}))
                return None
            raise AnalysisError(f"{self.rel}:{st.lineno}: loop over the input in {self.name} is not of the form "
                                "`for x in value: if TEST: return ...`")
        table = self.fold_value(st.iter)
        if table is self._NOVALUE or not isinstance(table, (list, tuple)):
            raise AnalysisError(f"{self.rel}:{st.lineno}: loop in {self.name} over something that is neither the input nor a constant table")
        if len(table) > 64:
            raise AnalysisError(f"{self.rel}:{st.lineno}: table too large to unroll")
        for elem in table:
            frame = {}
            if isinstance(st.target, ast.Name):
                frame[st.target.id] = elem
            elif isinstance(st.target, ast.Tuple) and all(isinstance(e, ast.Name) for e in st.target.elts) \
                    and isinstance(elem, (tuple, list)) and len(elem) == len(st.target.elts):
                for e, v in zip(st.target.elts, elem):
                    frame[e.id] = v
            else:
                raise AnalysisError(f"{self.rel}:{st.lineno}: unsupported loop target in {self.name}")
            self.valenv.append(frame)
            try:
                res = self._exec_block(st.body, w, extra)
            finally:
                self.valenv.pop()
            if res is _BREAK:
                return None
            if res is not None:
                return res
        return None

    def _norm_assign(self, st: ast.Assign):
        """`x = (A, B)[TEST]`  ->  `x = B if TEST else A` (the same statement every time it is met)"""
        v = st.value
        if isinstance(v, ast.Subscript) and isinstance(v.value, (ast.Tuple, ast.List)) and len(v.value.elts) == 2 \
                and isinstance(v.slice, (ast.Compare, ast.BoolOp, ast.UnaryOp)) \
                or (isinstance(v, ast.Subscript) and isinstance(v.value, (ast.Tuple, ast.List)) and len(v.value.elts) == 2
                    and isinstance(v.slice, ast.Call) and dotted(v.slice.func) in ("isinstance", "bool", "any", "all")):
            key = ("synth-ifexp", id(st))
            synth = self._synth.get(key)
            if synth is None:
                ife = ast.IfExp(test=v.slice, body=v.value.elts[1], orelse=v.value.elts[0])
                synth = ast.Assign(targets=st.targets, value=ife)
                ast.copy_location(ife, v)
                ast.copy_location(synth, st)
                ast.fix_missing_locations(synth)
                self._synth[key] = synth
            return synth
        return st

    def _accumulate_form(self, st: ast.For, extra):
        """A loop over the input whose body only rebinds locals and appends exactly one value per element to one list:
        -> (list name, element expression in terms of the loop variable) or None."""
        if not isinstance(st.target, ast.Name):
            return None
        key = ("synth-acc", id(st))
        if key in self._synth:
            return self._synth[key]
        import copy

        class Sub(ast.NodeTransformer):
            def __init__(s_, env):
                s_.env = env

            def visit_Name(s_, n):
                if isinstance(n.ctx, ast.Load) and n.id in s_.env:
                    return copy.deepcopy(s_.env[n.id])
                return n

        def subst(e, env):
            return Sub(env).visit(copy.deepcopy(e))

        def proc(block, env):
            """-> (env', (list name, appended expression) | None) or None when the block is not of the form"""
            app = None
            for s_ in block:
                if isinstance(s_, ast.Expr) and isinstance(s_.value, ast.Constant):
                    continue
                if isinstance(s_, ast.Pass):
                    continue
                if app is not None:
                    return None                      # something after the append
                if isinstance(s_, ast.AnnAssign) and s_.value is not None and isinstance(s_.target, ast.Name):
                    env = {**env, s_.target.id: subst(s_.value, env)}
                    continue
                if isinstance(s_, ast.Assign) and len(s_.targets) == 1 and isinstance(s_.targets[0], ast.Name):
                    env = {**env, s_.targets[0].id: subst(s_.value, env)}
                    continue
                if isinstance(s_, ast.Expr) and isinstance(s_.value, ast.Call) and isinstance(s_.value.func, ast.Attribute) \
                        and s_.value.func.attr == "append" and isinstance(s_.value.func.value, ast.Name) \
                        and len(s_.value.args) == 1 and not s_.value.keywords:
                    app = (s_.value.func.value.id, subst(s_.value.args[0], env))
                    continue
                if isinstance(s_, ast.If):
                    test = subst(s_.test, env)
                    b = proc(s_.body, env)
                    o = proc(s_.orelse, env)
                    if b is None or o is None:
                        return None
                    (eb, ab), (eo, ao) = b, o
                    if (ab is None) != (ao is None):
                        return None                  # appended on one branch only: a filter, not modelled
                    merged = dict(env)
                    for nm in set(eb) | set(eo):
                        vb = eb.get(nm, ast.Name(id=nm, ctx=ast.Load()))
                        vo = eo.get(nm, ast.Name(id=nm, ctx=ast.Load()))
                        if vb is not env.get(nm) or vo is not env.get(nm):
                            merged[nm] = ast.IfExp(test=copy.deepcopy(test), body=vb, orelse=vo)
                    env = merged
                    if ab is not None:
                        if ab[0] != ao[0]:
                            return None
                        app = (ab[0], ast.IfExp(test=test, body=ab[1], orelse=ao[1]))
                    continue
                return None
            return env, app
        r = proc(st.body, {})
        out = None
        if r is not None and r[1] is not None and not st.orelse:
            name, elt = r[1]
            ast.copy_location(elt, st)
            ast.fix_missing_locations(elt)
            out = (name, elt)
        self._synth[key] = out
        return out

    def _leaf(self, node, w, extra=None):
        extra = extra or {}
        if isinstance(node, ast.Constant) and node.value is None:
            return Leaf("none", node=node)
        if isinstance(node, ast.IfExp):
            r = self._decide(node.test, w, extra)
            if isinstance(r, tuple):
                return Leaf("error", node=node, what=r[1])
            return self._leaf(node.body if r else node.orelse, w, extra)
        p = self.path_of(node, extra)
        if p is not None:
            return Leaf("pass", node=node, path=p)
        if isinstance(node, ast.Call):
            d = dotted(node.func)
            if d in ("str", "int", "float", "bool") and len(node.args) == 1:
                p = self.path_of(node.args[0], extra)
                if p is not None:
                    return Leaf("coerce", node=node, path=p, to=d)
            if isinstance(node.func, ast.Name) and node.func.id in self.hook_aliases and len(node.args) == 2 and not node.keywords:
                if ast.unparse(node.args[1]) != self.hook_aliases[node.func.id]:
                    raise AnalysisError(f"{self.rel}:{node.lineno}: a structure hook fetched for one type is called for another in {self.name}")
                d = f"{self.conv}.structure"
            if (d == f"{self.conv}.structure" or (isinstance(node.func, ast.Name) and node.func.id in self.conv_aliases)) \
                    and len(node.args) == 2 and not node.keywords:
                p = self.path_of(node.args[0], extra)
                if p is None:
                    raise AnalysisError(f"{self.rel}:{node.lineno}: structure() of a non-path in {self.name}")
                if self._is_tparam(node.args[1]):
                    return Leaf("structure_self", node=node, path=p)
                return Leaf("structure", node=node, path=p, ty=self._type_in_world(node.args[1], w, extra))
            if d and d.endswith(".structure") and d != f"{self.conv}.structure":
                return Leaf("foreign_converter", node=node, what=d)
            # helper function of the package applied to a path: inline it
            if isinstance(node.func, ast.Name) and node.args and not node.keywords \
                    and any(self.path_of(a, extra) is not None for a in node.args):
                hf = self.helper_fn(node.func.id)
                if hf is not None and len(hf.args.args) == len(node.args) and self._inline_depth < 4:
                    b = self._bind_args(hf, node.args, extra)
                    if b is not None:
                        extra2, frame = b
                        self._inline_depth += 1
                        self.valenv.append(frame)
                        try:
                            r = self._exec_block(self._body_of(hf), w, extra2)
                        finally:
                            self.valenv.pop()
                            self._inline_depth -= 1
                        if isinstance(r, Leaf) and r.kind == "try" and r.handler is None:
                            r.handler = Leaf("fallthrough", node=hf)
                        return r if r is not None else Leaf("fallthrough", node=hf)
            # direct construction:  C(**path)  /  E(path)
            splat = [k for k in node.keywords if k.arg is None]
            if len(splat) == 1 and not node.args and len(node.keywords) == 1:
                sp = self.path_of(splat[0].value, extra)
                if sp is not None:
                    try:
                        cty = self.target_type(node.func)
                    except AnalysisError:
                        cty = None
                    if cty is not None and cty[0] == "cls":
                        return Leaf("construct", node=node, path=sp, ty=cty)
            if len(node.args) == 1 and not node.keywords:
                ap = self.path_of(node.args[0], extra)
                if ap is not None:
                    try:
                        cty = self.target_type(node.func)
                    except AnalysisError:
                        cty = None
                    if cty is not None and cty[0] == "enum":
                        # E(value): exactly what cattrs does for an enum position
                        return Leaf("structure", node=node, path=ap, ty=cty)
            # lookup in a table built at registration time:  TABLE.get(path)
            if isinstance(node.func, ast.Attribute) and node.func.attr == "get" and isinstance(node.func.value, ast.Name) \
                    and len(node.args) in (1, 2):
                lp = self.path_of(node.args[0], extra)
                tv = self.free_value(node.func.value.id)
                if lp is not None and isinstance(tv, dict):
                    return Leaf("lookup", node=node, path=lp, table=tv, strict=False, name=node.func.value.id)
        if isinstance(node, ast.Subscript) and isinstance(node.value, ast.Name):
            tv = self.free_value(node.value.id)
            lp = self.path_of(node.slice, extra)
            if lp is not None and isinstance(tv, dict):
                return Leaf("lookup", node=node, path=lp, table=tv, strict=True, name=node.value.id)
        if isinstance(node, (ast.List, ast.Tuple)):
            if not node.elts:
                return Leaf("empty", node=node, tuple=isinstance(node, ast.Tuple))
            subs = [self._leaf(e, w, extra) for e in node.elts]
            return Leaf("tuple" if isinstance(node, ast.Tuple) else "listlit", node=node, items=subs)
        # list(map(<converter>.structure, X, itertools.repeat(T)))  ==  [<converter>.structure(x, T) for x in X]
        if isinstance(node, ast.Call) and dotted(node.func) in ("list", "tuple") and len(node.args) == 1 \
                and isinstance(node.args[0], ast.Call) and dotted(node.args[0].func) == "map" and len(node.args[0].args) == 3:
            mp = node.args[0]
            f_, xs, rep = mp.args
            is_struct = dotted(f_) == f"{self.conv}.structure" or (isinstance(f_, ast.Name) and f_.id in self.conv_aliases)
            if is_struct and isinstance(rep, ast.Call) and (dotted(rep.func) or "").split(".")[-1] == "repeat" and len(rep.args) == 1:
                p = self.path_of(xs, extra)
                if p is not None:
                    var = "__map_item__"
                    elt = ast.Call(func=f_, args=[ast.Name(id=var, ctx=ast.Load()), rep.args[0]], keywords=[])
                    ast.copy_location(elt, node)
                    ast.fix_missing_locations(elt)
                    return Leaf("each", node=node, path=p, var=var, elt=elt, ifs=[],
                                frames=[dict(f) for f in self.valenv] + [self._pin_types(elt, var, w, extra)],
                                extra=dict(extra or {}))
        if isinstance(node, ast.ListComp) and len(node.generators) == 1:
            g = node.generators[0]
            if isinstance(g.target, ast.Name) and not g.is_async:
                p = self.path_of(g.iter, extra)
                if p is not None:
                    # the element expression is evaluated later (per element alternative): it keeps the value
                    # environment of the place it was written in (helper parameters, unrolled loop variables)
                    return Leaf("each", node=node, path=p, var=g.target.id, elt=node.elt, ifs=g.ifs,
                                frames=[dict(f) for f in self.valenv] + [self._pin_types(node.elt, g.target.id, w, extra)],
                                extra=dict(extra or {}))
        raise AnalysisError(f"{self.rel}:{getattr(node, 'lineno', '?')}: unsupported return expression in "
                            f"{self.name}: {ast.unparse(node)[:80]}")


_BREAK = object()


class _LocalExpr:
    """a helper parameter bound to an input-dependent expression of the caller"""
    def __init__(self, expr, extra):
        self.expr, self.extra = expr, extra


def _cmp_int(op, a, b):
    if isinstance(op, ast.Eq):
        return a == b
    if isinstance(op, ast.NotEq):
        return a != b
    if isinstance(op, ast.Gt):
        return a > b
    if isinstance(op, ast.GtE):
        return a >= b
    if isinstance(op, ast.Lt):
        return a < b
    if isinstance(op, ast.LtE):
        return a <= b
    raise AnalysisError("comparison operator")
