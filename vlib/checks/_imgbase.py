from ..common import Ctx
from ..image import Image


def image(ctx: Ctx) -> Image:
    # cached on the Sources object itself (never keyed by id(): ids are reused after garbage collection)
    im = getattr(ctx.src, "_image", None)
    if im is None:
        im = Image(ctx.src)
        ctx.src._image = im
    return im
