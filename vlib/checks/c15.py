"""C15 -- unknown properties are ignored (forward compatibility)."""
import ast

from ..common import Ctx, P_HOOKS, P_CONVERTERS, AnalysisError
from ..pymodel import dotted, show
from ..hooks import ConvertersModule
from . import _sitebase

META = {
    "level": "other",
    "explanation": (
        "Static analysis of the three structural conditions under which an undeclared property can change the "
        "outcome: (a) the converter built by get_converter and the per-class structure factory are not "
        "configured to forbid extra keys (no forbid_extra_keys / _cattrs_forbid_extra_keys keyword anywhere in "
        "converters.py / _hooks.py); (b) probe hygiene: every key that a union handler probes (key-in tests, "
        "subscripts, .get) at some position is a declared wire name of at least one alternative at that "
        "position, so a fresh name can never steer the choice of alternative (computed over every site x "
        "alternative x world, including cattrs' own native disambiguators, whose keys are field names by "
        "construction); (c) no handler iterates a mapping, takes its len() or compares it as a whole (such "
        "code would see the extra key). With axiom A3 (generated structure functions read only declared keys "
        "and ignore the rest) these make structuring independent of undeclared properties."
        "Class-level hooks are decided when they only use keyed access; base-protocol positions must be typed (an LSPAny position is not structured, so unknown properties survive in it); comparisons on a whole mapping count as whole-value tests."),
    "trusted_base": ["A3: make_dict_structure_fn ignores unknown keys unless forbid_extra_keys is set"],
    "assumptions": ["'fresh' property name = not a declared wire name of any alternative at that position"],
    "not_decided": ["a user-supplied converter that was itself created with forbid_extra_keys=True"],
}


def run(ctx: Ctx):
    sa = _sitebase.analysis(ctx)
    _sitebase.floors(ctx, sa)
    _sitebase.report(ctx, sa, {"mapiter": "no-mapping-iteration", "kwsplat": "hook-ignores-unknown-keys"},
                     {"probe": "probe-hygiene", "mapiter": "no-mapping-iteration"})
    # the per-class structure function: a wrapper the factory puts around it must hand the payload on as it came
    # (an undeclared key must not be read as a declared one); decided by probing the wrapper in the factory fold
    from .. import special
    wrap = [p_ for p_ in special.factory_wiring(sa) if p_[0].startswith("structure-factory") and
            p_[0].endswith(":wrapper")]
    for construct, msg, ln in wrap:
        ctx.fail("class-structure-fn-reads-declared-keys-only", construct, msg, P_HOOKS, ln)
    if not wrap:
        ctx.ok("class-structure-fn-reads-declared-keys-only")
    # (a) configuration
    cm = ConvertersModule(ctx.src)
    ctx.fn("converters.py:get_converter")
    n_calls = 0
    for tree, rel in ((cm.tree, P_CONVERTERS), (sa.hooks.tree, P_HOOKS)):
        for node in ast.walk(tree):
            if isinstance(node, ast.Call):
                d = dotted(node.func) or ""
                if d.endswith("Converter") or d.endswith("make_dict_structure_fn") or d.endswith("BaseConverter"):
                    n_calls += 1
                    bad = [k.arg for k in node.keywords
                           if k.arg in ("forbid_extra_keys", "_cattrs_forbid_extra_keys")
                           and not (isinstance(k.value, ast.Constant) and k.value.value is False)]
                    star = [k for k in node.keywords if k.arg is None and not d.endswith("make_dict_structure_fn")]
                    ctx.check(not bad and not star, "no-forbid-extra-keys", f"{rel}:{d}",
                              f"{d}(...) is configured with {bad or '**kwargs'}: undeclared properties would be rejected",
                              rel, node.lineno)
            if isinstance(node, ast.keyword) and node.arg in ("forbid_extra_keys", "_cattrs_forbid_extra_keys"):
                if not (isinstance(node.value, ast.Constant) and node.value.value is False):
                    ctx.fail("no-forbid-extra-keys", f"{rel}:keyword", f"{node.arg}= appears in {rel}", rel,
                             getattr(node.value, "lineno", None))
    ctx.floor("converter / structure-fn construction sites", n_calls, 1)
    # the **attributes passed to make_dict_structure_fn must only hold override(...) objects keyed by field
    # names: checked as dataflow shape in C02/C10 (factory wiring)
    # (c) syntactic sweep of hook bodies for whole-mapping operations the tree evaluator does not see
    for reg in sa.hooks.all_hook_functions():
        fn = reg.hook
        param = fn.args.args[min(getattr(reg, "nbound", 0), len(fn.args.args) - 1)].arg
        # names that (may) hold the input or a part of it: the parameter, locals assigned from such, loop variables over such
        tainted = {param}
        changed = True

        def mentions(e):
            return any(isinstance(n_, ast.Name) and n_.id in tainted for n_ in ast.walk(e))
        while changed:
            changed = False
            for node in ast.walk(fn):
                tgts, srcv = [], None
                if isinstance(node, ast.Assign):
                    tgts, srcv = node.targets, node.value
                elif isinstance(node, (ast.For, ast.comprehension)):
                    tgts, srcv = [node.target], node.iter
                elif isinstance(node, ast.NamedExpr):
                    tgts, srcv = [node.target], node.value
                if srcv is not None and mentions(srcv):
                    for t_ in tgts:
                        for n_ in ast.walk(t_):
                            if isinstance(n_, ast.Name) and n_.id not in tainted:
                                tainted.add(n_.id)
                                changed = True
        for node in ast.walk(fn):
            bad = None
            if isinstance(node, (ast.For, ast.comprehension)):
                it = node.iter
                if isinstance(it, ast.Call) and isinstance(it.func, ast.Attribute) and it.func.attr in ("keys", "items", "values") \
                        and mentions(it.func.value):
                    bad = f"iterates .{it.func.attr}() of a mapping"
            if isinstance(node, ast.Call) and isinstance(node.func, ast.Attribute) and \
                    node.func.attr in ("keys", "items", "values", "popitem") and dotted(node.func.value) == param:
                bad = f"calls {param}.{node.func.attr}()"
            if isinstance(node, ast.Compare) and any(isinstance(c, (ast.Dict, ast.DictComp)) for c in [node.left] + node.comparators) \
                    and mentions(node):
                bad = "compares with a dict display"
            ctx.check(bad is None, "no-mapping-iteration", f"hook={reg.hook_name}",
                      f"{reg.hook_name} {bad}: an undeclared property would be observed", P_HOOKS,
                      getattr(node, "lineno", None)) if bad else None
        ctx.ok("no-mapping-iteration")


def _class_hooks(ctx: Ctx):
    """Axiom A3 covers the generated per-class structure functions.  A class-keyed hand-written hook replaces
    one: if it hands the input mapping (or a part of it) to a constructor as **kwargs, every undeclared key
    becomes an unexpected keyword argument; any other class hook leaves the clause undecided."""
    from ..pymodel import NONE
    sa = _sitebase.analysis(ctx)
    n = 0
    for key, reg in sa.hooks.class_hooks().items():
        if key == NONE or key[0] in ("opaque", "prim"):
            continue
        n += 1
        fn = reg.hook
        param = fn.args.args[0].arg
        splats = []
        for node in ast.walk(fn):
            if isinstance(node, ast.Call):
                for k in node.keywords:
                    if k.arg is None and any(isinstance(x, ast.Name) and x.id == param for x in ast.walk(k.value)):
                        splats.append((node, k))
                for a in node.args:
                    if isinstance(a, ast.Starred):
                        pass
        if splats:
            node, k = splats[0]
            ctx.fail("class-hook-ignores-unknown-keys", f"hook={reg.hook_name} key={show(key)}",
                     f"{reg.hook_name} (registered for {show(key)}) passes `**{ast.unparse(k.value)}` to "
                     f"{ast.unparse(node.func)}: an undeclared property in that object raises TypeError instead of being ignored",
                     P_HOOKS, node.lineno)
        else:
            # keyed access only: every occurrence of the parameter is the base of a constant-key subscript / .get(), the
            # right operand of a `"k" in` test, an `is None` / isinstance operand; then no undeclared key is ever looked at
            parents = {c_: p_ for p_ in ast.walk(fn) for c_ in ast.iter_child_nodes(p_)}
            offending = None
            for node in ast.walk(fn):
                if not (isinstance(node, ast.Name) and node.id == param and isinstance(node.ctx, ast.Load)):
                    continue
                par = parents.get(node)
                if isinstance(par, ast.Subscript) and par.value is node and isinstance(par.slice, ast.Constant) \
                        and isinstance(par.slice.value, str):
                    continue
                if isinstance(par, ast.Attribute) and par.attr == "get" and isinstance(parents.get(par), ast.Call) \
                        and parents[par].args and isinstance(parents[par].args[0], ast.Constant):
                    continue
                if isinstance(par, ast.Compare) and len(par.ops) == 1 and (
                        (isinstance(par.ops[0], (ast.In, ast.NotIn)) and par.comparators[0] is node and isinstance(par.left, ast.Constant))
                        or isinstance(par.ops[0], (ast.Is, ast.IsNot))):
                    continue
                if isinstance(par, ast.Call) and dotted(par.func) == "isinstance" and par.args and par.args[0] is node:
                    continue
                offending = par if par is not None else node
                break
            if offending is not None:
                raise AnalysisError(f"{P_HOOKS}:{reg.lineno}: a hand-written structure hook is registered for the class "
                                    f"{show(key)} and uses its input as a whole (`{ast.unparse(offending)[:60]}`); whether it "
                                    "ignores unknown keys is not decidable by this analysis")
            ctx.ok("class-hook-ignores-unknown-keys", {"hook": reg.hook_name, "class": show(key), "access": "by declared key only"})
    if n == 0:
        ctx.ok("class-hook-ignores-unknown-keys", {"class_keyed_hooks_for_attrs_classes": 0})


_run_c15 = run


def run(ctx: Ctx):  # noqa: F811
    _run_c15(ctx)
    _class_hooks(ctx)


_run_before_base_protocol = run


def run(ctx: Ctx):  # noqa: F811
    _run_before_base_protocol(ctx)
    # base-protocol classes (not in the metamodel; emitted from hand-written templates): a position typed LSPAny is not structured, so unknown properties of the object survive in the result
    from . import _imgbase as _ib
    from ..common import P_TYPES as _PT
    for construct, ok, msg, ln in _ib.base_protocol_shape(_ib.image(ctx)):
        ctx.check(ok, "base-protocol-positions-typed", construct, msg, _PT, ln)
