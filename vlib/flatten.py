"""Sibling cross-check (Engler-style) of the four inheritance-flattening implementations of the generator and
of the small attribute helpers, by constant-folding them (E5) over a synthetic metamodel lattice.

The lattice exercises: own-overrides-inherited (with a different type and optionality), override of a
grandparent's property, a mixin of a base structure, a mixin of the structure itself, multi-level extends.
The expected winner per property name is computed with the independent rule of vlib.metamodel (own first, then
extends + mixins depth first, first declaration wins)."""
from __future__ import annotations

import ast

from .common import AnalysisError, Sources, P_PYUTILS
from .microeval import Interp, Record, Raised, ModuleRef, Closure, ClassRef
from .genlint import Index

P_RC = "generator/plugins/rust/rust_commons.py"
P_DN = "generator/plugins/dotnet/dotnet_classes.py"
P_TD = "generator/plugins/testdata/testdata_generator.py"


def _ty(kind, name):
    return Record("BaseType", {"kind": kind, "name": name, "id_": f"id-{kind}-{name}"})


def _prop(owner, name, tname="string", optional=None):
    return Record("Property", {"name": name, "type": _ty("base", tname), "optional": optional, "documentation": None,
                               "since": None, "sinceTags": None, "proposed": None, "deprecated": None,
                               "owner": owner, "id_": f"id-{owner}-{name}"})


def _ref(name):
    return Record("ReferenceType", {"kind": "reference", "name": name, "id_": f"ref-{name}"})


def lattice():
    def S(name, props, extends=(), mixins=()):
        return Record("Structure", {"name": name, "properties": list(props), "extends": [_ref(x) for x in extends],
                                    "mixins": [_ref(x) for x in mixins], "documentation": None, "since": None,
                                    "sinceTags": None, "proposed": None, "deprecated": None, "id_": f"id-{name}"})
    structs = [
        # the mixin has parents of its own (reached only through the mixin edge of B)
        S("MB", [_prop("MB", "mb1"), _prop("MB", "m1", "integer")]),
        S("MM", [_prop("MM", "mm1")]),
        S("M", [_prop("M", "m1"), _prop("M", "shared")], extends=["MB"], mixins=["MM"]),
        S("M2", [_prop("M2", "m2")]),
        S("G", [_prop("G", "g1"), _prop("G", "deep")]),
        S("B", [_prop("B", "b1"), _prop("B", "shared", "integer")], extends=["G"], mixins=["M"]),
        S("A", [_prop("A", "a1"), _prop("A", "b1", "boolean", True), _prop("A", "deep", "integer")], extends=["B"]),
        S("C", [], extends=["A"], mixins=["M2"]),
    ]
    spec = Record("LSPModel", {"structures": structs, "enumerations": [], "typeAliases": [], "requests": [],
                               "notifications": []})
    return spec, {s.fields["name"]: s for s in structs}


def expected(structs: dict, name: str, _stack=()):
    """independent rule: own, then extends + mixins depth-first, first declaration of a name wins -> {prop: owner}"""
    s = structs[name]
    out = {p.fields["name"]: p.fields["owner"] for p in s.fields["properties"]}
    for ref in s.fields["extends"] + s.fields["mixins"]:
        for k, v in expected(structs, ref.fields["name"], _stack + (name,)).items():
            out.setdefault(k, v)
    return out


def _winners(props, what):
    if not isinstance(props, list):
        raise AnalysisError(f"{what}: flattening did not fold to a list")
    out = {}
    for p in props:
        if not isinstance(p, Record) or "name" not in p.fields:
            raise AnalysisError(f"{what}: flattening produced a non-property")
        if p.fields["name"] in out:
            return {"<duplicate>": p.fields["name"]}
        out[p.fields["name"]] = p.fields.get("owner")
    return out


def fold_rust(idx: Index, spec, structs, sname):
    spec, structs = lattice()
    before = _snapshot(structs)
    m = idx.get(P_RC)
    it = Interp(m.tree, name=P_RC)
    it.globals["model"] = ModuleRef("model", attrs={})
    it.globals["copy"] = ModuleRef("copy", attrs={"deepcopy": ("host", _deepcopy), "copy": ("host", _shallow)})
    f = it.globals.get("get_extended_properties")
    if not isinstance(f, Closure):
        raise AnalysisError(f"{P_RC}: get_extended_properties not found")
    r = _winners(f(structs[sname], spec), f"{P_RC}:get_extended_properties")
    _note_mutation(P_RC, sname, structs, before)
    return r


MUTATED: list = []      # (implementation, structure) pairs whose fold changed the model it was given


def _snapshot(structs):
    return {n: [(p.fields["name"], p.fields.get("owner")) for p in s.fields["properties"]] for n, s in structs.items()}


def _note_mutation(what, sname, structs, before):
    if _snapshot(structs) != before:
        MUTATED.append((what, sname))


def fold_plain(idx: Index, rel, spec, structs, sname):
    spec, structs = lattice()       # every fold gets its own model: an implementation that edits it must not affect the next
    before = _snapshot(structs)
    m = idx.get(rel)
    it = Interp(m.tree, name=rel)
    it.globals["copy_property"] = ("host", lambda p: p)
    it.globals["copy"] = ModuleRef("copy", attrs={"deepcopy": ("host", _deepcopy), "copy": ("host", _shallow)})
    # copying a property through cattrs (unstructure to a dict, rebuild with model.Property(**dict)), however the code
    # gets hold of its converter: the copy keeps every field
    from .microeval import ClassRef as _CRf

    def _conv(*a, **k):
        return Record("Converter", {"unstructure": ("host", lambda obj, *a_, **k_: dict(obj.fields) if isinstance(obj, Record) else obj),
                                    "structure": ("host", lambda obj, cl=None, *a_, **k_: obj)})
    it.globals["cattrs"] = ModuleRef("cattrs", attrs={"GenConverter": ("host", _conv), "Converter": ("host", _conv)})
    if "model" not in it.globals or not isinstance(it.globals.get("model"), ModuleRef) or it.globals["model"].interp is None:
        it.globals["model"] = ModuleRef("model", attrs={
            "Property": _CRf("Property", call=lambda **kw: Record("Property", dict(kw)))})
    f = it.globals.get("get_all_properties")
    if not isinstance(f, Closure):
        raise AnalysisError(f"{rel}: get_all_properties not found")
    r = _winners(f(structs[sname], spec), f"{rel}:get_all_properties")
    _note_mutation(rel, sname, structs, before)
    return r


def _shallow(x):
    if isinstance(x, list):
        return list(x)
    if isinstance(x, dict):
        return dict(x)
    if isinstance(x, Record):
        r = Record(x.cls_name, dict(x.fields), x.classes)
        return r
    return x


def fold_python(idx: Index, spec, structs, sname):
    """TypesCodeGenerator._add_structure with every collaborator stubbed except _get_dependent_types: the list
    handed to _generate_properties is what the class gets."""
    m = idx.get(P_PYUTILS)
    cls = m.classes.get("TypesCodeGenerator")
    if cls is None:
        raise AnalysisError(f"{P_PYUTILS}: TypesCodeGenerator not found")
    methods = {x.name: x for x in cls.body if isinstance(x, ast.FunctionDef)}
    for need in ("_add_structure", "_get_dependent_types"):
        if need not in methods:
            raise AnalysisError(f"{P_PYUTILS}: TypesCodeGenerator.{need} not found")
    spec, structs = lattice()
    before = _snapshot(structs)
    it = Interp(m.tree, name=P_PYUTILS)
    it.globals["copy"] = ModuleRef("copy", attrs={"deepcopy": ("host", _deepcopy), "copy": ("host", _shallow)})
    captured = {}

    def gen_props(class_name, properties, indent):
        captured[class_name] = list(properties)
        return []
    stubs = {
        "_has_type": ("host", lambda *a, **k: False),
        "_add_structure": ("host", lambda *a, **k: None),
        "_generate_properties": ("host", gen_props),
        "_get_additional_methods": ("host", lambda *a, **k: None),
        "_add_type_code": ("host", lambda *a, **k: None),
        "_add_keyword_class": ("host", lambda *a, **k: None),
        "_add_special": ("host", lambda *a, **k: None),
        "_lsp_model": spec,
    }
    # every other method of the class is available as written (helpers split off by refactorings included)
    own = {k: v for k, v in methods.items() if k not in stubs}
    self_rec = Record("TypesCodeGenerator", stubs, {"TypesCodeGenerator": own})
    it.classes["TypesCodeGenerator"] = own
    for helper in ("_get_indented_documentation", "_get_since"):
        it.globals[helper] = ("host", lambda *a, **k: [] if helper == "_get_since" else None)
    it.globals["_get_since"] = ("host", lambda *a, **k: [])
    it.globals["_get_indented_documentation"] = ("host", lambda *a, **k: None)
    try:
        it.call(methods["_add_structure"], [self_rec, structs[sname], spec])
    except Raised as e:
        raise AnalysisError(f"{P_PYUTILS}: _add_structure raises {e.exc_name} when folded on the synthetic lattice")
    if sname not in captured:
        raise AnalysisError(f"{P_PYUTILS}: _add_structure did not reach _generate_properties for {sname}")
    _note_mutation(P_PYUTILS, sname, structs, before)
    return _winners(captured[sname], f"{P_PYUTILS}:_add_structure")


def fold_rust_extras(idx: Index):
    """generate_extras over the four (deprecated, proposed) combinations -> {(dep, prop): [attribute lines]}"""
    m = idx.get(P_RC)
    it = Interp(m.tree, name=P_RC)
    f = it.globals.get("generate_extras")
    if not isinstance(f, Closure):
        raise AnalysisError(f"{P_RC}: generate_extras not found")
    out = {}
    for dep in (None, "use x instead"):
        for prop in (None, True):
            r = f(Record("Any", {"deprecated": dep, "proposed": prop}))
            if not isinstance(r, list):
                raise AnalysisError(f"{P_RC}: generate_extras does not fold to a list")
            out[(bool(dep), bool(prop))] = r
    return out


def fold_python_option(idx: Index):
    """TypesCodeGenerator._generate_properties folded (E5) on synthetic properties: type shape x optional in (absent,
    false, true).  -> {(shape, optional, null-admitting): emitted attribute line | 'raises <X>'}"""
    m = idx.get(P_PYUTILS)
    cls = m.classes.get("TypesCodeGenerator")
    if cls is None:
        raise AnalysisError(f"{P_PYUTILS}: TypesCodeGenerator not found")
    methods = {x.name: x for x in cls.body if isinstance(x, ast.FunctionDef)}
    if "_generate_properties" not in methods:
        raise AnalysisError(f"{P_PYUTILS}: _generate_properties not found")

    def T(kind, **kw):
        return Record("Type", {"kind": kind, **kw})
    null = T("base", name="null")
    shapes = {
        "string": (T("base", name="string"), False),
        "string|null": (T("or", items=[T("base", name="string"), null]), True),
        "string|integer|null": (T("or", items=[T("base", name="string"), T("base", name="integer"), null]), True),
        "string|integer": (T("or", items=[T("base", name="string"), T("base", name="integer")]), False),
        "array": (T("array", element=T("base", name="string")), False),
    }
    out = {}
    for sname, (ty, null_adm) in shapes.items():
        for optional in (None, False, True):
            it = Interp(m.tree, name=P_PYUTILS)
            it.globals["_get_since"] = ("host", lambda *a, **k: [])
            it.globals["_get_indented_documentation"] = ("host", lambda *a, **k: None)
            spec = Record("LSPModel", {"structures": [], "typeAliases": [], "enumerations": [], "requests": [], "notifications": []})
            stubs = {"_lsp_model": spec, "_process_literal_types": ("host", lambda *a, **k: None)}
            # class-level tables (kind -> method, name -> spelling) are attributes of the instance too
            cenv = {k: Closure(x, None, it) for k, x in methods.items()}
            for cst in cls.body:
                if isinstance(cst, (ast.Assign, ast.AnnAssign)) and getattr(cst, "value", None) is not None:
                    tg = cst.targets[0] if isinstance(cst, ast.Assign) else cst.target
                    if isinstance(tg, ast.Name) and tg.id not in stubs:
                        try:
                            stubs[tg.id] = it.eval(cst.value, dict(cenv))
                            cenv[tg.id] = stubs[tg.id]
                        except (Raised, AnalysisError):
                            pass
            self_rec = Record("TypesCodeGenerator", stubs,
                              {"TypesCodeGenerator": {k: v for k, v in methods.items() if k != "_process_literal_types"}})
            it.classes["TypesCodeGenerator"] = self_rec.classes["TypesCodeGenerator"]
            if "__init__" in methods:
                try:
                    it.call(methods["__init__"], [self_rec] + [spec] * (len(methods["__init__"].args.args) - 1))
                except (Raised, AnalysisError):
                    pass
                self_rec.fields["_lsp_model"] = spec
                self_rec.fields["_process_literal_types"] = stubs["_process_literal_types"]
            prop = Record("Property", {"name": "someProp", "type": _deepcopy(ty), "optional": optional, "documentation": None,
                                       "since": None, "sinceTags": None, "proposed": None, "deprecated": None})
            try:
                lines = it.call(methods["_generate_properties"], [self_rec, "SomeClass", [prop], "    "])
            except Raised as e:
                out[(sname, optional, null_adm)] = f"raises {e.exc_name}{e.exc_args!r}"
                continue
            out[(sname, optional, null_adm)] = next((l.strip() for l in it.iterate(lines)
                                                     if isinstance(l, str) and l.strip().startswith("some_prop:")), "")
    return out


def fold_rust_option(idx: Index):
    """generate_property of the rust plugin folded (E5) on synthetic properties: type shape x optional in (absent, false,
    true).  -> {(shape, optional): field type text | 'raises <X>'}"""
    m = idx.get(P_RC)
    it = Interp(m.tree, name=P_RC)
    f = it.globals.get("generate_property")
    if not isinstance(f, Closure):
        raise AnalysisError(f"{P_RC}: generate_property not found")
    # helpers of sibling modules (to_snake_case ...) as written
    import os
    for st in m.tree.body:
        if isinstance(st, ast.ImportFrom) and st.level == 1 and st.module:
            rel2 = os.path.join(os.path.dirname(P_RC), st.module + ".py")
            try:
                m2 = idx.get(rel2)
            except AnalysisError:
                continue
            it2 = Interp(m2.tree, name=rel2)
            for a in st.names:
                if a.name in it2.globals:
                    it.globals.setdefault(a.asname or a.name, it2.globals[a.name])

    def T(kind, **kw):
        return Record("Type", {"kind": kind, **kw})
    null = T("base", name="null")
    shapes = {
        "string": (T("base", name="string"), False),
        "string|null": (T("or", items=[T("base", name="string"), null]), True),
        "string|integer|null": (T("or", items=[T("base", name="string"), T("base", name="integer"), null]), True),
        "string|integer": (T("or", items=[T("base", name="string"), T("base", name="integer")]), False),
        "array": (T("array", element=T("base", name="string")), False),
    }
    spec = Record("LSPModel", {"structures": [], "typeAliases": [], "enumerations": [], "requests": [], "notifications": []})
    out = {}
    for sname, (ty, null_adm) in shapes.items():
        for optional in (None, False, True):
            prop = Record("Property", {"name": "someProp", "type": ty, "optional": optional, "documentation": None,
                                       "since": None, "sinceTags": None, "proposed": None, "deprecated": None})
            try:
                lines = f(prop, Record("TypeData", {}), spec)
            except Raised as e:
                out[(sname, optional, null_adm)] = f"raises {e.exc_name}"
                continue
            field = next((l for l in it.iterate(lines) if isinstance(l, str) and l.startswith("pub ")), "")
            out[(sname, optional, null_adm)] = field
    return out


def literal_shapes():
    """Property types with anonymous literals at the positions the discipline names (property type, array
    element, union member) and their compositions.  -> [(label, type Record, [literal Records])]"""
    def lit():
        props = [_prop("<lit>", "x")]
        value = Record("LiteralValue", {"properties": props, "id_": "lv"}, slotted=True)
        return Record("LiteralType", {"kind": "literal", "value": value, "name": None, "documentation": None,
                                      "since": None, "sinceTags": None, "proposed": None, "deprecated": None,
                                      "id_": "lit"}, slotted=True)

    def arr(el):
        return Record("ArrayType", {"kind": "array", "element": el, "id_": "arr"}, slotted=True)

    def orr(*items):
        return Record("OrType", {"kind": "or", "items": list(items), "id_": "or"}, slotted=True)

    def base(n):
        return Record("BaseType", {"kind": "base", "name": n, "id_": "b"}, slotted=True)
    out = []
    a = lit()
    out.append(("literal", a, [a]))
    a = lit()
    out.append(("array<literal>", arr(a), [a]))
    a, b = lit(), lit()
    out.append(("or[literal, literal]", orr(a, b), [a, b]))
    a = lit()
    out.append(("or[boolean, literal]", orr(base("boolean"), a), [a]))
    a, b = lit(), lit()
    out.append(("array<or[literal, literal]>", arr(orr(a, b)), [a, b]))
    a = lit()
    out.append(("or[array<literal>, null]", orr(arr(a), base("null")), [a]))
    a = lit()
    out.append(("array<array<literal>>", arr(arr(a)), [a]))
    return out


def fold_python_literals(idx: Index):
    """TypesCodeGenerator._process_literal_types on each shape: every non-empty anonymous literal must end up
    named and handed to _add_literal_type (else _generate_type_name raises for it).  -> {label: problem|None}"""
    m = idx.get(P_PYUTILS)
    cls = m.classes.get("TypesCodeGenerator")
    if cls is None:
        raise AnalysisError(f"{P_PYUTILS}: TypesCodeGenerator not found")
    methods = {x.name: x for x in cls.body if isinstance(x, ast.FunctionDef)}
    if "_process_literal_types" not in methods:
        raise AnalysisError(f"{P_PYUTILS}: _process_literal_types not found")
    import itertools as _it
    res = {}
    for label, ty, lits in literal_shapes():
        it = Interp(m.tree, name=P_PYUTILS)
        from .microeval import std_modules
        it.globals["itertools"] = ModuleRef("itertools", attrs={**std_modules(it)["itertools"].attrs,
                                                              "count": ("host", lambda *a: _it.count(*a))})
        added = []
        self_rec = Record("TypesCodeGenerator", {"_add_literal_type": ("host", lambda t: added.append(t))},
                          {"TypesCodeGenerator": {k: v for k, v in methods.items() if k != "_add_literal_type"}})
        try:
            it.call(methods["_process_literal_types"], [self_rec, "SomeClass/someProp", ty])
        except Raised as e:
            res[label] = f"raises {e.exc_name}"
            continue
        unnamed = [l for l in lits if not l.fields.get("name")]
        missing = [l for l in lits if not any(l is a for a in added)]
        if unnamed:
            res[label] = f"{len(unnamed)} of {len(lits)} anonymous literal(s) stay unnamed: _generate_type_name raises ValueError for them"
        elif missing:
            res[label] = f"{len(missing)} of {len(lits)} anonymous literal(s) are never emitted as a class"
        else:
            names = [l.fields["name"] for l in lits]
            res[label] = None if len(set(names)) == len(names) else f"literals share the generated name {names}"
    return res


def _deepcopy(x, memo=None):
    """copy.deepcopy for evaluator values (Records keep their field values, including id_)."""
    memo = {} if memo is None else memo
    if id(x) in memo:
        return memo[id(x)]
    if isinstance(x, Record):
        r = Record(x.cls_name, {}, x.classes)
        memo[id(x)] = r
        r.fields = {k: _deepcopy(v, memo) for k, v in x.fields.items()}
        r.frozen_attrs = None if x.frozen_attrs is None else set(x.frozen_attrs)
        return r
    if isinstance(x, list):
        out = []
        memo[id(x)] = out
        out.extend(_deepcopy(v, memo) for v in x)
        return out
    if isinstance(x, dict):
        out = {}
        memo[id(x)] = out
        for k, v in x.items():
            out[k] = _deepcopy(v, memo)
        return out
    return x


def fold_rust_inherited_literal(idx: Index):
    """An anonymous literal type on a property of a base structure is visited once per structure that inherits it.
    The rust plugin memoises generated literal structs by the node's id_ and keeps the generated name ON the node;
    every visit must yield the same, non-empty struct name.  -> (name via A, name via B)"""
    m = idx.get(P_RC)
    lu = idx.get("generator/plugins/rust/rust_lang_utils.py")
    it = Interp(m.tree, name=P_RC)
    lit = Interp(lu.tree, name=lu.rel)
    for nm, v in lit.globals.items():
        it.globals.setdefault(nm, v)
    it.globals["copy"] = ModuleRef("copy", attrs={"deepcopy": ("host", _deepcopy), "copy": ("host", lambda x: x)})
    it.globals["model"] = ModuleRef("model", attrs={})
    td = m.classes.get("TypeData")
    if td is None:
        raise AnalysisError(f"{P_RC}: TypeData not found")
    methods = {x.name: x for x in td.body if isinstance(x, ast.FunctionDef)}
    it.classes["TypeData"] = methods
    types = Record("TypeData", {"_id_data": {}}, it.classes)

    def S(name, props, extends=()):
        return Record("Structure", {"name": name, "properties": list(props), "extends": [_ref(x) for x in extends], "mixins": [],
                                    "documentation": None, "since": None, "sinceTags": None, "proposed": None,
                                    "deprecated": None, "id_": f"id-{name}"})
    inner = _prop("<lit>", "x")
    lit_ty = Record("LiteralType", {"kind": "literal", "name": None, "documentation": None, "since": None, "sinceTags": None,
                                    "proposed": None, "deprecated": None, "id_": "id-lit",
                                    "value": Record("LiteralValue", {"properties": [inner], "id_": "id-lv"})})
    p = _prop("G", "hint")
    p.fields["type"] = lit_ty
    structs = [S("G", [p]), S("A", [_prop("A", "a1")], ["G"]), S("B", [_prop("B", "b1")], ["G"])]
    spec = Record("LSPModel", {"structures": structs, "enumerations": [], "typeAliases": [], "requests": [], "notifications": []})
    by = {s.fields["name"]: s for s in structs}
    gep = it.globals.get("get_extended_properties")
    gtn = it.globals.get("get_type_name")
    if not isinstance(gep, Closure) or not isinstance(gtn, Closure):
        raise AnalysisError(f"{P_RC}: get_extended_properties / get_type_name not found")
    names = []
    for sname in ("A", "B", "G"):
        props = gep(by[sname], spec)
        hp = [q for q in props if q.fields["name"] == "hint"]
        if len(hp) != 1:
            raise AnalysisError(f"{P_RC}: the inherited property is not flattened into {sname}")
        try:
            names.append(gtn(hp[0].fields["type"], types, spec, hp[0].fields["optional"], hp[0].fields["name"]))
        except Raised as e:
            names.append(f"<raises {e.exc_name}>")
    return names


def fold_python_specials(idx: Index):
    """Which attribute names the python plugin registers as always-written (`_add_special`) for a structure, an anonymous
    literal and an `and` type built from synthetic properties: exactly the snake_case names of the null-admitting and
    string-literal properties, inherited and mixed-in ones included.  -> {case: (got names | problem, expected names)}"""
    m = idx.get(P_PYUTILS)
    cls = m.classes.get("TypesCodeGenerator")
    if cls is None:
        raise AnalysisError(f"{P_PYUTILS}: TypesCodeGenerator not found")
    methods = {x.name: x for x in cls.body if isinstance(x, ast.FunctionDef)}
    null = _ty("base", "null")

    def OR(*items):
        return Record("OrType", {"kind": "or", "items": list(items), "id_": "or"})

    def prop(owner, name, ty, optional=None):
        r = _prop(owner, name)
        r.fields["type"] = ty
        r.fields["optional"] = optional
        return r

    def props(owner):
        return [prop(owner, "rootUri", OR(_ty("base", "DocumentUri"), null)),
                prop(owner, "kind", Record("StringLiteralType", {"kind": "stringLiteral", "value": "x", "id_": "sl"})),
                prop(owner, "plainProp", _ty("base", "string"), True),
                prop(owner, "workDoneToken", OR(_ty("base", "integer"), _ty("base", "string")), True),
                prop(owner, "maybeNull", OR(null, _ref("Range")), True)]
    own_expected = ["root_uri", "kind", "maybe_null"]

    def S(name, ps, extends=(), mixins=()):
        return Record("Structure", {"name": name, "properties": list(ps), "extends": [_ref(x) for x in extends],
                                    "mixins": [_ref(x) for x in mixins], "documentation": None, "since": None,
                                    "sinceTags": None, "proposed": None, "deprecated": None, "id_": f"id-{name}"})
    base = S("Base", [prop("Base", "baseUri", OR(_ty("base", "URI"), null)), prop("Base", "baseName", _ty("base", "string"))])
    mix = S("Mix", [prop("Mix", "mixKind", Record("StringLiteralType", {"kind": "stringLiteral", "value": "m", "id_": "sl2"}))])
    sub = S("Sub", props("Sub"), extends=["Base"], mixins=["Mix"])
    spec = Record("LSPModel", {"structures": [base, mix, sub], "enumerations": [], "typeAliases": [], "requests": [],
                               "notifications": []})
    out = {}

    def run(label, mname, args, expected):
        it = Interp(m.tree, name=P_PYUTILS)
        it.globals["copy"] = ModuleRef("copy", attrs={"deepcopy": ("host", _deepcopy), "copy": ("host", _shallow)})
        got = []
        stubs = {
            "_has_type": ("host", lambda *a, **k: False),
            "_add_structure": ("host", lambda *a, **k: None),
            "_generate_properties": ("host", lambda *a, **k: []),
            "_get_additional_methods": ("host", lambda *a, **k: None),
            "_add_type_code": ("host", lambda *a, **k: None),
            "_add_keyword_class": ("host", lambda *a, **k: None),
            "_add_special": ("host", lambda c, names: got.append((c, list(names)))),
            "_lsp_model": spec,
        }
        own = {k: v for k, v in methods.items() if k not in stubs}
        self_rec = Record("TypesCodeGenerator", stubs, {"TypesCodeGenerator": own})
        it.classes["TypesCodeGenerator"] = own
        it.globals["_get_since"] = ("host", lambda *a, **k: [])
        it.globals["_get_indented_documentation"] = ("host", lambda *a, **k: None)
        if mname not in methods:
            out[label] = (f"{mname} not found", expected)
            return
        try:
            it.call(methods[mname], [self_rec] + args)
        except Raised as e:
            out[label] = (f"raises {e.exc_name}", expected)
            return
        names = sorted(n for _c, ns in got for n in ns)
        out[label] = (names, sorted(expected))
    lit = Record("LiteralType", {"kind": "literal", "name": "Lit", "documentation": None, "since": None, "sinceTags": None,
                                 "proposed": None, "deprecated": None, "id_": "lit",
                                 "value": Record("LiteralValue", {"properties": props("Lit")})})
    run("literal", "_add_literal_type", [lit], own_expected)
    run("structure", "_add_structure", [sub, spec], own_expected + ["base_uri", "mix_kind"])
    and_t = Record("AndType", {"kind": "and", "items": [_ref("Base"), _ref("Sub")], "id_": "and"})
    run("and", "_add_and_type", [and_t, "AndClass", [base, mix, sub]], own_expected + ["base_uri"])
    return out


def fold_python_and_types(idx: Index):
    """TypesCodeGenerator._add_and_types on a synthetic model in which two requests and a notification use the *same*
    `and` combination: every one of them needs its own <Name>Options / <Name>Params class (METHOD_TO_TYPES names them).
    -> (class names handed to _add_and_type, expected class names)"""
    m = idx.get(P_PYUTILS)
    cls = m.classes.get("TypesCodeGenerator")
    if cls is None:
        raise AnalysisError(f"{P_PYUTILS}: TypesCodeGenerator not found")
    methods = {x.name: x for x in cls.body if isinstance(x, ast.FunctionDef)}
    if "_add_and_types" not in methods:
        raise AnalysisError(f"{P_PYUTILS}: _add_and_types not found")

    # the model's own hand-written equality of type nodes (AndType / ReferenceType compare structurally)
    mm_ = idx.modules.get("generator/model.py")
    mclasses = {}
    if mm_ is not None:
        for cn_, c_ in mm_.classes.items():
            mclasses[cn_] = {x.name: x for x in c_.body if isinstance(x, ast.FunctionDef)}

    def R(name):
        r = _ref(name)
        r.classes = mclasses
        return r

    def AND():
        return Record("AndType", {"kind": "and", "items": [R("WorkDoneProgressOptions"), R("TextDocumentRegistrationOptions")],
                                  "id_": "and"}, mclasses)

    def msg(method, type_name, **kw):
        base = {"method": method, "typeName": type_name, "params": None, "registrationOptions": None, "result": None,
                "partialResult": None, "errorData": None, "documentation": None, "since": None, "proposed": None,
                "deprecated": None, "messageDirection": "clientToServer", "registrationMethod": None, "id_": "m-" + method}
        base.update(kw)
        return Record("Message", base)
    a1, a2, a3, a4 = AND(), AND(), AND(), AND()
    # structural equality of the model's type nodes (hand-written __eq__ in model.py compares items only)
    for a in (a1, a2, a3, a4):
        a.fields["__eqkey__"] = "and:WorkDoneProgressOptions,TextDocumentRegistrationOptions"
    reqs = [msg("textDocument/colorPresentation", "ColorPresentationRequest", registrationOptions=a1),
            msg("textDocument/seedThing", "SeedThingRequest", registrationOptions=a2, params=a3)]
    nots = [msg("textDocument/seedNote", "SeedNoteNotification", registrationOptions=a4)]
    spec = Record("LSPModel", {"structures": [], "enumerations": [], "typeAliases": [], "requests": reqs, "notifications": nots})
    it = Interp(m.tree, name=P_PYUTILS)
    from .microeval import ClassRef as _CR
    for cn_ in mclasses:
        it.globals.setdefault(cn_, _CR(cn_))       # names the model's own methods refer to (isinstance(other, AndType))
    got = []
    stubs = {"_add_and_type": ("host", lambda type_def, name, *a, **k: got.append(name)),
             "_has_type": ("host", lambda *a, **k: False), "_lsp_model": spec}
    own = {k: v for k, v in methods.items() if k not in stubs}
    self_rec = Record("TypesCodeGenerator", stubs, {"TypesCodeGenerator": own})
    it.classes["TypesCodeGenerator"] = own
    try:
        it.call(methods["_add_and_types"], [self_rec, spec])
    except Raised as e:
        return (f"raises {e.exc_name}", None)
    want = sorted(["ColorPresentationRequestOptions", "SeedThingRequestOptions", "SeedThingRequestParams", "SeedNoteNotificationOptions"])
    return sorted(got), want
