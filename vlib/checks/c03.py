"""C03 -- structured results are well-typed instances of the declared classes."""
import ast

from ..common import Ctx, P_HOOKS, P_TYPES, AnalysisError
from ..pymodel import show, walk_ty, dotted
from .. import microeval
from . import _sitebase

META = {
    "level": "other",
    "explanation": (
        "Static analysis. (1) For every union dispatch site x alternative x world, the static type of the value "
        "the handler returns (None, a primitive guarded by isinstance, structure(_, C) => C, a comprehension => "
        "list of C, a tuple constructor) must be a member of the union it serves and must not be the "
        "uninterpreted JSON value when the alternative is an object/array-of-object type (only primitives, "
        "enumeration values, LSPAny/LSPObject/LSPArray positions may pass through). (2) Every forward-reference "
        "name used in a field annotation is a key of ALL_TYPES_MAP bound to the same-named definition, and the "
        "once-only resolver, constant-folded over the static registry with attrs.has / attrs.resolve_types "
        "stubbed, visits every attrs class of the registry with the registry as namespace. (3) Class-keyed "
        "(non-union) hooks are only the identity hooks for NoneType and LSPObject. Non-union positions are "
        "well-typed by cattrs' generated structure functions (axiom A3)."
        " Added clauses: every paired position is annotated with the metamodel type under the documented mapping (the site "
        "analysis trusts annotations); the two base-protocol classes have the JSON-RPC shape (error: ResponseError, not LSPAny); "
        "None returned for a value of a non-nullable union is ill-typed; try/except fallbacks in hooks are judged by whether "
        "the body raises for the value at hand."),
    "trusted_base": ["A1 dispatch", "A3 generated structure functions convert every field by its resolved annotation",
                     "attrs.resolve_types evaluates ForwardRefs in the given namespace"],
    "assumptions": ["input is metamodel-valid for the alternative analysed"],
    "not_decided": ["values that are not metamodel-valid"],
}


def fold_resolver(ctx: Ctx, sa):
    """Abstractly run _resolve_forward_references over the static ALL_TYPES_MAP."""
    t, h = sa.types, sa.hooks
    fn = h.functions.get("_resolve_forward_references")
    if fn is None:
        raise AnalysisError(f"{h.rel}: _resolve_forward_references not found")
    node = t.tables.get("ALL_TYPES_MAP")
    if not isinstance(node, ast.Dict):
        raise AnalysisError(f"{t.rel}: ALL_TYPES_MAP is not a dict display")
    amap = {}
    for k, v in zip(node.keys, node.values):
        if not (isinstance(k, ast.Constant) and isinstance(k.value, str) and isinstance(v, ast.Name)):
            raise AnalysisError(f"{t.rel}: ALL_TYPES_MAP has a non-(str: Name) entry")
        if v.id in t.classes:
            amap[k.value] = microeval.ClassRef(v.id, t.classes[v.id].kind)
        else:
            amap[k.value] = ("alias", v.id)
    calls = []

    def has(x):
        return isinstance(x, microeval.ClassRef) and x.kind == "attrs"

    def resolve_types(cls, globalns=None, localns=None, *a, **kw):
        calls.append((cls, globalns, localns))
        return cls
    attrs_mod = microeval.ModuleRef("attrs", attrs={"has": ("host", has), "resolve_types": ("host", resolve_types)})
    types_mod = microeval.ModuleRef("types", attrs={"ALL_TYPES_MAP": amap})
    it = microeval.Interp(name=h.rel, extra_globals={"attrs": attrs_mod, h.types_alias: types_mod})
    for st in h.tree.body:
        if isinstance(st, ast.Assign) and len(st.targets) == 1 and isinstance(st.targets[0], ast.Name) \
                and isinstance(st.value, ast.Constant):
            it.globals[st.targets[0].id] = st.value.value
        elif isinstance(st, ast.AnnAssign) and isinstance(st.target, ast.Name) and isinstance(st.value, ast.Constant):
            it.globals[st.target.id] = st.value.value
        elif isinstance(st, ast.FunctionDef) and st.name != fn.name:
            it.globals.setdefault(st.name, microeval.Closure(st, None, it))     # module-level helpers of the resolver
    ctx.fn("_hooks.py:_resolve_forward_references")
    try:
        it.call(fn, [])
    except microeval.Raised as e:
        ctx.fail("resolver-visits-all", "_resolve_forward_references", f"raises {e.exc_name} when folded", P_HOOKS, fn.lineno)
        return
    visited = {c.name for c, _, _ in calls if isinstance(c, microeval.ClassRef)}
    want = {v.name for v in amap.values() if isinstance(v, microeval.ClassRef) and v.kind == "attrs"}
    ctx.floor("attrs classes in ALL_TYPES_MAP", len(want), 400)
    for n in sorted(want):
        ctx.check(n in visited, "resolver-visits-all", f"class={n}",
                  f"_resolve_forward_references never calls attrs.resolve_types on {n}: its string annotations "
                  "stay unresolved and cattrs cannot structure them", P_HOOKS, fn.lineno)
    bad_ns = [c.name for c, g, l in calls if g is not amap]
    ctx.check(not bad_ns, "resolver-namespace", "_resolve_forward_references",
              f"attrs.resolve_types is not given ALL_TYPES_MAP as its global namespace for {bad_ns[:3]}", P_HOOKS, fn.lineno)
    # second call must be a no-op only through the flag; first call must have run
    ctx.check(len(calls) >= len(want), "resolver-visits-all", "_resolve_forward_references:count",
              "resolver performed fewer resolve_types calls than there are attrs classes", P_HOOKS, fn.lineno)
    # the registry function is called first in register_hooks
    ctx.check(bool(h.resolver_first),
              "resolver-runs-first", "register_hooks",
              "register_hooks does not resolve forward references before registering hooks", P_HOOKS)


def run(ctx: Ctx):
    sa = _sitebase.analysis(ctx)
    _sitebase.floors(ctx, sa)
    t = sa.types
    _sitebase.report(ctx, sa, {"illtyped": "leaf-type-in-union", "miscoerce": "alternative-valid"}, {})
    # unions handled by cattrs' own disambiguator pick the alternative by wire name, which it reads from the
    # `.overrides` of the per-class structure function (A2): the structure factory must hand back the generated
    # function with the camelCase renames, else another alternative is chosen silently
    from .. import special
    from . import _imgbase
    im = _imgbase.image(ctx)
    probs = [p_ for p_ in special.factory_wiring(im) if p_[0].startswith("structure")
             and not (":order:" in p_[0] and "omit_if_default:" in p_[1])]
    for construct, msg, ln in probs:
        ctx.fail("native-alternative-by-wire-name", construct, msg, P_HOOKS, ln or None)
    if not probs:
        ctx.ok("native-alternative-by-wire-name")
    # forward references
    amap = t.tables.get("ALL_TYPES_MAP")
    keys = {}
    if isinstance(amap, ast.Dict):
        for k, v in zip(amap.keys, amap.values):
            if isinstance(k, ast.Constant) and isinstance(v, ast.Name):
                keys[k.value] = v.id
    nfwd = 0
    for c in t.attrs_classes():
        for f in c.fields:
            for sub in walk_ty(f.ty):
                if sub[0] == "fwd":
                    nfwd += 1
                    n = sub[1]
                    ctx.check(keys.get(n) == n and n in t.env, "fwd-resolvable", f"{c.name}.{f.name}:'{n}'",
                              f"forward reference '{n}' is not a key of ALL_TYPES_MAP bound to {n}", P_TYPES, f.lineno)
            left = [s[1] for s in walk_ty(f.resolved) if s[0] == "fwd"]
            ctx.check(not left, "fwd-resolved", f"{c.name}.{f.name}",
                      f"annotation still contains forward references {left} after resolution", P_TYPES, f.lineno)
    # alias objects reachable from fields resolve transitively (their ForwardRefs are evaluated in the
    # same namespace)
    for an, ty in t.aliases.items():
        for sub in walk_ty(ty):
            if sub[0] == "fwd":
                nfwd += 1
                ctx.check(keys.get(sub[1]) == sub[1], "fwd-resolvable", f"alias {an}:'{sub[1]}'",
                          f"forward reference '{sub[1]}' inside alias {an} is not a key of ALL_TYPES_MAP", P_TYPES)
    ctx.floor("forward references in annotations", nfwd, 200)
    fold_resolver(ctx, sa)
    # class-keyed hooks
    for key, reg in sa.disp.class_hooks.items():
        ident = isinstance(reg.hook, ast.Lambda) and isinstance(reg.hook.body, ast.Name) and \
            reg.hook.body.id == reg.hook.args.args[0].arg
        if isinstance(reg.hook, ast.FunctionDef):
            body = [s for s in reg.hook.body if not (isinstance(s, ast.Expr) and isinstance(s.value, ast.Constant))]
            ident = len(body) == 1 and isinstance(body[0], ast.Return) and isinstance(body[0].value, ast.Name) \
                and body[0].value.id == reg.hook.args.args[0].arg
        okkey = key == ("prim", "none") or key[0] == "opaque"
        ctx.check(okkey or not ident, "class-hook-typed", f"key={show(key)} hook={reg.hook_name}",
                  f"identity hook registered for {show(key)}: values of that class stay raw JSON", P_HOOKS, reg.lineno)


_run_before_base_protocol = run


def run(ctx: Ctx):  # noqa: F811
    _run_before_base_protocol(ctx)
    # base-protocol classes (not in the metamodel; emitted from hand-written templates): an `error` left as LSPAny stays a raw dict instead of a ResponseError instance
    from . import _imgbase as _ib
    from ..common import P_TYPES as _PT
    for construct, ok, msg, ln in _ib.base_protocol_shape(_ib.image(ctx)):
        ctx.check(ok, "base-protocol-positions-typed", construct, msg, _PT, ln)


_run_before_declared_types = run


def run(ctx: Ctx):  # noqa: F811
    _run_before_declared_types(ctx)
    # what "the declared class" of a position is comes from the annotation; a position whose annotation differs from the metamodel type is structured into something else (cattrs coerces silently, e.g. str(dict) for a map value annotated str)
    from . import _imgbase as _ib
    from ..common import P_TYPES as _PT
    from ..pymodel import show as _show, walk_ty as _walk
    im = _ib.image(ctx)
    n = 0
    for p in im.pairs:
        if p.field is None or p.exp_ty is None:
            continue
        has_union = any(t_[0] == "union" and len([m_ for m_ in t_[1] if m_ != ("prim", "none")]) > 1 for t_ in _walk(p.exp_ty))
        if False and not has_union:
            continue
        n += 1
        ctx.check(p.field.resolved == p.exp_ty, "declared-type-is-metamodel-type", f"{p.cls.name}.{p.field.name}",
                  f"{p.cls.name}.{p.field.name} is annotated {_show(p.field.resolved)}; the metamodel type is {_show(p.exp_ty)}",
                  _PT, p.field.lineno)
    ctx.floor("positions compared with the metamodel type", n, 1000)
    # "closed-enumeration positions hold a member (or a primitive equal to one)": a structure hook registered for a closed
    # enumeration class replaces E(value); folded on non-member candidates (shared with C13)
    from . import c13 as _c13
    _c13._enum_class_hooks(ctx)
