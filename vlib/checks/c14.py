"""C14 -- every union in the protocol can be parsed in each of its alternatives."""
from ..common import Ctx, P_HOOKS
from ..pymodel import show
from . import _sitebase

META = {
    "level": "other",
    "explanation": (
        "Static analysis (ast only). Every union type reachable from a field of a generated attrs class is a "
        "dispatch site; its handler is determined by the cattrs dispatch model A1 (registered hook by set-equal "
        "key, Optional, native attrs-union disambiguator A2 with every admissible unique-key choice). The handler "
        "body is evaluated as a decision tree on every alternative of the union and every world (optional probed "
        "key present/absent, array empty/non-empty, alternative of nested values). Obligations per leaf: the "
        "handler does not raise / fall through / return None for a non-null value (supported) and the class it "
        "structures into accepts every valid value of the alternative in that world (sound, metamodel-level "
        "subsumption computed coinductively). Sites without any handler are reported."
        "Added clauses: each of the 193 positions whose metamodel type contains a union is annotated with exactly that type (else it is no dispatch site at all); get_converter registers the hooks on the default path and on a caller-supplied converter (taken over from C19's fold of get_converter)."),
    "rule": "one obligation per (site, handler variant, alternative, world); plus one per site for 'has a handler'",
    "trusted_base": ["A1 cattrs 24.1 dispatch order", "A2 create_default_dis_func", "A3 generated attrs structure fn",
                     "typing: unions compare as sets, flatten, dedupe"],
    "assumptions": ["types.py is the image of lsp.json (decided by C04)",
                    "values are metamodel-valid for the alternative under analysis"],
    "not_decided": ["structuring directly against module-level alias objects that still hold ForwardRefs"],
}


def run(ctx: Ctx):
    sa = _sitebase.analysis(ctx)
    _sitebase.floors(ctx, sa)
    _sitebase.report(ctx, sa, {"unsupported": "supported", "unsound": "sound"},
                     {"unsupported": "site-has-handler"})
    # A2 precondition: cattrs' native disambiguator takes the wire names from `.overrides` of the per-class
    # structure function; the structure factory must hand back the generated function with camelCase renames
    from .. import special
    from . import _imgbase
    im = _imgbase.image(ctx)
    # only what the disambiguator depends on: the factory is registered, returns the generated function, and the
    # rename it carries is stable (omit_if_default plays no part in structuring)
    probs = [p for p in special.factory_wiring(im) if p[0].startswith("structure")
             and not (":order:" in p[0] and "omit_if_default:" in p[1])]
    for construct, msg, ln in probs:
        ctx.fail("native-disambiguator-sees-wire-names", construct, msg, P_HOOKS, ln or None)
    ren = special.folded_rename(im, "structure")
    bad = 0
    for s_ in sa.sites.values():
        if s_.handler_kind != "native":
            continue
        from ..pymodel import members as _members, NONE as _NONE
        for m_ in _members(s_.ty):
            if m_ == _NONE:
                continue
            c = im.types.classes[m_[1]]
            for f in c.fields:
                ok = ren(c.name, f.name) == im.camel(f.name)
                bad += not ok
                ctx.check(ok, "native-disambiguator-sees-wire-names", f"{c.name}.{f.name}",
                          f"the structure function of {c.name} carries rename={ren(c.name, f.name)!r} for {f.name}: the native "
                          f"disambiguator of {show(s_.ty)} would test the wrong key", P_HOOKS, f.lineno)
    ctx.extra["sites"] = len(sa.sites)
    ctx.extra["handler_kinds"] = {}
    for s in sa.sites.values():
        k = s.handler_kind.split(":")[0]
        ctx.extra["handler_kinds"][k] = ctx.extra["handler_kinds"].get(k, 0) + 1
    ctx.extra["native_disambiguators"] = {k: [{"table": t, "fallback": fb} for t, fb in v if t != "typeerror"]
                                          for k, v in sa.native_tables.items()}
    ctx.extra["worlds"] = sa.worlds


_run_before_declared_types = run


def run(ctx: Ctx):  # noqa: F811
    _run_before_declared_types(ctx)
    # a union of the metamodel that the annotation does not spell out is not a dispatch site at all: its alternatives are never told apart
    from . import _imgbase as _ib
    from ..common import P_TYPES as _PT
    from ..pymodel import show as _show, walk_ty as _walk
    im = _ib.image(ctx)
    n = 0
    for p in im.pairs:
        if p.field is None or p.exp_ty is None:
            continue
        has_union = any(t_[0] == "union" and len([m_ for m_ in t_[1] if m_ != ("prim", "none")]) > 1 for t_ in _walk(p.exp_ty))
        if True and not has_union:
            continue
        n += 1
        ctx.check(p.field.resolved == p.exp_ty, "union-position-is-declared", f"{p.cls.name}.{p.field.name}",
                  f"{p.cls.name}.{p.field.name} is annotated {_show(p.field.resolved)}; the metamodel type is {_show(p.exp_ty)}",
                  _PT, p.field.lineno)
    ctx.floor("positions compared with the metamodel type", n, 60)
