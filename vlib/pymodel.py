"""E1 -- static model of the generated Python package (types.py, _hooks.py, converters.py).

Everything is obtained from `ast`; nothing from /repo is imported or executed.

Type-expression IR (hashable tuples, "tyexpr"):
    ('cls', N)      attrs class N            ('enum', N)   enum class N
    ('opaque', N)   plain (non-attrs) class  ('prim', p)   p in int|str|bool|float|none|any|object
    ('fwd', N)      unresolved typing.ForwardRef('N')
    ('seq', t) ('list', t) ('map', k, v) ('tup', (t..)) ('lit', (v..)) ('union', frozenset{t..})
Normalisation reproduces typing's: nested unions are flattened, duplicates dropped, a singleton union
collapses to its member, Optional[X] = Union[X, None].  Unions compare as sets (as typing's do, which
is what cattrs' union registry relies on).
"""
from __future__ import annotations

import ast

from .common import AnalysisError, Sources, P_TYPES, P_HOOKS, P_CONVERTERS

MISSING = ("<missing>",)
PRIMS = {"int": "int", "str": "str", "bool": "bool", "float": "float", "Any": "any",
         "object": "object", "None": "none"}


# ------------------------------------------------------------------------------------------------
# tyexpr helpers

def mk_union(members) -> tuple:
    flat = []
    for m in members:
        if m[0] == "union":
            flat.extend(sorted(m[1], key=repr))
        else:
            flat.append(m)
    s = frozenset(flat)
    if len(s) == 1:
        return next(iter(s))
    if not s:
        raise AnalysisError("empty Union")
    return ("union", s)


def mk_union_ordered(members) -> tuple[tuple, list]:
    """Like mk_union but also returns typing's argument order (first occurrence wins)."""
    flat = []
    for m, order in members:
        if m[0] == "union":
            flat.extend(order)
        else:
            flat.append(m)
    seen, out = set(), []
    for m in flat:
        if m not in seen:
            seen.add(m)
            out.append(m)
    return mk_union(out), out


NONE = ("prim", "none")
ANY = ("prim", "any")


def members(t) -> frozenset:
    return t[1] if t[0] == "union" else frozenset([t])


def is_optional(t) -> bool:
    """cattrs.is_optional: a union of exactly two members one of which is None."""
    return t[0] == "union" and len(t[1]) == 2 and NONE in t[1]


def strip_none(t):
    ms = [m for m in members(t) if m != NONE]
    if not ms:
        return NONE
    return mk_union(ms)


def show(t) -> str:
    k = t[0]
    if k in ("cls", "enum", "opaque"):
        return t[1]
    if k == "prim":
        return {"none": "None", "any": "Any"}.get(t[1], t[1])
    if k == "fwd":
        return f"'{t[1]}'"
    if k == "seq":
        return f"Sequence[{show(t[1])}]"
    if k == "list":
        return f"List[{show(t[1])}]"
    if k == "map":
        return f"Dict[{show(t[1])}, {show(t[2])}]"
    if k == "tup":
        return "Tuple[" + ", ".join(show(x) for x in t[1]) + "]"
    if k == "lit":
        return "Literal[" + ", ".join(repr(x) for x in t[1]) + "]"
    if k == "union":
        ms = sorted(t[1], key=lambda m: (m == NONE, show(m)))
        if NONE in t[1] and len(ms) >= 2:
            rest = [m for m in ms if m != NONE]
            inner = show(rest[0]) if len(rest) == 1 else "Union[" + ", ".join(show(x) for x in rest) + "]"
            return f"Optional[{inner}]"
        return "Union[" + ", ".join(show(x) for x in ms) + "]"
    return repr(t)


def walk_ty(t):
    yield t
    k = t[0]
    if k in ("seq", "list"):
        yield from walk_ty(t[1])
    elif k == "map":
        yield from walk_ty(t[1])
        yield from walk_ty(t[2])
    elif k == "tup":
        for x in t[1]:
            yield from walk_ty(x)
    elif k == "union":
        for x in sorted(t[1], key=repr):
            yield from walk_ty(x)


# ------------------------------------------------------------------------------------------------
# type-expression parser shared by types.py and _hooks.py

TYPING_HEADS = ("Union", "Optional", "Sequence", "List", "Dict", "Tuple", "Literal", "Mapping", "Iterable")


def parse_type(node, where, lookup) -> tuple[tuple, list]:
    """ast expression -> (tyexpr, ordered top-level union args).  `lookup(node)` resolves Name /
    Attribute / Call nodes of the enclosing module and returns (tyexpr, order) or None."""
    def rec(n):
        return parse_type(n, where, lookup)

    if isinstance(node, ast.Constant):
        if node.value is None:
            return NONE, [NONE]
        if isinstance(node.value, str):
            s = node.value.strip()
            if s.isidentifier():
                t = ("fwd", s)
                return t, [t]
            try:
                sub = ast.parse(s, mode="eval").body
            except SyntaxError:
                raise AnalysisError(f"{where}: unparsable string annotation {s!r}")

            class Rw(ast.NodeTransformer):
                def visit_Name(self, n):
                    if n.id in PRIMS or n.id in TYPING_HEADS:
                        return n
                    return ast.copy_location(ast.Constant(value=n.id), n)

                def visit_Subscript(self, n):
                    n.slice = self.visit(n.slice)
                    return n
            return rec(Rw().visit(sub))
        raise AnalysisError(f"{where}: constant {node.value!r} in type position")
    if isinstance(node, (ast.Name, ast.Attribute, ast.Call)):
        d = dotted(node)
        if d and d.startswith("typing."):
            return rec(ast.Name(id=d.split(".", 1)[1], ctx=ast.Load()))
        try:
            r = lookup(node)
        except AnalysisError as e:
            raise AnalysisError(f"{where}: {e}")
        if r is None:
            raise AnalysisError(f"{where}: cannot resolve {ast.unparse(node)} in type position")
        return r
    if isinstance(node, ast.Subscript):
        head = dotted(node.value)
        if head and head.startswith("typing."):
            head = head.split(".", 1)[1]
        sl = node.slice
        args = list(sl.elts) if isinstance(sl, ast.Tuple) else [sl]
        if head == "Union":
            return mk_union_ordered([rec(a) for a in args])
        if head == "Optional":
            if len(args) != 1:
                raise AnalysisError(f"{where}: Optional with {len(args)} args")
            return mk_union_ordered([rec(args[0]), (NONE, [NONE])])
        if head in ("Sequence", "List", "Iterable"):
            if len(args) != 1:
                raise AnalysisError(f"{where}: {head} with {len(args)} args")
            t = ("seq" if head == "Sequence" else "list", rec(args[0])[0])
            return t, [t]
        if head in ("Dict", "Mapping"):
            if len(args) != 2:
                raise AnalysisError(f"{where}: Dict with {len(args)} args")
            t = ("map", rec(args[0])[0], rec(args[1])[0])
            return t, [t]
        if head == "Tuple":
            t = ("tup", tuple(rec(a)[0] for a in args))
            return t, [t]
        if head == "Literal":
            t = ("lit", tuple(const_value(a) for a in args))
            return t, [t]
        raise AnalysisError(f"{where}: unsupported generic {head}")
    raise AnalysisError(f"{where}: unsupported type expression {ast.dump(node)[:80]}")


class PyField:
    __slots__ = ("name", "ann", "ty", "ty_order", "default", "validator", "validator_ast", "lineno",
                 "via_field_call", "resolved", "owner")

    def __init__(self, name, ann, lineno):
        self.name = name
        self.ann = ann
        self.ty = None            # definition-time tyexpr (may contain fwd)
        self.ty_order = None
        self.default = MISSING
        self.validator = None     # normal-form string or None
        self.validator_ast = None
        self.lineno = lineno
        self.via_field_call = False
        self.resolved = None      # tyexpr after attrs.resolve_types
        self.owner = None

    @property
    def has_default(self) -> bool:
        return self.default is not MISSING


class PyClass:
    def __init__(self, name, node):
        self.name = name
        self.node = node
        self.lineno = node.lineno
        self.decorators: list[str] = []
        self.bases: list[str] = []
        self.kind = "plain"          # attrs | enum | plain
        self.fields: list[PyField] = []
        self.methods: dict[str, ast.FunctionDef] = {}
        self.members: list[tuple[str, object]] = []   # enum members
        self.enum_base = None        # 'str' | 'int' | None

    def field(self, name):
        for f in self.fields:
            if f.name == name:
                return f
        return None


def dotted(node) -> str | None:
    if isinstance(node, ast.Name):
        return node.id
    if isinstance(node, ast.Attribute):
        b = dotted(node.value)
        return f"{b}.{node.attr}" if b else None
    return None


def const_value(node):
    """Literal constant of a default expression; raises AnalysisError on anything else."""
    if isinstance(node, ast.Constant):
        return node.value
    if isinstance(node, ast.UnaryOp) and isinstance(node.op, ast.USub) and isinstance(node.operand, ast.Constant):
        return -node.operand.value
    raise AnalysisError(f"non-constant default at line {getattr(node, 'lineno', '?')}: {ast.dump(node)[:80]}")


def norm_validator(node) -> str:
    """Normal form of a validator expression (independent of spelling/formatting)."""
    d = dotted(node)
    if d == "validators.integer_validator":
        return "integer"
    if d == "validators.uinteger_validator":
        return "uinteger"
    if isinstance(node, ast.Call):
        fn = dotted(node.func)
        if fn == "attrs.validators.instance_of" and len(node.args) == 1 and not node.keywords:
            a = dotted(node.args[0])
            if a:
                return f"instance_of({a})"
        if fn == "attrs.validators.optional" and len(node.args) == 1 and not node.keywords:
            return f"optional({norm_validator(node.args[0])})"
        if fn == "attrs.validators.in_" and len(node.args) == 1 and not node.keywords:
            a = node.args[0]
            if isinstance(a, (ast.List, ast.Tuple, ast.Set)) and all(isinstance(e, ast.Constant) for e in a.elts):
                return "in_(" + ",".join(repr(e.value) for e in a.elts) + ")"
        if fn == "attrs.validators.and_":
            return "and_(" + ",".join(norm_validator(a) for a in node.args) + ")"
    if isinstance(node, (ast.List, ast.Tuple)):
        return "and_(" + ",".join(norm_validator(a) for a in node.elts) + ")"
    return "unknown:" + ast.dump(node)[:120]


class TypesModule:
    """Model of lsprotocol/types.py."""

    def __init__(self, src: Sources, rel: str = P_TYPES):
        self.rel = rel
        text = src.text(rel)
        try:
            self.tree = ast.parse(text)
        except SyntaxError as e:
            raise AnalysisError(f"{rel}: syntax error: {e}")
        self.env: dict[str, tuple] = {}          # name -> tyexpr value of the binding (final)
        self.env_order: dict[str, list] = {}     # name -> ordered union args where relevant
        self.classes: dict[str, PyClass] = {}
        self.aliases: dict[str, tuple] = {}      # alias name -> def-time tyexpr
        self.alias_nodes: dict[str, ast.AST] = {}
        self.alias_order: dict[str, list] = {}
        self.str_consts: dict[str, str] = {}     # NAME -> "string"
        self.other_consts: dict[str, object] = {}
        self.tables: dict[str, ast.AST] = {}
        self.functions: dict[str, ast.FunctionDef] = {}
        self.def_order: list[str] = []
        self.typing_names: set[str] = set()
        self.imports: list[str] = []
        self._build()
        self._resolve_all()

    # ---------------------------------------------------------------------------------------
    def parse_ty(self, node, where="") -> tuple:
        return self._parse(node, where)[0]

    def _lookup(self, node):
        if isinstance(node, ast.Name):
            n = node.id
            if n in PRIMS and n not in self.env:
                t = ("prim", PRIMS[n])
                return t, [t]
            if n in self.env:
                t = self.env[n]
                return t, list(self.env_order.get(n, [t]))
            raise AnalysisError(f"name {n!r} not defined at this point of types.py")
        return None

    def _parse(self, node, where) -> tuple[tuple, list]:
        return parse_type(node, where, self._lookup)

    # ---------------------------------------------------------------------------------------
    def _bind(self, name, ty, order=None):
        self.env[name] = ty
        if order is not None:
            self.env_order[name] = order
        elif name in self.env_order:
            del self.env_order[name]
        self.def_order.append(name)

    def _build(self):
        for st in self.tree.body:
            if isinstance(st, ast.Import):
                self.imports += [a.name for a in st.names]
            elif isinstance(st, ast.ImportFrom):
                if st.module == "typing":
                    self.typing_names |= {a.asname or a.name for a in st.names}
                self.imports.append(f"from {'.' * st.level}{st.module or ''}")
            elif isinstance(st, ast.Expr):
                if not isinstance(st.value, ast.Constant):
                    raise AnalysisError(f"{self.rel}:{st.lineno}: module-level expression statement")
            elif isinstance(st, ast.ClassDef):
                self._class(st)
            elif isinstance(st, ast.FunctionDef):
                self.functions[st.name] = st
            elif isinstance(st, (ast.Assign, ast.AnnAssign)):
                self._assign(st)
            else:
                raise AnalysisError(f"{self.rel}:{st.lineno}: unsupported module-level statement "
                                    f"{type(st).__name__}")

    def _assign(self, st):
        if isinstance(st, ast.Assign):
            if len(st.targets) != 1 or not isinstance(st.targets[0], ast.Name):
                raise AnalysisError(f"{self.rel}:{st.lineno}: unsupported assignment target")
            name, value = st.targets[0].id, st.value
        else:
            if not isinstance(st.target, ast.Name) or st.value is None:
                raise AnalysisError(f"{self.rel}:{st.lineno}: unsupported annotated assignment")
            name, value = st.target.id, st.value
        # string / numeric constants
        if isinstance(value, ast.Constant) and isinstance(value.value, str) and not isinstance(st, ast.AnnAssign):
            if name in self.classes or name in self.aliases:
                raise AnalysisError(f"{self.rel}:{st.lineno}: {name} rebound to a string")
            self.str_consts[name] = value.value
            return
        if isinstance(value, (ast.Dict, ast.List, ast.Tuple, ast.Set)):
            self.tables[name] = value
            return
        # immutable / wrapped tables: frozenset({...}), tuple([...]), MappingProxyType({...}), dict(...)
        if isinstance(value, ast.Call) and (dotted(value.func) or "").split(".")[-1] in (
                "frozenset", "tuple", "set", "list", "dict", "MappingProxyType") and name.upper() == name:
            self.tables[name] = value
            return
        if isinstance(value, ast.Name) and value.id == "object" and name == "LSPObject":
            # `LSPObject = object` (generator's alternative emission)
            self._bind(name, ("prim", "object"))
            self.aliases[name] = ("prim", "object")
            self.alias_nodes[name] = value
            return
        # otherwise it must be a type alias
        ty, order = self._parse(value, f"{self.rel}:{st.lineno} alias {name}")
        self.aliases[name] = ty
        self.alias_nodes[name] = value
        self.alias_order[name] = order
        if name in self.classes:
            del self.classes[name]
        self._bind(name, ty, order)

    def _class(self, node: ast.ClassDef):
        c = PyClass(node.name, node)
        for d in node.decorator_list:
            dn = dotted(d.func) if isinstance(d, ast.Call) else dotted(d)
            if dn is None:
                raise AnalysisError(f"{self.rel}:{node.lineno}: unsupported decorator")
            if isinstance(d, ast.Call) and (d.args or d.keywords):
                dn += "(" + ",".join([ast.dump(a) for a in d.args] +
                                     [f"{k.arg}={ast.unparse(k.value)}" for k in d.keywords]) + ")"
            c.decorators.append(dn)
        c.bases = [dotted(b) or ast.dump(b) for b in node.bases]
        if node.keywords:
            raise AnalysisError(f"{self.rel}:{node.lineno}: class keywords on {node.name}")
        if any(b in ("enum.Enum", "enum.IntEnum", "enum.StrEnum", "enum.IntFlag", "enum.Flag") for b in c.bases):
            c.kind = "enum"
            c.enum_base = "str" if "str" in c.bases or "enum.StrEnum" in c.bases else (
                "int" if "int" in c.bases or "enum.IntEnum" in c.bases else None)
            ty = ("enum", c.name)
        elif any(d.split("(")[0] in ("attrs.define", "attrs.frozen", "attrs.mutable", "attr.s", "attrs.s") for d in c.decorators):
            c.kind = "attrs"
            ty = ("cls", c.name)
        else:
            ty = ("opaque", c.name)
        if c.kind != "enum" and c.bases:
            raise AnalysisError(f"{self.rel}:{node.lineno}: class {c.name} has base classes {c.bases}; "
                                "inherited attrs fields are not modelled")
        # the class name is NOT bound while its body executes (Python semantics): body first
        for st in node.body:
            if isinstance(st, ast.Expr) and isinstance(st.value, ast.Constant):
                continue
            if isinstance(st, ast.Pass):
                continue
            if isinstance(st, ast.FunctionDef):
                c.methods[st.name] = st
                continue
            if c.kind == "enum":
                if isinstance(st, ast.Assign) and len(st.targets) == 1 and isinstance(st.targets[0], ast.Name):
                    c.members.append((st.targets[0].id, const_value(st.value)))
                    continue
                raise AnalysisError(f"{self.rel}:{st.lineno}: unsupported statement in enum {c.name}")
            if isinstance(st, ast.AnnAssign) and isinstance(st.target, ast.Name):
                f = PyField(st.target.id, st.annotation, st.lineno)
                f.owner = c.name
                f.ty, f.ty_order = self._parse(st.annotation, f"{self.rel}:{st.lineno} {c.name}.{f.name}")
                self._rhs(c, f, st.value)
                if c.field(f.name) is not None:
                    c.fields = [x for x in c.fields if x.name != f.name]
                c.fields.append(f)
                continue
            raise AnalysisError(f"{self.rel}:{st.lineno}: unsupported statement in class {c.name}: "
                                f"{type(st).__name__}")
        self.classes[c.name] = c
        self.aliases.pop(c.name, None)
        self._bind(c.name, ty)

    def _rhs(self, c: PyClass, f: PyField, value):
        where = f"{self.rel}:{f.lineno} {c.name}.{f.name}"
        if value is None:
            return
        if isinstance(value, ast.Call) and dotted(value.func) in ("attrs.field", "attr.ib", "attrs.ib"):
            f.via_field_call = True
            if value.args:
                raise AnalysisError(f"{where}: positional arguments to attrs.field")
            for kw in value.keywords:
                if kw.arg == "default":
                    f.default = const_value(kw.value)
                elif kw.arg == "validator":
                    f.validator_ast = kw.value
                    f.validator = norm_validator(kw.value)
                elif kw.arg in ("kw_only", "repr", "eq", "hash", "metadata", "alias", "on_setattr"):
                    c.node  # tolerated: no influence on (un)structuring decided here
                    if kw.arg == "alias":
                        raise AnalysisError(f"{where}: attrs alias= changes constructor names; not modelled")
                else:
                    raise AnalysisError(f"{where}: attrs.field keyword {kw.arg!r} is not modelled")
            return
        f.default = const_value(value)

    # ---------------------------------------------------------------------------------------
    def resolve(self, t, _stack=()):
        """What attrs.resolve_types / typing.get_type_hints makes of a definition-time tyexpr:
        forward references are looked up (recursively) in the module's final namespace."""
        k = t[0]
        if k == "fwd":
            n = t[1]
            if n in _stack:
                raise AnalysisError(f"cyclic forward reference through alias {n}")
            if n in PRIMS and n not in self.env:
                return ("prim", PRIMS[n])
            if n not in self.env:
                return t  # unresolvable: stays a ForwardRef (reported by C03/C09)
            return self.resolve(self.env[n], _stack + (n,))
        if k in ("seq", "list"):
            return (k, self.resolve(t[1], _stack))
        if k == "map":
            return ("map", self.resolve(t[1], _stack), self.resolve(t[2], _stack))
        if k == "tup":
            return ("tup", tuple(self.resolve(x, _stack) for x in t[1]))
        if k == "union":
            return mk_union([self.resolve(x, _stack) for x in sorted(t[1], key=repr)])
        return t

    def resolve_order(self, order, _stack=()):
        """Ordered top-level members after resolution (typing keeps first occurrences)."""
        out = []
        for m in order:
            if m[0] == "fwd" and m[1] in self.env and m[1] not in _stack:
                sub = self.env_order.get(m[1]) or [self.env[m[1]]]
                if self.env[m[1]][0] == "union":
                    if m[1] not in self.env_order:
                        sub = sorted(self.env[m[1]][1], key=repr)
                    out.extend(self.resolve_order(sub, _stack + (m[1],)))
                    continue
            r = self.resolve(m)
            if r[0] == "union":
                out.extend(self.resolve_order(sorted(r[1], key=repr), _stack))
            else:
                out.append(r)
        seen, res = set(), []
        for m in out:
            if m not in seen:
                seen.add(m)
                res.append(m)
        return res

    def _resolve_all(self):
        for c in self.classes.values():
            for f in c.fields:
                f.resolved = self.resolve(f.ty)

    # ---------------------------------------------------------------------------------------
    def attrs_classes(self):
        return [c for c in self.classes.values() if c.kind == "attrs"]

    def enums(self):
        return [c for c in self.classes.values() if c.kind == "enum"]

    def table_list_of_names(self, name) -> list[str]:
        node = self.tables.get(name)
        if not isinstance(node, ast.List):
            raise AnalysisError(f"{self.rel}: table {name} is missing or not a list display")
        out = []
        for e in node.elts:
            if isinstance(e, ast.Name):
                out.append(e.id)
            elif isinstance(e, ast.Constant) and isinstance(e.value, str):
                out.append(e.value)
            else:
                raise AnalysisError(f"{self.rel}: table {name} has a non-name element")
        return out

    def final_ty(self, name: str):
        """tyexpr of a module-level name as an outside module sees it (lsp_types.<name>)."""
        if name in self.env:
            return self.env[name]
        raise AnalysisError(f"lsp_types.{name} is not defined in {self.rel}")
