"""C18 -- model loading is lossless, merge is concatenation, invalid models write nothing."""
import ast

from ..common import Ctx, P_MODEL, P_MAIN, P_SCHEMA, AnalysisError
from ..genlint import Module, model_classes, dotted, in_list_values, statement_order, calls_in

META = {
    "level": "other",
    "explanation": (
        "Static analysis of generator/model.py, generator/__main__.py and lsp.schema.json (read as data). "
        "(a) every hand-written __eq__: each self.x / other.x names a declared field of that class (so comparing "
        "never raises AttributeError), the random id_ is never compared, operands are combined only as "
        "`self.f == other.f` conjunctions under an isinstance guard with `return False` otherwise, and the compared "
        "set contains every structural field (all fields except documentation/since/sinceTags/proposed/deprecated "
        "and id_; named exceptions below). (b) loader <-> schema, by walking the schema and the attrs converter "
        "chain in parallel from MetaModel <-> LSPModel: every schema property is a field of the class the chain "
        "instantiates for that definition, every field without default is schema-required, every nested "
        "declaration has a converter that builds it, every kind the schema's Type admits is a key of "
        "convert_to_lsp_type's table, and the in_([...]) name lists equal the schema enums. (c) create_lsp_model "
        "extends every list-valued field of LSPModel, in order, from every further model. (d) gate: in main(), "
        "jsonschema.validate is applied to each loaded document before it is appended to the list handed to "
        "create_lsp_model, is not inside a try, and precedes create_lsp_model, the plugin import and the plugin "
        "call; no write call precedes it."),
    "trusted_base": ["attrs: a class called with an unknown keyword raises TypeError; converters run before validators",
                     "jsonschema.validate raises on an invalid instance"],
    "assumptions": ["plugins are only entered through main()"],
    "not_decided": ["equality of documentation-only differences (by design not structural)",
                    "Request/Notification.params given as an array of types (schema allows it; the loader keeps the raw list)"],
}

ANNOTATION_FIELDS = {"documentation", "since", "sinceTags", "proposed", "deprecated"}
# generation hints, not structure (kept from the reference tree; reason recorded in DESIGN.md C18)
EQ_EXCEPTIONS = {("Enum", "supportsCustomValues"), ("Request", "typeName"), ("Notification", "typeName")}


def check_eq(ctx: Ctx, cname: str, info: dict):
    fn = info["methods"].get("__eq__")
    fields = info["fields"]
    if fn is None:
        ctx.fail("eq-defined", f"class={cname}", "no hand-written __eq__ (attrs' generated one would compare id_)", P_MODEL,
                 info["node"].lineno)
        return
    ctx.fn(f"model.py:{cname}.__eq__")
    if len(fn.args.args) != 2:
        raise AnalysisError(f"{P_MODEL}: {cname}.__eq__ signature")
    me, other = fn.args.args[0].arg, fn.args.args[1].arg
    compared = set()
    ok_shape = True
    for node in ast.walk(fn):
        if isinstance(node, ast.Attribute) and isinstance(node.value, ast.Name) and node.value.id in (me, other):
            ctx.check(node.attr in fields, "eq-reads-declared-fields", f"{cname}.__eq__:{node.value.id}.{node.attr}",
                      f"{cname}.__eq__ reads .{node.attr}, which is not a field of {cname}: comparing two equal-named "
                      f"instances raises AttributeError", P_MODEL, node.lineno)
            ctx.check(node.attr != "id_", "eq-ignores-random-id", f"{cname}.__eq__:id_",
                      "the random id_ takes part in equality: two loads of one document compare unequal", P_MODEL, node.lineno)
        if isinstance(node, ast.Compare):
            if len(node.ops) == 1 and isinstance(node.ops[0], ast.Eq):
                l, r = node.left, node.comparators[0]
                if (isinstance(l, ast.Attribute) and isinstance(r, ast.Attribute) and dotted(l.value) == me
                        and dotted(r.value) == other and l.attr == r.attr):
                    compared.add(l.attr)
                    continue
                if (isinstance(l, ast.Attribute) and isinstance(r, ast.Attribute) and dotted(l.value) == other
                        and dotted(r.value) == me and l.attr == r.attr):
                    compared.add(l.attr)
                    continue
            ok_shape = False
            ctx.fail("eq-shape", f"{cname}.__eq__:compare", f"comparison `{ast.unparse(node)}` is not `self.f == other.f`",
                     P_MODEL, node.lineno)
        if isinstance(node, ast.BoolOp) and not isinstance(node.op, ast.And):
            ok_shape = False
            ctx.fail("eq-shape", f"{cname}.__eq__:or", "fields are not combined by `and`", P_MODEL, node.lineno)
        if isinstance(node, ast.UnaryOp) and isinstance(node.op, ast.Not):
            ok_shape = False
            ctx.fail("eq-shape", f"{cname}.__eq__:not", "negation inside __eq__", P_MODEL, node.lineno)
    # guard shape: if isinstance(other, C): return <expr>; return False
    body = [s for s in fn.body if not (isinstance(s, ast.Expr) and isinstance(s.value, ast.Constant))]
    guard = (len(body) == 2 and isinstance(body[0], ast.If) and isinstance(body[0].test, ast.Call)
             and dotted(body[0].test.func) == "isinstance" and len(body[0].test.args) == 2
             and dotted(body[0].test.args[0]) == other and dotted(body[0].test.args[1]) == cname
             and not body[0].orelse and len(body[0].body) == 1 and isinstance(body[0].body[0], ast.Return)
             and isinstance(body[1], ast.Return) and isinstance(body[1].value, ast.Constant)
             and body[1].value.value is False)
    ctx.check(guard, "eq-shape", f"{cname}.__eq__:guard",
              f"__eq__ is not `if isinstance(other, {cname}): return ...; return False`", P_MODEL, fn.lineno)
    want = {f for f in fields if f not in ANNOTATION_FIELDS and f != "id_" and (cname, f) not in EQ_EXCEPTIONS}
    for f in sorted(want):
        ctx.check(f in compared, "eq-compares-structure", f"{cname}.{f}",
                  f"{cname}.__eq__ does not compare the structural field {f}: structurally different documents "
                  "compare equal", P_MODEL, fn.lineno, sample={"class": cname, "field": f})


def conv_target(expr):
    """converter expression -> ('class', Name) | ('type',) | ('mapkey',) | None"""
    if expr is None:
        return None
    if isinstance(expr, ast.Call) and dotted(expr.func) in ("list_converter", "partial_apply") and len(expr.args) == 1:
        n = dotted(expr.args[0])
        if n == "convert_to_lsp_type":
            return ("type",)
        return ("class", n)
    if isinstance(expr, ast.Name):
        if expr.id == "convert_map_key":
            return ("mapkey",)
        if expr.id == "convert_to_lsp_type":
            return ("type",)
    if isinstance(expr, ast.Lambda) and isinstance(expr.body, ast.Call):
        n = dotted(expr.body.func)
        if n and n[0].isupper():
            return ("class", n)
        if n in ("str", "int"):
            return None
    return ("unknown", ast.unparse(expr))


def run(ctx: Ctx):
    mod = Module(P_MODEL, ctx.src.text(P_MODEL))
    classes = model_classes(mod)
    ctx.floor("attrs model classes", len(classes), 18)
    for cname, info in classes.items():
        check_eq(ctx, cname, info)

    # ------------------------------------------------------------------ (b) loader <-> schema
    schema = ctx.src.json(P_SCHEMA)
    defs = schema.get("definitions")
    if not isinstance(defs, dict) or "MetaModel" not in defs:
        raise AnalysisError(f"{P_SCHEMA}: definitions/MetaModel missing")
    # convert_to_lsp_type table
    ctl = mod.functions.get("convert_to_lsp_type")
    if ctl is None:
        raise AnalysisError(f"{P_MODEL}: convert_to_lsp_type not found")
    lut = {}
    for node in ast.walk(ctl):
        if isinstance(node, ast.Dict) and node.keys and all(isinstance(k, ast.Constant) for k in node.keys):
            for k, v in zip(node.keys, node.values):
                lut[k.value] = dotted(v)
    ctx.floor("convert_to_lsp_type table entries", len(lut), 8)
    ctx.fn("model.py:convert_to_lsp_type")

    def ref_of(s):
        if "$ref" in s:
            return s["$ref"].rsplit("/", 1)[1]
        return None

    seen = set()

    def walk(dname, cname, via):
        if (dname, cname) in seen:
            return
        seen.add((dname, cname))
        d = defs.get(dname)
        if d is None:
            raise AnalysisError(f"{P_SCHEMA}: definition {dname} missing")
        if cname not in classes:
            ctx.fail("schema-def-has-class", f"def={dname}", f"the loader maps {dname} to {cname}, which is not an "
                     f"attrs class of model.py (via {via})", P_MODEL)
            return
        fields = classes[cname]["fields"]
        props = d.get("properties", {})
        for p, s in sorted(props.items()):
            if p not in fields:
                ctx.fail("schema-property-is-field", f"{dname}.{p}",
                         f"schema-valid property {dname}.{p} is not a field of model.{cname}: loading a document "
                         f"that uses it raises TypeError (unexpected keyword)", P_MODEL, classes[cname]["node"].lineno)
                continue
            ctx.ok("schema-property-is-field", {"schema": f"{dname}.{p}", "model": f"{cname}.{p}"})
            f = fields[p]
            # value lists
            if "const" in s:
                vals = in_list_values(f.validator)
                ctx.check(vals == [s["const"]], "name-lists-agree", f"{cname}.{p}",
                          f"{cname}.{p} accepts {vals}, schema const is {s['const']!r}", P_MODEL, f.node.lineno)
            tgt_schema = ref_of(s)
            members = [s] + list(s.get("anyOf", []))
            arr = None
            for m in members:
                if m.get("type") == "array" and isinstance(m.get("items"), dict) and ref_of(m["items"]):
                    arr = ref_of(m["items"])
                if ref_of(m) and tgt_schema is None:
                    tgt_schema = ref_of(m)
            if tgt_schema is None and arr is not None and "anyOf" not in s:
                tgt_schema = arr
            if tgt_schema is None:
                continue
            sd = defs.get(tgt_schema, {})
            if "enum" in sd:       # string enum definition (BaseTypes, MessageDirection)
                vals = in_list_values(f.validator)
                ctx.check(vals is not None and sorted(vals) == sorted(sd["enum"]), "name-lists-agree", f"{cname}.{p}",
                          f"{cname}.{p} accepts {vals}; schema {tgt_schema} allows {sd['enum']}", P_MODEL, f.node.lineno)
                continue
            ct = conv_target(f.converter)
            if ct is None:
                ctx.fail("nested-declarations-built", f"{cname}.{p}",
                         f"{cname}.{p} holds {tgt_schema} declarations but has no converter: they stay raw dicts",
                         P_MODEL, f.node.lineno)
                continue
            if ct[0] == "unknown":
                raise AnalysisError(f"{P_MODEL}:{f.node.lineno}: converter {ct[1]} of {cname}.{p} is not understood")
            ctx.ok("nested-declarations-built")
            if ct[0] == "class":
                walk(tgt_schema, ct[1], f"{cname}.{p}")
            elif ct[0] == "type":
                if tgt_schema != "Type":
                    # a concrete type definition reached through the generic table
                    pass
                walk_type(f"{cname}.{p}")
            elif ct[0] == "mapkey":
                walk_mapkey(tgt_schema)
        for f in fields.values():
            if not f.has_default and f.name != "id_":
                ctx.check(f.name in (d.get("required") or []), "required-fields-are-schema-required", f"{cname}.{f.name}",
                          f"model.{cname}.{f.name} has no default but the schema does not require {dname}.{f.name}: "
                          "a schema-valid document without it raises TypeError", P_MODEL, f.node.lineno)
        for r in d.get("required") or []:
            ctx.check(r in fields, "schema-property-is-field", f"{dname}.{r}:required",
                      f"required {dname}.{r} is not a field of {cname}", P_MODEL)

    type_walked = []

    def walk_type(via):
        if type_walked:
            return
        type_walked.append(via)
        t = defs.get("Type")
        if not t or "anyOf" not in t:
            raise AnalysisError(f"{P_SCHEMA}: definitions/Type.anyOf missing")
        for m in t["anyOf"]:
            dn = ref_of(m)
            kind = defs[dn]["properties"]["kind"].get("const")
            cn = lut.get(kind)
            if cn is None:
                ctx.fail("schema-kind-is-loadable", f"kind={kind}",
                         f"the schema's Type admits kind '{kind}' ({dn}) but convert_to_lsp_type has no entry for it: "
                         "loading raises ValueError('Unknown LSP type')", P_MODEL, ctl.lineno)
                continue
            ctx.ok("schema-kind-is-loadable", {"kind": kind, "class": cn})
            walk(dn, cn, f"convert_to_lsp_type[{kind}]")
        kinds = defs.get("TypeKind", {}).get("enum", [])
        for k in lut:
            ctx.check(k in kinds, "schema-kind-is-loadable", f"lut:{k}", f"table kind '{k}' is not a schema TypeKind", P_MODEL)

    def walk_mapkey(dname):
        d = defs[dname]
        for m in d.get("anyOf", []):
            if ref_of(m):
                walk(ref_of(m), "ReferenceMapKeyType", "convert_map_key")
            else:
                names = m["properties"]["name"].get("enum")
                f = classes.get("BaseMapKeyType", {}).get("fields", {}).get("name")
                vals = in_list_values(f.validator) if f else None
                ctx.check(vals is not None and sorted(vals) == sorted(names), "name-lists-agree", "BaseMapKeyType.name",
                          f"BaseMapKeyType.name accepts {vals}; schema allows {names}", P_MODEL)

    walk("MetaModel", "LSPModel", "root")
    ctx.floor("schema definition <-> model class pairs", len(seen), 18)
    ctx.extra["schema_model_pairs"] = sorted(f"{a}<->{b}" for a, b in seen)

    # ------------------------------------------------------------------ (c) merge
    clm = mod.functions.get("create_lsp_model")
    if clm is None:
        raise AnalysisError(f"{P_MODEL}: create_lsp_model not found")
    ctx.fn("model.py:create_lsp_model")
    lsp_fields = classes["LSPModel"]["fields"]
    list_fields = [n for n, f in lsp_fields.items()
                   if isinstance(f.converter, ast.Call) and dotted(f.converter.func) == "list_converter"]
    ctx.floor("list-valued LSPModel fields", len(list_fields), 5)
    extended = {}
    loop = None
    for node in ast.walk(clm):
        if isinstance(node, ast.For):
            loop = node
            for c in calls_in(node):
                if isinstance(c.func, ast.Attribute) and c.func.attr == "extend" and isinstance(c.func.value, ast.Attribute) \
                        and len(c.args) == 1 and isinstance(c.args[0], ast.Attribute):
                    extended[c.func.value.attr] = (c.args[0].attr, dotted(c.func.value.value), dotted(c.args[0].value))
    ctx.check(loop is not None, "merge-extends-all", "create_lsp_model:loop", "no loop over the further models", P_MODEL, clm.lineno)
    for n in list_fields:
        e = extended.get(n)
        ctx.check(e is not None and e[0] == n, "merge-extends-all", f"LSPModel.{n}",
                  f"create_lsp_model does not extend spec.{n} with addition.{n} ({e})", P_MODEL, clm.lineno)
    if loop is not None:
        it = loop.iter
        ok = isinstance(it, ast.Subscript) and isinstance(it.slice, ast.Slice) and isinstance(it.slice.lower, ast.Constant) \
            and it.slice.lower.value == 1 and it.slice.upper is None and it.slice.step is None
        ctx.check(ok, "merge-extends-all", "create_lsp_model:range",
                  f"the merge loop iterates `{ast.unparse(it)}`, not models[1:]", P_MODEL, loop.lineno)

    # ------------------------------------------------------------------ (d) gate
    mm = Module(P_MAIN, ctx.src.text(P_MAIN))
    main = mm.functions.get("main")
    if main is None:
        raise AnalysisError(f"{P_MAIN}: main not found")
    ctx.fn("__main__.py:main")
    order = statement_order(main)

    def first(pred):
        for i, st, c in order:
            for call in calls_in(st) if not isinstance(st, (ast.For, ast.If, ast.Try, ast.With, ast.While)) else \
                    (x for x in calls_in(st) if False):
                if pred(call):
                    return i, st, c, call
        return None
    val = first(lambda c: (dotted(c.func) or "").endswith("jsonschema.validate") or dotted(c.func) == "validate")
    create = first(lambda c: (dotted(c.func) or "").endswith("create_lsp_model"))
    plug_import = first(lambda c: dotted(c.func) in ("custom_plugin", "importlib.import_module"))
    plug_call = first(lambda c: (dotted(c.func) or "").endswith(".generate"))
    if create is None or plug_call is None:
        raise AnalysisError(f"{P_MAIN}: create_lsp_model / plugin generate call not found in main")
    ctx.check(val is not None, "validate-dominates", "main:validate-present",
              "main() never calls jsonschema.validate", P_MAIN, main.lineno)
    if val is not None:
        vi, vst, vctx, vcall = val
        in_try = any(isinstance(s, ast.Try) for s, _ in vctx)
        ctx.check(not in_try, "validate-dominates", "main:validate-not-in-try",
                  "jsonschema.validate is inside a try block: a validation error may be swallowed", P_MAIN, vst.lineno)
        cond = [s for s, _ in vctx if isinstance(s, (ast.If, ast.While))]
        ctx.check(not cond, "validate-dominates", "main:validate-unconditional",
                  "jsonschema.validate is guarded by a condition", P_MAIN, vst.lineno)
        ctx.check(vi < create[0] and vi < plug_call[0] and (plug_import is None or vi < plug_import[0]),
                  "validate-dominates", "main:validate-before-generate",
                  "jsonschema.validate does not precede create_lsp_model / plugin import / plugin call", P_MAIN, vst.lineno)
        # every element reaching create_lsp_model is validated: the validated name is what gets appended,
        # in the same loop body, after validation
        loops = [s for s, _ in vctx if isinstance(s, ast.For)]
        arg = create[3].args[0] if create[3].args else None
        listname = dotted(arg) if arg is not None else None
        appended_ok = False
        validated = dotted(vcall.args[0]) if vcall.args else None
        if loops and listname:
            lp = loops[-1]
            seen_validate = False
            for st in lp.body:
                for c in calls_in(st):
                    if c is vcall:
                        seen_validate = True
                    if isinstance(c.func, ast.Attribute) and c.func.attr == "append" and dotted(c.func.value) == listname:
                        appended_ok = seen_validate and len(c.args) == 1 and dotted(c.args[0]) == validated
            other_adds = 0
            for i, st, c in order:
                for call in calls_in(st) if not isinstance(st, (ast.For, ast.If, ast.Try, ast.With, ast.While)) else []:
                    if isinstance(call.func, ast.Attribute) and call.func.attr in ("append", "extend", "insert") \
                            and dotted(call.func.value) == listname and lp not in [s for s, _ in c]:
                        other_adds += 1
            appended_ok = appended_ok and other_adds == 0
        ctx.check(appended_ok, "validate-dominates", "main:every-model-validated",
                  f"not every document appended to `{listname}` is the one just validated", P_MAIN, vst.lineno)
        # no write before validation
        writes = []
        for i, st, c in order:
            if i >= vi:
                break
            for call in calls_in(st) if not isinstance(st, (ast.For, ast.If, ast.Try, ast.With, ast.While)) else []:
                d = dotted(call.func) or ""
                if d.split(".")[-1] in ("write_text", "write_bytes", "mkdir", "unlink", "write", "makedirs", "rmtree"):
                    writes.append(d)
                if d == "open" or d.endswith(".open"):
                    mode = call.args[1 if d == "open" else 0] if len(call.args) > (1 if d == "open" else 0) else None
                    if isinstance(mode, ast.Constant) and isinstance(mode.value, str) and any(ch in mode.value for ch in "wax+"):
                        writes.append(d)
        ctx.check(not writes, "validate-dominates", "main:no-write-before-validate",
                  f"file-system writes {writes} precede validation", P_MAIN)
