from ..common import Ctx
from ..image import Image


def image(ctx: Ctx) -> Image:
    # cached on the Sources object itself (never keyed by id(): ids are reused after garbage collection)
    im = getattr(ctx.src, "_image", None)
    if im is None:
        im = Image(ctx.src)
        ctx.src._image = im
    return im


def open_enum_without_base(mm, ty, in_union=False):
    """Names of open enumerations (custom values supported) that occur in the type expression without their base
    type next to them: such a position only takes members of the enumeration."""
    k = ty[0]
    if k == "enum" and ty[1] in mm.enums and mm.enum_open(ty[1]) and not in_union:
        yield ty[1]
    elif k == "union":
        for m_ in ty[1]:
            if m_[0] == "enum" and m_[1] in mm.enums and mm.enum_open(m_[1]) and ("prim", mm.enum_base(m_[1])) not in ty[1]:
                yield m_[1]
            elif m_[0] != "enum":
                yield from open_enum_without_base(mm, m_, True)
    elif k in ("seq", "list"):
        yield from open_enum_without_base(mm, ty[1])
    elif k == "map":
        yield from open_enum_without_base(mm, ty[2])
    elif k == "tup":
        for x in ty[1]:
            yield from open_enum_without_base(mm, x)


def base_protocol_shape(im):
    """The two JSON-RPC base-protocol classes are not in the LSP metamodel; the generator emits them from hand-written
    templates.  Their shape is the base protocol's (LSP specification, "Response Message" / "ResponseError"):
    ResponseError {code: integer, message: string, data?: LSPAny}; the error response {id: integer|string|null,
    error?: ResponseError, jsonrpc: "2.0"}.  -> [(construct, ok, message, lineno)]"""
    from ..pymodel import NONE, mk_union, show
    t = im.types
    out = []
    any_ty = t.final_ty("LSPAny") if "LSPAny" in t.env else ("prim", "any")
    want = {
        "ResponseError": {"code": (("prim", "int"), "integer", False), "message": (("prim", "str"), None, False),
                          "data": (mk_union([any_ty, NONE]), None, True)},
        "ResponseErrorMessage": {"id": (mk_union([("prim", "int"), ("prim", "str"), NONE]), None, True),
                                 "error": (mk_union([("cls", "ResponseError"), NONE]), None, True),
                                 "jsonrpc": (("prim", "str"), None, True)},
    }
    for cname, fields in want.items():
        c = t.classes.get(cname)
        if c is None or c.kind != "attrs":
            out.append((f"class={cname}", False, f"{cname} is not a generated attrs class", None))
            continue
        got_names = [f.name for f in c.fields]
        out.append((f"class={cname}:fields", sorted(got_names) == sorted(fields),
                    f"{cname} has the attributes {got_names}; the base protocol defines {sorted(fields)}", c.lineno))
        for fname, (ty, validator, has_default) in fields.items():
            f = c.field(fname)
            if f is None:
                continue
            resolved = t.resolve(f.resolved) if hasattr(t, "resolve") else f.resolved
            out.append((f"{cname}.{fname}:type", resolved == t.resolve(ty),
                        f"{cname}.{fname} is annotated {show(f.resolved)}; the base protocol says {show(ty)}", f.lineno))
            if validator is not None:
                out.append((f"{cname}.{fname}:validator", f.validator == validator,
                            f"{cname}.{fname} carries the validator {f.validator!r}, expected {validator}", f.lineno))
            out.append((f"{cname}.{fname}:default", bool(f.has_default) == has_default,
                        f"{cname}.{fname} {'has' if f.has_default else 'has no'} default; expected {'one' if has_default else 'none'}",
                        f.lineno))
    return out
