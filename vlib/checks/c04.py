"""C04 -- the generated Python package is a complete, faithful image of the metamodel."""
from ..common import Ctx, P_TYPES
from ..pymodel import show, MISSING
from ..metamodel import camel_to_snake
from . import _imgbase

META = {
    "level": "translation_validation",
    "explanation": (
        "Exhaustive two-way comparison, by static analysis only, of types.py (parsed with ast, annotations "
        "normalised to a type IR: unions as sets, Optional = Union[.., None], aliases expanded, forward "
        "references resolved by name) against generator/lsp.json under an independent statement of the "
        "documented mapping (flattening own > extends/mixins depth-first, requiredness, annotation, validator, "
        "literal default). Every structure / enumeration / alias must have a same-named definition of the right "
        "kind; every class exactly one attribute per flattened property (paired through the package's own "
        "attribute-name -> wire-name helper, constant-folded from _hooks.py); nothing extra."),
    "rule": "one obligation per definition (exists, right kind, nothing extra) and five per attribute "
            "(paired, requiredness, annotation, validator, default)",
    "trusted_base": ["typing normalisation rules (flatten, dedupe, singleton collapse)",
                     "attrs: attrs.field(default=, validator=) semantics"],
    "assumptions": ["lsp.json is the reference (schema-validity of lsp.json is the existing test's job)"],
    "not_decided": ["docstrings/comments", "non-empty anonymous literal types (none in the committed metamodel)"],
}


def dshow(d):
    return "<no default>" if d is MISSING else repr(d)


def run(ctx: Ctx):
    im = _imgbase.image(ctx)
    mm, t = im.mm, im.types
    ctx.floor("metamodel structures", len(mm.structures), 300)
    ctx.floor("metamodel enumerations", len(mm.enums), 30)
    ctx.floor("metamodel aliases", len(mm.aliases), 15)
    ctx.floor("attrs classes in types.py", len(t.attrs_classes()), 400)
    ctx.floor("attribute/property pairs", len(im.pairs), 1000)
    ctx.extra["programs"] = len(mm.structures) + len(mm.enums) + len(mm.aliases) + len(mm.and_types())

    missing = {(k, n) for k, n in im.missing_defs}
    for n in mm.structures:
        if n == "LSPObject":
            continue
        ctx.check(("structure", n) not in missing, "definition-exists", f"structure={n}",
                  f"no attrs class named {n} in types.py", P_TYPES)
    for n, _ in mm.and_types():
        ctx.check(("and", n) not in missing, "definition-exists", f"and-type={n}",
                  f"no attrs class named {n} for the `and` type", P_TYPES)
    for n in mm.enums:
        ctx.check(("enumeration", n) not in missing, "definition-exists", f"enumeration={n}",
                  f"no enum class named {n} in types.py", P_TYPES)
    for n in mm.aliases:
        ctx.check(("typeAlias", n) not in missing, "definition-exists", f"alias={n}",
                  f"no module-level alias named {n} in types.py", P_TYPES)
    for n, want, got in im.wrong_kind:
        ctx.fail("definition-kind", f"name={n}", f"{n} should be a {want} but is a {got}", P_TYPES)

    # nothing extra
    allowed = im.allowed_names()
    defined = set(t.classes) | set(t.aliases)
    for n in sorted(defined):
        ctx.check(n in allowed, "no-extra-definition", f"name={n}",
                  f"{n} is defined in types.py but corresponds to nothing in the metamodel "
                  "(structure, enumeration, alias, message envelope, result alias, and-type)", P_TYPES,
                  (t.classes[n].lineno if n in t.classes else None))

    # aliases
    for n, a in mm.aliases.items():
        if n not in t.aliases or n == "LSPObject":
            continue
        exp = mm.py_alias(n)
        got = t.resolve(t.aliases[n])
        ctx.check(exp == got, "alias-type", f"alias={n}",
                  f"alias {n}: expected {show(exp)} found {show(got)}", P_TYPES,
                  detail={"expected": show(exp), "found": show(got)}, sample={"alias": n, "type": show(got)})
    if "LSPObject" in mm.aliases or "LSPObject" in mm.structures:
        c = t.classes.get("LSPObject")
        ok = (c is not None and c.kind == "plain") or t.env.get("LSPObject") == ("prim", "object")
        ctx.check(ok, "alias-type", "alias=LSPObject", "LSPObject must be a plain class or `object`", P_TYPES)

    # per class
    for cname, w in im.missing_props:
        ctx.fail("property-has-attribute", f"{cname}.{w}",
                 f"property '{w}' of {cname} (own or inherited) has no attribute in the class", P_TYPES,
                 t.classes[cname].lineno)
    for cname, a in im.extra_attrs:
        ctx.fail("attribute-has-property", f"{cname}.{a}",
                 f"attribute {a} (wire name '{im.camel(a)}') matches no property of {cname}", P_TYPES,
                 t.classes[cname].field(a).lineno)
    for cname, w, names in im.dup_wire:
        ctx.fail("wire-name-injective", f"{cname}.{w}", f"attributes {names} share the wire name '{w}'", P_TYPES)

    for p in im.pairs:
        if p.kind == "envelope":
            continue
        f, c = p.field, p.cls
        where = f"{c.name}.{f.name}"
        ctx.ok("property-has-attribute")
        ctx.check(f.name == camel_to_snake(p.wire), "attribute-name", where,
                  f"attribute for property '{p.wire}' should be named {camel_to_snake(p.wire)}", P_TYPES, f.lineno)
        req_ok = (not f.has_default) == p.prop.py_required
        ctx.check(req_ok, "requiredness", where,
                  f"property '{p.wire}' is {'required' if p.prop.py_required else 'not required'} "
                  f"(optional={p.prop.optional}, null-admitting={p.prop.null_admitting}, literal={p.prop.literal}) "
                  f"but the attribute has {dshow(f.default)}", P_TYPES, f.lineno)
        ctx.check(f.resolved == p.exp_ty, "annotation", where,
                  f"expected {show(p.exp_ty)} found {show(f.resolved)}", P_TYPES, f.lineno,
                  {"expected": show(p.exp_ty), "found": show(f.resolved)},
                  sample={"attr": where, "annotation": show(f.resolved), "metamodel": mm.show(p.prop.type)})
        ctx.check(f.validator == p.exp_validator, "validator", where,
                  f"expected validator {p.exp_validator} found {f.validator}", P_TYPES, f.lineno)
        ctx.check(f.default == p.exp_default or (f.default is MISSING and p.exp_default is MISSING), "default", where,
                  f"expected default {dshow(p.exp_default)} found {dshow(f.default)}", P_TYPES, f.lineno)
    ctx.extra["disagreements_checked"] = ctx.obligations
