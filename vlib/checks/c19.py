"""C19 -- converters are independent of creation order, count, configuration and threads."""
import ast

from ..common import Ctx, P_HOOKS, P_CONVERTERS, AnalysisError
from ..genlint import Module, dotted, calls_in
from . import _sitebase

def genlint_walk_own(fn):
    """Nodes of a function body without descending into nested function definitions."""
    todo = [b for b in fn.body if not isinstance(b, (ast.FunctionDef, ast.Lambda, ast.AsyncFunctionDef))]
    while todo:
        n = todo.pop()
        yield n
        for ch in ast.iter_child_nodes(n):
            if not isinstance(ch, (ast.FunctionDef, ast.Lambda, ast.AsyncFunctionDef)):
                todo.append(ch)


META = {
    "level": "other",
    "explanation": (
        "Static analysis of _hooks.py and converters.py for the structural necessary conditions of independence. "
        "(a) lock discipline: the module-level state written by functions reachable from register_hooks (names "
        "declared `global`) is only written inside a `with` on a module-level threading.Lock/RLock; every use of the "
        "shared registry ALL_TYPES_MAP (which attrs.resolve_types mutates, axiom A6) in those functions lies inside "
        "that `with`; inside the `with` the once-flag is re-tested before the work (so a second thread that waited "
        "does not redo it) and the flag is set only after the loop. (b) confinement: every converter method call "
        "inside the three register functions and their nested hooks is made on the register function's own "
        "parameter (no rebinding, no shadowing, no other converter object); no module-level converter, cache "
        "decorator or mutable registry exists in _hooks.py / converters.py; get_converter, folded (E5) "
        "with cattrs.Converter and register_hooks stubbed, builds a fresh Converter on every None call and returns "
        "register_hooks of the very object it was given; register_hooks, folded, calls the resolver before the first "
        "registration. (c) the only converter "
        "attributes used are structure / unstructure / register_* (no branch on detailed_validation or other "
        "configuration). Decides these conditions, not equality of results across converters."),
    "trusted_base": ["A6: attrs.resolve_types inserts __builtins__ into the globalns dict it is given",
                     "threading.Lock semantics"],
    "assumptions": [],
    "not_decided": ["result equality across converters (follows from confinement only together with cattrs' own per-instance state)"],
}

ALLOWED_CONV_ATTRS = {"structure", "unstructure", "register_structure_hook", "register_unstructure_hook",
                      "register_structure_hook_factory", "register_unstructure_hook_factory",
                      "register_structure_hook_func", "register_unstructure_hook_func"}


def run(ctx: Ctx):
    hm = Module(P_HOOKS, ctx.src.text(P_HOOKS))
    cm = Module(P_CONVERTERS, ctx.src.text(P_CONVERTERS))
    # ---- module-level inventory
    locks, module_state, other_mutables = set(), {}, []
    types_alias = None
    for st in hm.tree.body:
        if isinstance(st, ast.ImportFrom) and st.level == 1 and st.module is None:
            for a in st.names:
                if a.name == "types":
                    types_alias = a.asname or a.name
        if isinstance(st, (ast.Assign, ast.AnnAssign)):
            tgt = st.targets[0] if isinstance(st, ast.Assign) else st.target
            val = st.value
            if not isinstance(tgt, ast.Name) or val is None:
                continue
            if isinstance(val, ast.Call) and dotted(val.func) in ("threading.Lock", "threading.RLock", "Lock", "RLock"):
                locks.add(tgt.id)
            elif isinstance(val, ast.Constant):
                module_state[tgt.id] = st
            elif isinstance(val, (ast.Dict, ast.List, ast.Set, ast.DictComp, ast.ListComp, ast.SetComp)):
                other_mutables.append((tgt.id, st.lineno))
            elif isinstance(val, ast.Call):
                d = dotted(val.func) or ""
                if d.endswith("Converter") or d.endswith("get_converter") or d in ("dict", "list", "set", "defaultdict",
                                                                                   "collections.defaultdict", "WeakKeyDictionary"):
                    other_mutables.append((tgt.id, st.lineno))
    if types_alias is None:
        raise AnalysisError(f"{P_HOOKS}: import of the types module not found")
    for name, ln in other_mutables:
        ctx.fail("no-module-level-state", f"_hooks.py:{name}",
                 f"module-level mutable object / converter `{name}` is shared by every converter", P_HOOKS, ln)
    if not other_mutables:
        ctx.ok("no-module-level-state")
    for mod, rel in ((hm, P_HOOKS), (cm, P_CONVERTERS)):
        for fn in mod.all_functions():
            for d in fn.decorator_list:
                dn = dotted(d.func) if isinstance(d, ast.Call) else dotted(d)
                ctx.check(not (dn or "").split(".")[-1] in ("lru_cache", "cache", "cached_property"), "no-module-level-state",
                          f"{rel}:{fn.name}:@{dn}", f"{fn.name} is memoised with {dn}: results are shared across converters",
                          rel, fn.lineno)
        for st in mod.tree.body:
            if isinstance(st, (ast.Assign, ast.AnnAssign)) and rel == P_CONVERTERS:
                val = st.value
                if isinstance(val, ast.Call):
                    ctx.fail("no-module-level-state", f"{rel}:module-level-call",
                             "module-level object created in converters.py", rel, st.lineno)

    # ---- the helper functions of types.py that every converter calls (is_special_property, is_keyword_class, ...) must not
    # keep state either: a lazily filled module-level index is shared by all converters and visible half-built to a
    # second thread
    from ..genlint import Index as _Index, cross_run_state as _crs
    pidx = _Index(ctx.src, dirs=("packages/python/lsprotocol",))
    nstate_t, hits_t = _crs(pidx, "packages/python/lsprotocol/")
    for rel_, construct, msg, ln in hits_t:
        ctx.fail("no-module-level-state", construct, msg, rel_, ln)
    ctx.ok("no-module-level-state", {"package_containers_examined": nstate_t})

    # ---- functions reachable from register_hooks
    reach, todo = set(), ["register_hooks"]
    while todo:
        n = todo.pop()
        if n in reach or n not in hm.functions:
            continue
        reach.add(n)
        # every reference counts (a function put into a table and called through it is reachable too)
        for c in ast.walk(hm.functions[n]):
            if isinstance(c, ast.Name) and isinstance(c.ctx, ast.Load) and c.id in hm.functions:
                todo.append(c.id)
    ctx.floor("functions reachable from register_hooks", len(reach), 4)

    def with_lock_ancestors(node, fn):
        out = []
        p = hm.parents.get(node)
        while p is not None and p is not fn:
            if isinstance(p, ast.With):
                for it in p.items:
                    d = dotted(it.context_expr)
                    if d in locks:
                        out.append(p)
            p = hm.parents.get(p)
        return out

    # Where can a use of ALL_TYPES_MAP race with its mutation?  attrs.resolve_types (A6) is the only mutator.  A
    # function that calls it, anything it calls, and anything register_hooks runs BEFORE it may overlap with another
    # thread's resolution.  Functions that register_hooks runs after the resolver returned cannot: every thread has
    # passed through the locked once-block, and the flag is only set after the work (rule flag-set-after-work).
    def calls_resolve(fn):
        return any((dotted(c.func) or "").endswith("resolve_types") for c in calls_in(fn))
    mutators = {n for n in reach if calls_resolve(hm.functions[n])}
    racy = set(mutators)
    todo2 = list(mutators)
    while todo2:
        n = todo2.pop()
        for c in calls_in(hm.functions[n]):
            d = dotted(c.func)
            if d in hm.functions and d not in racy:
                racy.add(d)
                todo2.append(d)
    rh = hm.functions.get("register_hooks")
    first_calls = []
    if rh is not None:
        for st in rh.body:
            for c in calls_in(st):
                d = dotted(c.func)
                if d in hm.functions:
                    first_calls.append(d)
    if mutators:
        first_mut = next((i for i, d in enumerate(first_calls) if d in racy), None)
        ctx.check(first_mut == 0, "resolver-runs-first", "register_hooks",
                  "register_hooks does not run the forward-reference resolver before everything else: functions that use "
                  "the shared registry may overlap with another thread's resolution", P_HOOKS, rh.lineno if rh else None)
        if first_mut:
            racy |= set(first_calls[:first_mut])
    n_state = 0
    for fname in sorted(reach):
        fn = hm.functions[fname]
        ctx.fn(f"_hooks.py:{fname}")
        globs = set()
        for node in ast.walk(fn):
            if isinstance(node, ast.Global):
                globs |= set(node.names)
        for node in ast.walk(fn):
            # writes of module state
            if isinstance(node, ast.Name) and isinstance(node.ctx, ast.Store) and node.id in globs:
                n_state += 1
                ws = with_lock_ancestors(node, fn)
                ctx.check(bool(ws), "flag-write-under-lock", f"{fname}:{node.id}",
                          f"module-level `{node.id}` is written outside a `with <module-level Lock>` block: concurrent "
                          "first calls race on it", P_HOOKS, node.lineno)
                if ws:
                    # re-test inside the lock, before the work
                    w = ws[-1]
                    tested = any(isinstance(x, ast.If) and any(isinstance(n2, ast.Name) and n2.id == node.id
                                                               for n2 in ast.walk(x.test)) for x in ast.walk(w))
                    ctx.check(tested, "flag-retested-under-lock", f"{fname}:{node.id}",
                              f"`{node.id}` is not tested inside the locked region: a thread that waited for the lock "
                              "repeats the work", P_HOOKS, w.lineno)
            # uses of the shared registry
            if isinstance(node, ast.Attribute) and node.attr == "ALL_TYPES_MAP" and dotted(node.value) == types_alias:
                if fname not in racy:
                    ctx.ok("registry-use-after-resolution", {"function": fname})
                    continue
                n_state += 1
                ctx.check(bool(with_lock_ancestors(node, fn)), "registry-use-under-lock", f"{fname}:ALL_TYPES_MAP",
                          "ALL_TYPES_MAP is iterated / handed to attrs.resolve_types (which mutates it) outside the lock: "
                          "concurrent first calls can raise 'dictionary changed size during iteration'", P_HOOKS, node.lineno)
        # flag set after the loop (not before the work)
        for node in ast.walk(fn):
            if isinstance(node, ast.Assign) and any(isinstance(t, ast.Name) and t.id in globs for t in node.targets):
                parent = hm.parents.get(node)
                body = getattr(parent, "body", [])
                if node in body:
                    after = body[body.index(node) + 1:]
                    work_after = [s for s in after if any(isinstance(x, (ast.For, ast.Call)) for x in ast.walk(s))]
                    ctx.check(not work_after, "flag-set-after-work", f"{fname}:{ast.unparse(node.targets[0])}",
                              "the once-flag is set before the work it guards has finished: another thread can see it set "
                              "while classes are still unresolved", P_HOOKS, node.lineno)
    ctx.floor("shared-state accesses examined", n_state, 2)
    ctx.check(bool(locks) or n_state == 0, "lock-exists", "_hooks.py:lock",
              "module-level shared state exists but no module-level threading.Lock/RLock", P_HOOKS)

    # ---- confinement
    def returns_own_parameter(name, _seen=()):
        """A module-level function of _hooks.py with one parameter whose every return hands back that parameter
        (directly, or through another such function), and which never rebinds it otherwise."""
        f = hm.functions.get(name or "")
        if f is None or name in _seen or len(f.args.args) != 1:
            return False
        prm = f.args.args[0].arg
        rets = [n for n in genlint_walk_own(f) if isinstance(n, ast.Return)]
        if not rets:
            return False
        for r in rets:
            v = r.value
            if isinstance(v, ast.Name) and v.id == prm:
                continue
            if isinstance(v, ast.Call) and len(v.args) == 1 and isinstance(v.args[0], ast.Name) and v.args[0].id == prm \
                    and returns_own_parameter(dotted(v.func), _seen + (name,)):
                continue
            return False
        for n in genlint_walk_own(f):
            if isinstance(n, ast.Name) and n.id == prm and isinstance(n.ctx, ast.Store):
                par = hm.parents.get(n)
                ok = isinstance(par, ast.Assign) and isinstance(par.value, ast.Call) and len(par.value.args) == 1 \
                    and isinstance(par.value.args[0], ast.Name) and par.value.args[0].id == prm \
                    and returns_own_parameter(dotted(par.value.func), _seen + (name,))
                if not ok:
                    return False
        return True

    n_calls = 0
    for fname in sorted(reach):
        fn = hm.functions[fname]
        if not fname.startswith("_register"):
            continue
        if len(fn.args.args) != 1:
            raise AnalysisError(f"{P_HOOKS}: {fname} signature changed")
        conv = fn.args.args[0].arg
        for inner in ast.walk(fn):
            if isinstance(inner, (ast.FunctionDef, ast.Lambda)) and inner is not fn:
                params = [a.arg for a in inner.args.args + inner.args.kwonlyargs]
                nm = getattr(inner, "name", "<lambda>")
                ctx.check(conv not in params, "converter-confined", f"{fname}.{nm}:shadow",
                          f"nested function {nm} has its own parameter named {conv}", P_HOOKS, inner.lineno)
        # `converter = _register_part(converter)` keeps the same object when the helper returns its own parameter
        harmless = set()
        for st in ast.walk(fn):
            if isinstance(st, ast.Assign) and len(st.targets) == 1 and isinstance(st.targets[0], ast.Name) \
                    and st.targets[0].id == conv and isinstance(st.value, ast.Call) and len(st.value.args) == 1 \
                    and not st.value.keywords and isinstance(st.value.args[0], ast.Name) and st.value.args[0].id == conv \
                    and returns_own_parameter(dotted(st.value.func)):
                harmless.add(id(st.targets[0]))
        for node in ast.walk(fn):
            if isinstance(node, ast.Name) and node.id == conv and isinstance(node.ctx, ast.Store) and id(node) not in harmless:
                ctx.fail("converter-confined", f"{fname}:rebinds-{conv}",
                         f"{fname} rebinds `{conv}`: hooks registered afterwards close over a different converter",
                         P_HOOKS, node.lineno)
            if isinstance(node, ast.Call) and isinstance(node.func, ast.Attribute):
                recv = node.func.value
                attr = node.func.attr
                if attr in ALLOWED_CONV_ATTRS or attr in ("structure_attrs_fromdict", "copy"):
                    n_calls += 1
                    ok = isinstance(recv, ast.Name) and recv.id == conv
                    ctx.check(ok, "converter-confined", f"{fname}:{ast.unparse(recv)}.{attr}",
                              f"`{ast.unparse(recv)}.{attr}(...)` is not a call on {fname}'s own converter parameter",
                              P_HOOKS, node.lineno)
            if isinstance(node, ast.Attribute) and isinstance(node.value, ast.Name) and node.value.id == conv:
                ctx.check(node.attr in ALLOWED_CONV_ATTRS, "no-config-branching", f"{fname}:{conv}.{node.attr}",
                          f"reads converter.{node.attr}: behaviour may depend on how the converter was configured",
                          P_HOOKS, node.lineno)
            if isinstance(node, ast.Call) and (dotted(node.func) or "").endswith("make_dict_structure_fn") or \
                    isinstance(node, ast.Call) and (dotted(node.func) or "").endswith("make_dict_unstructure_fn"):
                ok = len(node.args) >= 2 and dotted(node.args[1]) == conv
                ctx.check(ok, "converter-confined", f"{fname}:{dotted(node.func)}",
                          "generated (un)structure function is not bound to this converter", P_HOOKS, node.lineno)
            if isinstance(node, ast.Call) and (dotted(node.func) or "").split(".")[-1] in ("Converter", "get_converter",
                                                                                       "BaseConverter", "GenConverter"):
                ctx.fail("converter-confined", f"{fname}:{dotted(node.func)}",
                         "creates another converter inside a register function", P_HOOKS, node.lineno)
    ctx.floor("converter method calls examined", n_calls, 20)
    # foreign converter leaves seen by the hook analysis
    sa = _sitebase.analysis(ctx)
    for o in sa.outcomes:
        for c, m in o.issues:
            if c == "foreign":
                ctx.fail("converter-confined", f"{o.handler}:foreign", m, P_HOOKS)

    # ---- get_converter
    gc = cm.functions.get("get_converter")
    if gc is None:
        raise AnalysisError(f"{P_CONVERTERS}: get_converter not found")
    ctx.fn("converters.py:get_converter")
    if len(gc.args.args) != 1:
        raise AnalysisError(f"{P_CONVERTERS}: get_converter signature changed")
    # folded: get_converter is evaluated with cattrs.Converter and register_hooks stubbed, (a) without an
    # argument, twice, (b) with a given converter
    from ..microeval import Interp, ModuleRef, Record, Raised
    made = []

    noop = ("host", lambda *a, **k: None)

    def conv_record(serial):
        return Record("Converter", {"serial": serial, "registered": False, "register_structure_hook": noop,
                                    "register_unstructure_hook": noop, "register_structure_hook_func": noop,
                                    "register_unstructure_hook_func": noop, "register_structure_hook_factory": noop,
                                    "register_unstructure_hook_factory": noop})

    def mk_converter(*a, **k):
        r = conv_record(len(made))
        made.append(r)
        return r

    def reg(c):
        # register_hooks returns the converter it was given (checked on its own: C19 confinement, returns-own-parameter)
        if isinstance(c, Record) and c.cls_name == "Converter":
            c.fields["registered"] = True
        return c
    stub_hooks = ModuleRef("_hooks", attrs={"register_hooks": ("host", reg)})
    stub_cattrs = ModuleRef("cattrs", attrs={"Converter": ("host", mk_converter)})
    g = {"register_hooks": ("host", reg)}
    for st in cm.tree.body:
        if isinstance(st, ast.Import):
            for a in st.names:
                if a.name.split(".")[0] == "cattrs":
                    g[a.asname or "cattrs"] = stub_cattrs
        elif isinstance(st, ast.ImportFrom):
            for a in st.names:
                if a.name == "_hooks":
                    g[a.asname or a.name] = stub_hooks
                elif a.name == "Converter":
                    g[a.asname or a.name] = ("host", mk_converter)
                elif a.name == "register_hooks":
                    g[a.asname or a.name] = ("host", reg)
                else:
                    # any other module of the package (types, validators): an opaque namespace of class objects
                    class _Any(dict):
                        def __contains__(self, k):
                            return True

                        def __getitem__(self, k):
                            from ..microeval import ClassRef as _CR
                            if k.isupper() or k.upper() == k:
                                return {}          # a module-level table (ALL_TYPES_MAP ...): what is registered from it is
                            return _CR(k)          # the subject of the dispatch model, not of this fold
                    g[a.asname or a.name] = ModuleRef(a.name, attrs=_Any())
    it = Interp(name=P_CONVERTERS, extra_globals=g)
    for st in cm.tree.body:
        if isinstance(st, ast.FunctionDef):
            from ..microeval import Closure
            it.globals[st.name] = Closure(st, None, it)
        elif isinstance(st, (ast.Assign, ast.AnnAssign)) and getattr(st, "value", None) is not None:
            # module-level state of converters.py (a cached default converter ...) takes part in the fold
            tg = st.targets[0] if isinstance(st, ast.Assign) else st.target
            if isinstance(tg, ast.Name):
                try:
                    it.globals[tg.id] = it.eval(st.value, {})
                except (AnalysisError, Raised):
                    pass

    def fold(args):
        try:
            return it.call(gc, args)
        except Raised as e:
            return ("raised", e.exc_name)
    memoised = any(((dotted(d.func) if isinstance(d, ast.Call) else dotted(d)) or "").split(".")[-1] in ("lru_cache", "cache")
                   for d in gc.decorator_list)
    n0 = len(made)
    r1 = fold([])
    n1 = len(made)
    r2 = fold([None])
    n2 = len(made)

    def fresh_from(r, lo, hi):
        return isinstance(r, Record) and r.cls_name == "Converter" and r.fields.get("registered") is True \
            and any(r is m for m in made[lo:hi])
    fresh = fresh_from(r1, n0, n1) and fresh_from(r2, n1, n2) and not memoised
    ctx.check(fresh, "fresh-converter", "get_converter:none-branch",
              "get_converter(None) does not create a fresh cattrs.Converter() per call", P_CONVERTERS, gc.lineno)
    given = conv_record("given")
    r3 = fold([given])
    ok = r3 is given and given.fields.get("registered") is True and fresh
    ctx.check(ok, "fresh-converter", "get_converter:return",
              "get_converter does not return register_hooks(<the converter it was given / created>)", P_CONVERTERS, gc.lineno)
    default_none = len(gc.args.defaults) == 1 and isinstance(gc.args.defaults[0], ast.Constant) and gc.args.defaults[0].value is None
    ctx.check(default_none, "fresh-converter", "get_converter:default",
              "the converter parameter's default is not None (a shared default object would be reused)", P_CONVERTERS, gc.lineno)


_run_c19_base = run


def run(ctx: Ctx):  # noqa: F811
    _run_c19_base(ctx)
    _handlers_independent_of_validation_mode(ctx)


def _handlers_independent_of_validation_mode(ctx: Ctx):
    """A user-supplied converter may have detailed validation on or off, and which exception a failing structure() call
    raises depends on it: with it on, class and sequence failures arrive wrapped in cattrs' validation errors (a
    BaseValidationError / ExceptionGroup); with it off the raw KeyError / TypeError / ValueError arrives.  A hook that
    recovers from such a failure (try: structure(...) except E: ...) behaves the same under both settings only if E covers
    both families -- i.e. it is Exception (or bare), or names a validation class *and* raw exception classes."""
    hm = Module(P_HOOKS, ctx.src.text(P_HOOKS))
    validation = {"BaseValidationError", "ClassValidationError", "IterableValidationError", "ExceptionGroup"}
    n = 0
    for fn in hm.all_functions():
        for node in ast.walk(fn):
            if not isinstance(node, ast.Try):
                continue
            calls = [c for s_ in node.body for c in ast.walk(s_) if isinstance(c, ast.Call)
                     and ((dotted(c.func) or "").split(".")[-1] in ("structure", "structure_attrs_fromdict"))]
            if not calls:
                continue
            for h_ in node.handlers:
                n += 1
                if h_.type is None:
                    ctx.ok("handler-independent-of-validation-mode", {"function": fn.name, "catches": "everything"})
                    continue
                ts_ = h_.type.elts if isinstance(h_.type, ast.Tuple) else [h_.type]
                names = {(dotted(t_) or "?").split(".")[-1] for t_ in ts_}
                if names & {"Exception", "BaseException"}:
                    ctx.ok("handler-independent-of-validation-mode", {"function": fn.name, "catches": sorted(names)})
                    continue
                has_val, has_raw = bool(names & validation), bool(names - validation)
                ctx.check(has_val and has_raw, "handler-independent-of-validation-mode",
                          f"{fn.name}:except {', '.join(sorted(names))}",
                          f"{fn.name} recovers from a failing structure() call only for {sorted(names)}: "
                          + ("with detailed validation off the failure arrives as a bare KeyError / TypeError / ValueError and is "
                             "not caught" if has_val else
                             "with detailed validation on the failure arrives wrapped in a cattrs validation error "
                             "(an ExceptionGroup) and is not caught")
                          + ", so converters built on differently configured cattrs converters structure the same input differently",
                          P_HOOKS, h_.lineno, sample={"function": fn.name, "catches": sorted(names)})
    if n == 0:
        ctx.ok("handler-independent-of-validation-mode", {"try_around_structure_calls": 0})
